"""C07 - composite fonts: segmentation, CID, Unicode follow CMap / ToUnicode / W / DW.

Relations exercised on every run
  (tie)   Lean model (lean/PdfVerif/Model/CIDFont.lean, via drv_c07)  ==  pdfminer on the same inputs
  (prop)  pdfminer itself  ==  executable spec (Lean Spec/CIDFont.lean through the driver, and its Python
          twin in this file, which the run also compares with the Lean spec)
  (data)  predefined CJK CMaps + collection maps agree with Python's codecs  (a TEST of the shipped pickles)
  (proof) lean/PdfVerif/Props/C07.lean
"""

from __future__ import annotations

import glob
import io
import json
import logging
import os
import struct
import unicodedata
from fractions import Fraction as F
from typing import Any, Dict, List, Optional, Tuple

from harness import common as C

LEVEL = "proof"
RULE = ("seg: byte strings (even/odd length, empty, partial trailing code, invalid lead/trail bytes) x "
        "Identity-H/V, DLIdent, OneByteIdentity, predefined CJK tries; tounicode: generated ToUnicode programs "
        "(bfchar, bfrange increment with and without carry, bfrange array, 1/2/3-byte sources, multi-character and "
        "surrogate-pair targets, redefinitions) plus a malformed stream; widths: W/W2 arrays interleaving both "
        "syntaxes, cid 0, floats, missing terminals, wrong types, DW/DW2 present or absent; doc: PDFs with generated "
        "Type0 fonts (incl. predefined -V CMaps showing rotated punctuation) -> LTChar text/adv/matrix; umapsel: which "
        "CID->Unicode map a font picks (ToUnicode kind x collection x TrueType x writing mode); ttf: generated cmap "
        "tables formats 0/2/4 and damaged copies. A case is non-trivial when "
        "it is a distinct input that yields >= 1 code / mapping / width entry")
TRUSTED_BASE = [
    "hand models lean/PdfVerif/Model/CIDFont.lean and Model/TrueTypeCmap.lean of cmapdb/pdffont/pdfdevice functions "
    "(correspondence is sampling)",
    "tools/translate/gen_c07.py regenerates IDENTITY_ENCODER, the four identity CMap names of CMapDB.get_cmap, the "
    "DW/DW2 defaults, the TrueType collections tuple, the writing-mode argument of get_unicode_map, the popall "
    "keywords of CMapParser.do_keyword, the separator of the cidcoding f-string and the presence of the "
    "`if font.is_multibyte(): wordspace = 0` guard of PDFTextDevice.render_string from the source",
    "Python twin of the Lean spec in tools/harness/props/c07.py (compared with the Lean spec on every case)",
    "PDFCIDFont.__init__ glue (cidcoding, DW/DW2 validation, choice of W/DW vs W2/DW2 by writing mode) is hand-modelled "
    "(cidCoding, dwValue, dw2Value, cidCharWidth, cidCharDisp) and tie-checked on ill-typed / ill-formed dictionaries",
    "front of CMapParser: the tokenizer is C14's model Lexer.specLex (proved equal to the buffered PSBaseParser there); "
    "the object grouping of PSStackParser.nextobject is hand-modelled (Model/CMapLex.lean groupAux) for flat arrays, "
    "stray `]`, numbers / strings / names / keywords; dictionaries, procedures, booleans, keywords or brackets inside an "
    "open array and an array left open are answered `outside` by the model (then only the implementation-vs-spec "
    "relation is checked); tie by sampling over generated spellings (tubytes group)",
    "shipped CMap pickles are data: validated against Python codecs by sampling (quick) / exhaustively (thorough)",
    "exact rationals stand for Python floats (adv/matrix compared with tolerance 1e-9)",
]
ASSUMPTIONS = [
    "segmentation theorems for tries speak about strings that are a concatenation of codes of the CMap followed by "
    "an optional proper prefix of a code; bytes that start no code are modelled and tie-checked but outside the spec",
    "ToUnicode grammar: bfchar/bfrange sections of hex strings; the (space, then U+00A0) redefinition quirk of "
    "FileUnicodeMap.add_cid2unichr and destination strings whose last <=4 bytes overflow 2^32 are outside the domain",
    "W/W2 grammar: any interleaving of `c [w ...]` and `c1 c2 w` with integer cids (the part of a range outside "
    "0..65535 is void, in the spec as in the code since 471ca31); malformed arrays are tie-checked only",
    "documents are shown under default and non-default text state (Tc, Tw, Tz, Ts): the pen displacement between "
    "glyphs is judged as (w*Tfs + Tc)[*Th when horizontal]; word spacing never applies to a code of two or more bytes; "
    "for the single-byte code 32 of a composite font both treatments are accepted (ISO applies Tw, pdfminer does not)",
]
STATEMENT_STATUS: Dict[str, str] = {
    "identity_segment": "proved: IdentityCMap.decode = complete big-endian 2-byte codes, every length (after fix 70858cb)",
    "identity_segment_odd": "proved: a trailing odd byte is ignored",
    "identity_byte_segment": "proved",
    "identity_names": "proved over tables regenerated from pdffont.py / cmapdb.py",
    "trie_decode_spec": "proved for every trie: codes* ++ incomplete code -> the CIDs of the codes; bytes that start no "
                        "code are outside the statement (modelled and tie-checked)",
    "trie_decode_codes": "proved (no trailing incomplete code)",
    "tounicode_parse_spec": "proved: CMapParser(tokens of the CMap) = specified map for all bfchar/bfrange programs in "
                            "inDomain (carry form of the increment); excluded: U+0020->U+00A0 redefinition "
                            "(tounicode_nbsp_cex), 32-bit / field overflow, start/end of different length",
    "tounicode_parse_assignments": "proved without the U+00A0 hypothesis, in terms of add_cid2unichr assignments",
    "bfchar_map": "proved (handler level)",
    "bfrange_map": "proved (handler level; increment and array form)",
    "tounicode_nbsp_cex": "proved counter-example: deliberate U+00A0 rule of add_cid2unichr, outside the domain",
    "widths_map_spec": "proved: get_widths(render W) = specified dictionary, any interleaving of both syntaxes",
    "widths_spec": "proved: width of a cid = latest W entry, else DW, else 1000 (regenerated default)",
    "vertical_advance": "proved (Tc = 0, Tz = 100)",
    "horizontal_advance": "proved (Tc = 0, Tz = 100)",
    "glyph_placement": "proved",
    "vertical_default": "proved over the regenerated DW2 default",
    "collection_map_follows_wmode": "proved over the regenerated call CMapDB.get_unicode_map(self.cidcoding, "
                                    "self.cmap.is_vertical()): a vertical CMap reads the collection's vertical table",
    "unicode_map_priority": "proved: ToUnicode stream first; Adobe-Identity / Adobe-UCS use the TrueType cmap",
    "bfrange_inc": "proved: ISO's last-byte increment (incLast), wherever defined, equals the carry form (incBE)",
    "bfrange_inc_pairs": "proved: a range whose last byte never overflows maps lo+i to dst with the last byte + i",
    "widths2_map_spec": "proved: get_widths2(render W2) = specified dictionary, any interleaving of both syntaxes",
    "widths2_spec": "proved: w1y of a cid = latest W2 entry, else DW2[1], else -1000 (regenerated default)",
    "disp2_spec": "proved: position vector of a cid = (vx, vy) of the font's own latest W2 entry, else (none, DW2[0] or 880)",
    "trie_build_codes": "proved: a trie built by add_code2cid from a prefix-free table has the table's codes",
    "trie_build_decode": "proved: CMap.decode on the built trie = CIDs of the table's codes",
    "widths2_total": "proved: get_widths2 returns a dictionary on EVERY element list (ill-formed arrays included)",
    "cidfont_metrics_total": "proved: every CID font has a width and a displacement for every cid, any W/DW/W2/DW2",
    "dw2Value_eq": "proved (helper): DW2 validation = the pair of a two-number list, else the regenerated default",
    "cidfont_width_spec": "proved: PDFCIDFont.char_width (horizontal) from the dictionary = latest W entry, else DW if a "
                          "number, else 1000; every DW value, W2/DW2 irrelevant",
    "cidfont_width2_spec": "proved: vertical width and position vector = latest W2 entry, else DW2 if a list of two "
                           "numbers, else [880 -1000]; W/DW irrelevant",
    "writing_mode_selects_arrays": "proved: the writing mode alone decides which arrays are read; horizontal disp = 0",
    "cidcoding_spec": "proved: cidcoding = Registry-Ordering with surrounding white space (str.strip) removed",
    "popall_keywords_tied": "proved: the model's operand-discarding keywords = the popall branches of do_keyword, "
                            "regenerated from cmapdb.py",
    "unicode_map_from_cidsysteminfo": "proved: from the raw CIDSystemInfo (any surrounding white space) a font without "
                                      "ToUnicode reads the table Registry-Ordering of its CMap's writing mode",
    "usecmap_def_ignored": "proved: /Name usecmap and /Key value def leave map and operand stack unchanged",
    "composite_advance_ignores_tw": "proved over the regenerated guard of render_string: pen step after a glyph of a "
                                    "composite font = w*Tfs/1000 + Tc (times Th when horizontal), CID 32 included, "
                                    "independent of Tw",
    "composite_pen_ignores_tw": "proved: the pen after a whole composite-font string does not depend on Tw",
    "cidcoding_unknown": "proved: missing / ill-typed Registry and Ordering read as unknown-unknown",
    "cidchar_map": "proved (handler level): cid <code> pairs -> cid maps to the UTF-16BE text of the string",
    "cidrange_map": "proved (handler level): <lo> <hi> cid -> cid+i maps to the text of code lo+i (carry form), no "
                    "exception for codes of any length",
    "codespace_ignored": "proved: codespace / notdef range sections (one or several code widths) leave the parsed map "
                         "unchanged, whatever their operands",
    "tounicode_bytes_spec": "proved: from the BYTES of a ToUnicode CMap file (header, bfchar/bfrange sections in inDomain with "
                            "any written count, trailer; any non-empty separator of white space / comments after every "
                            "object) tokenizer + PSStackParser grouping + CMapParser = specified map",
    "tounicode_bytes_assignments": "proved: the same without the U+00A0 hypothesis (sequence of assignments)",
    "stackparser_groups_objects": "proved: PSStackParser grouping inverts the flattening of objects (flat arrays) into tokens",
    "tounicode_text_identity_partial": "partial: text of a shown string = ToUnicode text of its codes for the identity "
                                       "CMaps only (CID = code); table CMaps excluded (open finding tounicode-keyed-by-cid)",
    "tounicode_keyed_by_cid_cex": "proved counter-example (open finding tounicode-keyed-by-cid): code 82A2 -> CID 845, "
                                  "ToUnicode <82A2> <3044> gives no text",
    "future work": "utf16 round trip utf16Ignore (utf16Encode cps) = cps; theorems over the Lean model of "
                   "TrueTypeFont.create_unicode_map (formats 0/2/4 are modelled and tie-checked incl. damaged files, "
                   "and checked against independently built tables on the implementation, but no theorem)",
}

logging.getLogger("pdfminer").setLevel(logging.CRITICAL)

# =========================================================================== reference spec (Python twin)


def utf16_ignore_ref(b: bytes) -> List[int]:
    """bytes.decode('UTF-16BE', 'ignore') as code points (twin of Model.utf16Ignore)."""
    out: List[int] = []
    i, n = 0, len(b)
    while i + 1 < n:
        u = (b[i] << 8) | b[i + 1]
        if 0xD800 <= u < 0xDC00:
            if i + 3 < n:
                v = (b[i + 2] << 8) | b[i + 3]
                if 0xDC00 <= v < 0xE000:
                    out.append(0x10000 + ((u - 0xD800) << 10) + (v - 0xDC00))
                    i += 4
                    continue
                i += 2
                continue
            break
        if 0xDC00 <= u < 0xE000:
            i += 2
            continue
        out.append(u)
        i += 2
    return out


def utf16_valid(b: bytes) -> bool:
    try:
        b.decode("utf-16-be")
        return len(b) > 0
    except UnicodeDecodeError:
        return False


def spec_identity(width: int, data: bytes) -> List[int]:
    """Partition into `width`-byte big-endian codes; an incomplete trailing code is ignored."""
    return [int.from_bytes(data[i:i + width], "big") for i in range(0, len(data) - width + 1, width)]


def spec_trie_segment(table: Dict[bytes, int], maxlen: int, data: bytes) -> Optional[List[int]]:
    """Segmentation by a prefix-free code table; None when `data` is outside the domain
    (not codes* followed by a proper prefix of a code)."""
    out = []
    i = 0
    n = len(data)
    while i < n:
        for L in range(1, maxlen + 1):
            c = data[i:i + L]
            if len(c) == L and c in table:
                out.append(table[c])
                i += L
                break
        else:
            rest = data[i:]
            if any(k.startswith(rest) and len(k) > len(rest) for k in table):
                return out
            return None
    return out


def inc_last(dst: bytes, k: int) -> Optional[bytes]:
    """ISO 32000 9.10.3: the last byte of dstString is incremented; None if it would overflow."""
    if not dst or dst[-1] + k > 255:
        return None
    return dst[:-1] + bytes([dst[-1] + k])


def inc_be(dst: bytes, k: int) -> Optional[bytes]:
    """Carry form: the last min(4, len) bytes as a big-endian number plus k (None on overflow of that field)."""
    if not dst:
        return None
    var = dst[-4:]
    v = int.from_bytes(var, "big") + k
    if v >= 256 ** len(var):
        return None
    return dst[:-4] + v.to_bytes(len(var), "big")


def spec_tounicode(sections) -> Tuple[Dict[int, List[int]], Dict[str, bool]]:
    """sections: list of ('C', [(src, dst)]) / ('R', [(lo, hi, dst | [dst...])]).
    Returns (code -> code points, flags).  Later definitions override earlier ones."""
    m: Dict[int, List[int]] = {}
    flags = {"quirk": False, "carry": False, "overflow": False, "invalid_utf16": False, "lenmismatch": False,
             "arrshort": False}

    def put(code, dst):
        if not utf16_valid(dst):
            flags["invalid_utf16"] = True
        cps = utf16_ignore_ref(dst)
        if cps == [0xA0] and m.get(code) == [0x20]:
            flags["quirk"] = True
        m[code] = cps

    for kind, entries in sections:
        for e in entries:
            if kind == "C":
                put(int.from_bytes(e[0], "big"), e[1])
            else:
                lo, hi, dst = e
                if len(lo) != len(hi):
                    flags["lenmismatch"] = True
                    continue
                a, b = int.from_bytes(lo, "big"), int.from_bytes(hi, "big")
                if isinstance(dst, list):
                    if len(dst) != b - a + 1:
                        flags["arrshort"] = True
                    for i, d in zip(range(a, b + 1), dst):
                        put(i, d)
                else:
                    for i in range(b - a + 1):
                        x = inc_last(dst, i)
                        if x is None:
                            flags["carry"] = True
                            x = inc_be(dst, i)
                            if x is None:
                                flags["overflow"] = True
                                continue
                        put(a + i, x)
    return m, flags


def spec_widths(entries) -> Dict[int, F]:
    """entries: ('L', c, [w...]) | ('R', c1, c2, w); later entries override."""
    m: Dict[int, F] = {}
    for e in entries:
        if e[0] == "L":
            for i, w in enumerate(e[2]):
                m[e[1] + i] = F(w)
        else:
            for c in range(max(e[1], 0), min(e[2], 65535) + 1):     # CIDs are 0..65535
                m[c] = F(e[3])
    return m


def spec_widths2(entries) -> Dict[int, Tuple[F, F, F]]:
    """entries: ('L', c, [(w1y, vx, vy)...]) | ('R', c1, c2, (w1y, vx, vy))."""
    m: Dict[int, Tuple[F, F, F]] = {}
    for e in entries:
        if e[0] == "L":
            for i, t in enumerate(e[2]):
                m[e[1] + i] = tuple(F(x) for x in t)
        else:
            for c in range(max(e[1], 0), min(e[2], 65535) + 1):
                m[c] = tuple(F(x) for x in e[3])
    return m


# =========================================================================== wire formats (driver)

def num_word(x) -> str:
    if isinstance(x, bool):
        return "o"
    if isinstance(x, int):
        return "i%d" % x
    return "f" + C.frac_str(F(x))


def welem_word(e) -> str:
    """W-array element: int, float/Fraction, list, or OTHER."""
    if isinstance(e, list):
        return "l:" + ";".join(num_word(x) if isinstance(x, (int, float, F)) and not isinstance(x, bool) else "o"
                               for x in e)
    if isinstance(e, (int, float, F)) and not isinstance(e, bool):
        return num_word(e)
    return "o"


def tok_word(t) -> str:
    k = t[0]
    if k == "s":
        return "s:" + t[1].hex()
    if k == "i":
        return "i:%d" % t[1]
    if k == "n":
        return "n:" + t[1].hex()
    if k == "a":
        return "a:" + ",".join(("s" + e[1].hex()) if e[0] == "s" else ("i%d" % e[1]) if e[0] == "i" else "o"
                               for e in t[1])
    if k == "k":
        return "k:" + t[1]
    return "o"


def tok_pdf(t) -> bytes:
    k = t[0]
    if k == "s":
        return b"<" + t[1].hex().encode() + b">"
    if k == "i":
        return b"%d" % t[1]
    if k == "n":
        return b"/" + t[1]
    if k == "a":
        return b"[" + b" ".join(tok_pdf(e) for e in t[1]) + b"]"
    if k == "k":
        return t[1].encode()
    return b"1.5"          # OTHER: a real number (neither bytes, int, list nor name)


def toks_stream(toks) -> bytes:
    return b" ".join(tok_pdf(t) for t in toks) + b"\n"


def sec_word(sec) -> str:
    kind, entries = sec
    if kind == "C":
        return "C:" + ";".join(e[0].hex() + ":" + e[1].hex() for e in entries)
    parts = []
    for lo, hi, dst in entries:
        if isinstance(dst, list):
            parts.append(lo.hex() + ":" + hi.hex() + ":[" + ",".join(C.hx(d) for d in dst) + "]")
        else:
            parts.append(lo.hex() + ":" + hi.hex() + ":" + dst.hex())
    return "R:" + ";".join(parts)


HEADER_TOKS = [("n", b"CIDInit"), ("n", b"ProcSet"), ("k", "findresource"), ("k", "begin"), ("i", 12), ("k", "dict"),
               ("k", "begin"), ("k", "begincmap"), ("n", b"CMapName"), ("n", b"Adobe-Identity-UCS"), ("k", "def"),
               ("n", b"CMapType"), ("i", 2), ("k", "def"), ("i", 1), ("k", "begincodespacerange"),
               ("s", b"\x00\x00"), ("s", b"\xff\xff"), ("k", "endcodespacerange")]
TRAILER_TOKS = [("k", "endcmap"), ("k", "CMapName"), ("k", "currentdict"), ("n", b"CMap"), ("k", "defineresource"),
                ("k", "pop"), ("k", "end"), ("k", "end")]


def render_sections(sections) -> List[Any]:
    """Twin of Spec.render: the token list of a ToUnicode CMap with these sections."""
    toks = list(HEADER_TOKS)
    for kind, entries in sections:
        toks.append(("i", len(entries)))
        if kind == "C":
            toks.append(("k", "beginbfchar"))
            for s, d in entries:
                toks += [("s", s), ("s", d)]
            toks.append(("k", "endbfchar"))
        else:
            toks.append(("k", "beginbfrange"))
            for lo, hi, dst in entries:
                toks += [("s", lo), ("s", hi)]
                toks.append(("a", [("s", d) for d in dst]) if isinstance(dst, list) else ("s", dst))
            toks.append(("k", "endbfrange"))
    return toks + TRAILER_TOKS


def map_line(m: Dict[int, List[int]]) -> str:
    if not m:
        return "M -"
    return "M " + ",".join("%d=%s" % (k, ".".join("%x" % c for c in v)) for k, v in sorted(m.items()))


def cids_line(cids) -> str:
    cids = list(cids)
    return "C " + (" ".join(str(c) for c in cids) if cids else "-")


ERRMAP = {"error": "struct.error"}


def exc_line(e: BaseException) -> str:
    n = type(e).__name__
    return "E " + ERRMAP.get(n, n)


# =========================================================================== generators

IDENT2 = ["Identity-H", "Identity-V", "DLIdent-H", "DLIdent-V"]
IDENT1 = ["OneByteIdentityH", "OneByteIdentityV"]
CJK_QUICK = ["90ms-RKSJ-H", "EUC-H", "UniJIS-UCS2-H", "UniJIS-UTF16-H", "GBK-EUC-H", "B5pc-H", "KSC-EUC-H",
             "UniGB-UCS2-V", "H", "V", "Hankaku-H", "UniKS-UCS2-H", "UniCNS-UTF16-H", "90ms-RKSJ-V"]


def all_cmap_names() -> List[str]:
    d = os.path.join(C.REPO, "pdfminer", "cmap")
    return sorted(f[:-10] for f in os.listdir(d) if f.endswith(".pickle.gz") and not f.startswith("to-unicode"))


_TABLES: Dict[str, Tuple[Dict[bytes, int], int]] = {}


def flat_table(name: str) -> Tuple[Dict[bytes, int], int]:
    """All (code, cid) paths of the shipped trie of a predefined CMap."""
    if name in _TABLES:
        return _TABLES[name]
    from pdfminer.cmapdb import CMapDB
    cm = CMapDB.get_cmap(name)
    tab: Dict[bytes, int] = {}

    def walk(d, pre):
        for k, v in d.items():
            if isinstance(v, dict):
                walk(v, pre + bytes([k]))
            else:
                tab[pre + bytes([k])] = v
    walk(cm.code2cid, b"")
    _TABLES[name] = (tab, max(len(k) for k in tab))
    return _TABLES[name]


def gen_bytes(rng, maxlen=12) -> bytes:
    n = rng.choice([0, 1, 2, 3, 4, 5, 6, 7, 8]) if rng.random() < 0.8 else rng.randint(0, maxlen)
    mode = rng.random()
    if mode < 0.3:
        return bytes(rng.choice([0, 0, 1, 0x20, 0x41, 0xFF, 0x80]) for _ in range(n))
    return bytes(rng.randrange(256) for _ in range(n))


def gen_trie_string(rng, tab: Dict[bytes, int], keys: List[bytes]) -> Tuple[bytes, str]:
    """Mostly codes* (+ partial code); sometimes with bytes that start no code."""
    k = rng.randint(0, 6)
    parts = [rng.choice(keys) for _ in range(k)]
    if keys and rng.random() < 0.15:      # boundary codes of the table: smallest / largest code
        parts.insert(rng.randint(0, len(parts)), rng.choice([min(keys), max(keys)]))
    kind = "codes"
    r = rng.random()
    if r < 0.3:
        long = [x for x in (rng.choice(keys) for _ in range(8)) if len(x) > 1]
        if long:
            c = rng.choice(long)
            parts.append(c[:rng.randint(1, len(c) - 1)])
            kind = "partial"
    elif r < 0.5:
        pos = rng.randint(0, len(parts))
        parts.insert(pos, bytes(rng.randrange(256) for _ in range(rng.randint(1, 2))))
        kind = "wild"
    return b"".join(parts), kind


TARGET_CPS = [0x41, 0x20, 0xA0, 0x3042, 0x4E00, 0xFFFD, 0x1F600, 0x1D400, 0x10FFFF, 0x10000, 0xE9, 0xFF, 0x100, 0xFFFF]


def gen_target(rng, wild=False) -> bytes:
    r = rng.random()
    if wild and r < 0.35:
        return rng.choice([b"", b"\x41", b"\xd8\x3d", b"\xde\x00", b"\x00\x41\x00", b"\xd8\x3d\x00\x41",
                           b"\xde\x00\xd8\x3d", b"\xff\xff\xff\xff", b"\xff\xff\xff\xfe", b"\x00\x41\xff\xff\xff\xff",
                           bytes(rng.randrange(256) for _ in range(rng.randint(0, 7)))])
    n = 1 if r < 0.7 else rng.randint(2, 3)
    s = "".join(chr(rng.choice(TARGET_CPS) if rng.random() < 0.6 else
                    rng.choice([rng.randint(0x20, 0x2FF), rng.randint(0x3000, 0x9FFF), rng.randint(0x10000, 0x1FFFF)]))
                for _ in range(n))
    return s.encode("utf-16-be")


def gen_src(rng, width: int, hot: List[int]) -> int:
    top = 256 ** width
    if rng.random() < 0.1:
        return rng.choice([0, top - 1, top - 2, 255 % top, 256 % top])
    if hot and rng.random() < 0.3:
        return rng.choice(hot) % top
    if rng.random() < 0.5:
        return rng.randrange(min(top, 300))
    return rng.randrange(top)


def gen_sections(rng, widths=(1, 2, 2, 2, 3), wild=False, nsec=None):
    """A ToUnicode program (list of sections)."""
    sections = []
    hot: List[int] = []
    for _ in range(nsec if nsec is not None else rng.randint(1, 4)):
        width = rng.choice(widths)
        if rng.random() < 0.45:
            ents = []
            for _ in range(rng.randint(1, 5)):
                c = gen_src(rng, width, hot)
                hot.append(c)
                ents.append((c.to_bytes(width, "big"), gen_target(rng, wild)))
            sections.append(("C", ents))
        else:
            ents = []
            for _ in range(rng.randint(1, 3)):
                lo = gen_src(rng, width, hot)
                span = rng.choice([0, 1, 2, 5, 17, 40])
                hi = min(lo + span, 256 ** width - 1)
                hot += [lo, hi]
                lob, hib = lo.to_bytes(width, "big"), hi.to_bytes(width, "big")
                r = rng.random()
                if wild and r < 0.1:
                    hib = hi.to_bytes(width + 1, "big")           # length mismatch: entry skipped
                if wild and 0.1 <= r < 0.15 and lo > 0:
                    lob, hib = hib, (lo - 1).to_bytes(width, "big")  # empty range
                if r < 0.4:
                    n = hi - lo + 1
                    if rng.random() < 0.25:
                        n = max(0, n + rng.choice([-2, -1, 1, 3]))
                    ents.append((lob, hib, [gen_target(rng, wild) for _ in range(n)]))
                else:
                    dst = gen_target(rng, wild)
                    m = rng.random()
                    if dst and m < 0.35:       # last byte close to 0xFF: carry
                        dst = dst[:-1] + bytes([rng.choice([0xFF, 0xFE, 0xF0, 0xFF - span if span < 255 else 0])])
                    if dst and m > 0.9 and len(dst) >= 2:
                        dst = dst[:-2] + b"\xff" + bytes([rng.choice([0xFE, 0xFF, 0xF8])])
                    ents.append((lob, hib, dst))
            sections.append(("R", ents))
    return sections


WILD_KWS = ["begincmap", "endcmap", "usecmap", "def", "begincodespacerange", "endcodespacerange", "begincidrange",
            "endcidrange", "begincidchar", "endcidchar", "beginbfrange", "endbfrange", "beginbfchar", "endbfchar",
            "beginnotdefrange", "endnotdefrange", "foo", "pop"]


LONG_PREFIX = {1: b"", 2: b"\x00", 3: b"\x00\x00", 4: b"\x00\x00\x01", 5: b"\x01\x00\x00\x00",
               6: b"\xff\x01\x00\x00\x00"}


def gen_wild_tokens(rng) -> List[Any]:
    """Token soup around the handlers: wrong operand types, missing operands, cidrange/cidchar, def, usecmap."""
    toks: List[Any] = []
    for _ in range(rng.randint(1, 6)):
        kw = rng.choice(WILD_KWS)
        ops: List[Any] = []
        for _ in range(rng.choice([0, 1, 2, 3, 3, 4, 6])):
            r = rng.random()
            if r < 0.5:
                # strings of equal length differ in the last byte only, so that every range spans <= 255 codes
                n = rng.choice([0, 1, 2, 2, 2, 3, 4, 5, 6])
                ops.append(("s", (LONG_PREFIX[n] + bytes([rng.randrange(256) if rng.random() < 0.3 else
                                                         rng.choice([0, 1, 0x41, 0xFF])])) if n else b""))
            elif r < 0.7:
                ops.append(("i", rng.choice([0, 1, 65, 0x20, 0xA0, 0x3042, 0xD800, 0x10FFFF, 0x110000, -1, 70000])))
            elif r < 0.8:
                ops.append(("n", rng.choice([b"Identity-H", b"X", b"WMode"])))
            elif r < 0.92:
                ops.append(("a", [rng.choice([("s", gen_target(rng, True)), ("i", rng.choice([65, 0x3042, 0x110000, -5])),
                                              ("o",)]) for _ in range(rng.randint(0, 4))]))
            else:
                ops.append(("o",))
        if kw == "usecmap":
            ops = ops[:-1] + [("n", rng.choice([b"Identity-H", b"Adobe-Japan1-UCS2", b"X"]))]
        toks += ops + [("k", kw)]
    return toks


# boundary values of the CID / code space (first, last, around the one/two-byte border)
BOUNDARY_CIDS = [0, 1, 255, 256, 65534, 65535]


def gen_cid(rng) -> int:
    r = rng.random()
    if r < 0.25:
        return rng.choice(BOUNDARY_CIDS)
    if r < 0.75:
        return rng.choice([0, 1, 2, 3, 5, 10, 32, rng.randint(0, 300)])
    return rng.randint(0, 65535)


def gen_num(rng, allow_float=True):
    if allow_float and rng.random() < 0.25:
        return float(F(rng.randint(-2000, 3000), rng.choice([2, 4, 8])))
    return rng.choice([0, 1000, 500, 250, 600, 1, -300, rng.randint(0, 2000)])


def gen_w_entries(rng, n=None):
    ents = []
    for _ in range(n if n is not None else rng.randint(0, 5)):
        c = gen_cid(rng)
        if rng.random() < 0.5:
            ents.append(("L", c, [gen_num(rng) for _ in range(rng.randint(0, 4))]))
        else:
            c1 = c if rng.random() > 0.06 else -rng.randint(1, 5)      # below 0 / above 65535: clamped part is void
            r = rng.random()
            if r < 0.12:
                c2 = rng.choice([65535, 65535, 65534, 65536, 70000])   # ranges reaching the last CID (or beyond)
                c1 = max(c1, c2 - rng.choice([0, 1, 5, 40, 535])) if rng.random() < 0.9 else 0   # rarely the full range
            else:
                c2 = c + rng.choice([0, 1, 2, 7, 30, -1])
            ents.append(("R", c1, c2, gen_num(rng)))
    return ents


def render_w(entries) -> List[Any]:
    out: List[Any] = []
    for e in entries:
        if e[0] == "L":
            out += [e[1], list(e[2])]
        else:
            out += [e[1], e[2], e[3]]
    return out


def gen_w2_entries(rng, n=None):
    ents = []
    for _ in range(n if n is not None else rng.randint(0, 4)):
        c = gen_cid(rng)
        t = lambda: (rng.choice([-1000, -500, -750, -rng.randint(1, 1500), 200]), gen_num(rng), gen_num(rng))  # noqa: E731
        if rng.random() < 0.5:
            ents.append(("L", c, [t() for _ in range(rng.randint(0, 3))]))
        else:
            c2 = c + rng.choice([0, 1, 2, 7, -1])
            c1 = c
            if rng.random() < 0.12:
                c2 = rng.choice([65535, 65535, 65534, 65536, 70000])
                c1 = max(0, c2 - rng.choice([0, 1, 5, 40]))
            ents.append(("R", c1, c2, t()))
    return ents


def render_w2(entries) -> List[Any]:
    out: List[Any] = []
    for e in entries:
        if e[0] == "L":
            out += [e[1], [x for t in e[2] for x in t]]
        else:
            out += [e[1], e[2]] + list(e[3])
    return out


class Other:
    """Stands for a W-array element that is neither a number nor a list (a name)."""

    def __repr__(self):
        return "OTHER"


def to_pdfminer_w(elems):
    from pdfminer.psparser import LIT
    out = []
    for e in elems:
        if isinstance(e, list):
            out.append([LIT("x") if isinstance(x, Other) else x for x in e])
        elif isinstance(e, Other):
            out.append(LIT("x"))
        else:
            out.append(e)
    return out


def mutate_w(rng, elems):
    """Malformed W arrays: dropped terminals, wrong types, floats as cids."""
    elems = list(elems)
    for _ in range(rng.randint(1, 3)):
        r = rng.random()
        if elems and r < 0.35:
            del elems[rng.randrange(len(elems))]
        elif r < 0.55:
            elems.insert(rng.randint(0, len(elems)), Other())
        elif r < 0.75:
            elems.insert(rng.randint(0, len(elems)), rng.choice([2.0, 2.5, 7, 0]))
        elif r < 0.9:
            elems.insert(rng.randint(0, len(elems)), [rng.choice([300, 1.5, Other()]) for _ in range(rng.randint(0, 4))])
        else:
            elems.append(rng.randint(0, 50))
    return elems


# =========================================================================== bookkeeping of driver requests

class Batch:
    """Collects requests for the Lean driver together with what the implementation / Python twin said."""

    def __init__(self, ctx: C.Ctx, auto: bool = True):
        self.ctx = ctx
        self.auto = auto          # stateless requests may be sent in chunks (each `ask` is a fresh driver process)
        self.lines: List[str] = []
        self.meta: List[Tuple[str, Any, Any, Any]] = []   # (kind, op, input, expected)

    def tie(self, op: str, line: str, impl_out: str, inp: Any) -> None:
        """model output of `line` must equal what the implementation produced."""
        self.lines.append(line)
        self.meta.append(("tie", op, inp, impl_out))
        if self.auto and len(self.lines) >= 3000:
            self.flush()

    def twin(self, op: str, line: str, py_out: str, inp: Any) -> None:
        """Lean spec output must equal the Python twin of the spec used as the oracle."""
        self.lines.append(line)
        self.meta.append(("twin", op, inp, py_out))

    def flush(self) -> None:
        if self.ctx.driver is None or not self.lines:
            self.lines, self.meta = [], []
            return
        outs = self.ctx.driver.ask(self.lines)
        for (kind, op, inp, exp), got in zip(self.meta, outs):
            if exp != got:
                self.ctx.disagree(op if kind == "tie" else "spec-twin:" + op, inp, exp, got)
        self.lines, self.meta = [], []


def call(f) -> Tuple[Any, Optional[BaseException]]:
    try:
        return f(), None
    except Exception as e:  # noqa: BLE001
        return None, e


# =========================================================================== seg: code segmentation

def impl_decode(name: str, data: bytes):
    from pdfminer.cmapdb import CMapDB
    return list(CMapDB.get_cmap(name).decode(data))


def impl_cmap_name(enc_kind: str, enc_name: str) -> str:
    """PDFCIDFont._get_cmap_name on a spec whose Encoding is a name or a stream with CMapName."""
    from pdfminer.pdffont import PDFCIDFont
    from pdfminer.psparser import LIT
    from pdfminer.pdftypes import PDFStream
    if enc_kind == "name":
        spec = {"Encoding": LIT(enc_name)}
    elif enc_kind == "stream":
        spec = {"Encoding": PDFStream({"CMapName": LIT(enc_name)}, b"")}
    else:
        spec = {}
    return PDFCIDFont._get_cmap_name(spec, False)


def check_seg(ctx: C.Ctx, b: Batch, name: str, data: bytes, origin: str = "gen") -> None:
    """One segmentation case on the implementation; name is what the font's Encoding says."""
    resolved, e0 = call(lambda: impl_cmap_name("name", name))
    if e0 is not None:
        ctx.fail(C.Failure("PDFCIDFont._get_cmap_name raised", {"group": "seg", "cmap": name, "data": data.hex()},
                           "a CMap name", exc_line(e0), {"group": "seg", "exc": type(e0).__name__}))
        return
    got, e = call(lambda: impl_decode(resolved, data))
    impl_out = cids_line(got) if e is None else exc_line(e)
    inp = {"group": "seg", "cmap": name, "data": data.hex()}
    if name in IDENT2 or name in IDENT1:
        width = 2 if name in IDENT2 else 1
        exp = spec_identity(width, data)
        kind = ("odd" if len(data) % width else "even") if data else "empty"
        ctx.case(("seg", name, data), len(data) >= width, sample=inp, branch=f"seg:{name}:{kind}")
        b.tie("seg.model", f"id{width} {C.hx(data)}", impl_out, inp)
        b.twin("seg.spec", f"idspec{width} {C.hx(data)}", cids_line(exp), inp)
        b.tie("cmapname", f"cmapname {name.encode().hex()}", "N " + resolved.encode().hex(), inp)
        vert = call(lambda: __import__("pdfminer.cmapdb").cmapdb.CMapDB.get_cmap(resolved).is_vertical())[0]
        if vert != name.endswith("V"):
            ctx.fail(C.Failure("identity CMap has the wrong writing mode", inp, name.endswith("V"), vert,
                               {"group": "seg", "what": "wmode"}))
        if impl_out != cids_line(exp):
            small = bytes(C.ddmin(list(data), lambda sub: (lambda g, ee: (cids_line(g) if ee is None else exc_line(ee))
                                                           != cids_line(spec_identity(width, bytes(sub))))(
                *call(lambda: impl_decode(resolved, bytes(sub))))))
            g2, e2 = call(lambda: impl_decode(resolved, small))
            ctx.fail(C.Failure("identity CMap does not split the string into fixed-width codes",
                               {"group": "seg", "cmap": name, "data": small.hex()},
                               cids_line(spec_identity(width, small)), cids_line(g2) if e2 is None else exc_line(e2),
                               {"group": "seg", "cmap": name, "odd": len(small) % width != 0,
                                "exc": type(e2).__name__ if e2 is not None else None}))
    else:
        tab, maxlen = flat_table(name)
        exp = spec_trie_segment(tab, maxlen, data)
        ctx.case(("seg", name, data), bool(got), sample=inp,
                 branch="seg:trie:" + origin + (":outside" if exp is None else ""))
        b.tie("trie.model", f"trie.dec {C.hx(data)}", impl_out, inp)
        if exp is not None:
            b.twin("trie.spec", f"trie.seg {C.hx(data)}", cids_line(exp), inp)
            if impl_out != cids_line(exp):
                ctx.fail(C.Failure("predefined CMap does not split the string into its codes", inp, cids_line(exp),
                                   impl_out, {"group": "seg", "cmap": name, "trie": True}))
        else:
            b.twin("trie.spec", f"trie.seg {C.hx(data)}", "outside-domain", inp)


def load_trie_lines(name: str) -> List[str]:
    tab, _ = flat_table(name)
    return ["trie.new"] + [f"trie.add {k.hex()} {v}" for k, v in tab.items()]


def run_seg(ctx: C.Ctx) -> None:
    rng = ctx.rng
    b = Batch(ctx)
    for i in range(ctx.n(600, 30000)):
        name = (IDENT2 + IDENT1)[i % 6]
        check_seg(ctx, b, name, gen_bytes(rng))
    # CMap-name resolution incl. stream-valued Encoding and unknown names
    for nm in IDENT2 + IDENT1 + ["Identity", "identity-h", "DLIdent-H ", "H", "unknown", "90ms-RKSJ-H"]:
        for kind in ("name", "stream"):
            got, e = call(lambda: impl_cmap_name(kind, nm))
            out = "N " + got.encode().hex() if e is None else exc_line(e)
            b.tie("cmapname", f"cmapname {nm.encode().hex()}", out, {"group": "cmapname", "kind": kind, "name": nm})
            ctx.case(("cmapname", kind, nm), True, branch="cmapname:" + kind)
    got, e = call(lambda: impl_cmap_name("none", ""))
    if e is not None or got != "unknown":
        ctx.fail(C.Failure("font without Encoding: CMap name is not 'unknown'", {"group": "cmapname", "kind": "none"},
                           "unknown", repr(got or e), {"group": "cmapname"}))
    b.flush()
    b.auto = False      # the trie lives in the driver process: load + queries must travel in one batch
    # tries of the predefined CJK CMaps
    names = CJK_QUICK if ctx.tier == "quick" else all_cmap_names()
    avail = set(all_cmap_names())
    names = [n for n in names if n in avail]
    if ctx.tier == "quick":
        names = rng.sample(names, min(5, len(names)))
    per = ctx.n(120, 400)
    for name in names:
        if not ctx.time_left():
            break
        tab, _ = flat_table(name)
        keys = list(tab)
        if ctx.driver is not None:
            for ln in load_trie_lines(name):
                b.tie("trie.load", ln, "ok", {"group": "trie.load", "cmap": name})
        from pdfminer.cmapdb import CMapDB
        vert = CMapDB.get_cmap(name).is_vertical()
        if vert != name.endswith("V"):
            ctx.fail(C.Failure("predefined CMap has the wrong writing mode", {"group": "seg", "cmap": name},
                               name.endswith("V"), vert, {"group": "seg", "what": "wmode"}))
        for _ in range(per):
            data, kind = gen_trie_string(rng, tab, keys)
            check_seg(ctx, b, name, data, kind)
        b.flush()
    # small synthetic tries built through FileCMap.add_code2cid (incl. prefix conflicts)
    from pdfminer.cmapdb import FileCMap
    for k in range(ctx.n(60, 2000)):
        if k % 200 == 199:
            b.flush()
        fc = FileCMap()
        b.tie("trie.load", "trie.new", "ok", None)
        codes = []
        for _ in range(rng.randint(1, 6)):
            code = bytes(rng.choice([1, 2, 3, 0x81]) for _ in range(rng.randint(1, 3)))
            cid = rng.randint(0, 500)
            _, e = call(lambda: fc.add_code2cid(code.decode("latin-1"), cid))
            out = "ok" if e is None else exc_line(e)
            b.tie("trie.add", f"trie.add {code.hex()} {cid}", out, {"group": "trie.add", "code": code.hex()})
            ctx.branch("trieadd:" + out)
            codes.append(code)
        for _ in range(4):
            data = b"".join(rng.choice(codes + [bytes([rng.choice([1, 2, 3, 4, 0x81])])]) for _ in range(rng.randint(0, 5)))
            got, e = call(lambda: list(fc.decode(data)))
            b.tie("trie.model", f"trie.dec {C.hx(data)}", cids_line(got) if e is None else exc_line(e),
                  {"group": "trie.synthetic", "codes": [c.hex() for c in codes], "data": data.hex()})
            ctx.case(("synt", tuple(codes), data), bool(got), branch="seg:trie:synthetic")
    b.flush()


# =========================================================================== tounicode: CMapParser

def impl_tounicode(stream: bytes):
    from pdfminer.cmapdb import CMapParser, FileUnicodeMap
    m = FileUnicodeMap()
    CMapParser(m, io.BytesIO(stream)).run()
    return {k: [ord(ch) for ch in v] for k, v in m.cid2unichr.items()}


def tounicode_outcome(sections) -> Tuple[str, str, Dict[str, bool]]:
    """(implementation line, spec line, flags) for an in-grammar program."""
    toks = render_sections(sections)
    got, e = call(lambda: impl_tounicode(toks_stream(toks)))
    impl_out = map_line(got) if e is None else exc_line(e)
    m, flags = spec_tounicode(sections)
    return impl_out, map_line(m), flags


def in_domain(flags) -> bool:
    return not (flags["quirk"] or flags["overflow"] or flags["lenmismatch"])


def check_tounicode(ctx: C.Ctx, b: Batch, sections, origin="gen") -> None:
    toks = render_sections(sections)
    impl_out, spec_out, flags = tounicode_outcome(sections)
    words = " ".join(sec_word(s) for s in sections)
    inp = {"group": "tounicode", "sections": [sec_word(s) for s in sections]}
    dom = in_domain(flags)
    ctx.case(("tu", words), spec_out != "M -", sample=inp,
             branch="tu:" + ("domain" if dom else "outside") + (":carry" if flags["carry"] else ""))
    for k, v in flags.items():
        if v:
            ctx.branch("tuflag:" + k)
    b.tie("tounicode.model", "tu " + " ".join(tok_word(t) for t in toks), impl_out, inp)
    b.twin("tounicode.render", "tuspec.toks " + words, "T " + " ".join(tok_word(t) for t in toks), inp)
    b.twin("tounicode.spec", "tuspec.map " + words, spec_out if dom else "outside-domain", inp)
    if dom and impl_out != spec_out:
        def bad(secs):
            i2, s2, f2 = tounicode_outcome(secs)
            return in_domain(f2) and i2 != s2
        small = C.ddmin(list(sections), bad, 60)
        small = [(k, C.ddmin(list(es), lambda sub, k=k, i=i: bad(small[:i] + [(k, sub)] + small[i + 1:]), 40) or es)
                 for i, (k, es) in enumerate(small)]
        if not bad(small):
            small = sections
        i2, s2, f2 = tounicode_outcome(small)
        ctx.fail(C.Failure("ToUnicode CMap parsed by CMapParser differs from the map its bfchar/bfrange entries define",
                           {"group": "tounicode", "sections": [sec_word(s) for s in small]}, s2, i2,
                           {"group": "tounicode", "carry": f2["carry"], "exc": i2[2:] if i2.startswith("E ") else None}))


def parse_sec_word(w: str):
    kind, rest = w[0], w[2:]
    ents = []
    for part in rest.split(";") if rest else []:
        f = part.split(":")
        if kind == "C":
            ents.append((bytes.fromhex(f[0]), bytes.fromhex(f[1])))
        elif f[2].startswith("["):
            inner = f[2][1:-1]
            ents.append((bytes.fromhex(f[0]), bytes.fromhex(f[1]), [bytes.fromhex(x) if x != "-" else b"" for x in inner.split(",")] if inner else []))
        else:
            ents.append((bytes.fromhex(f[0]), bytes.fromhex(f[1]), bytes.fromhex(f[2])))
    return (kind, ents)


def run_tounicode(ctx: C.Ctx) -> None:
    rng = ctx.rng
    b = Batch(ctx)
    for i in range(ctx.n(400, 20000)):
        check_tounicode(ctx, b, gen_sections(rng, wild=(i % 5 == 4)))
    # UTF-16BE decoding with errors ignored (FileUnicodeMap.add_cid2unichr on bytes)
    for i in range(ctx.n(200, 5000)):
        data = gen_target(rng, wild=True) + (gen_target(rng, wild=True) if rng.random() < 0.5 else b"")
        got = [ord(c) for c in data.decode("UTF-16BE", "ignore")]
        line = "U " + (".".join("%x" % c for c in got) if got else "-")
        b.tie("utf16.model", "utf16 " + C.hx(data), line, {"group": "utf16", "data": data.hex()})
        ctx.case(("utf16", data), bool(got), branch="utf16:" + ("valid" if utf16_valid(data) else "invalid"))
        if utf16_valid(data) and got != [ord(c) for c in data.decode("utf-16-be")]:
            ctx.fail(C.Failure("UTF-16BE target decoded wrongly", {"group": "utf16", "data": data.hex()}, "", line,
                               {"group": "utf16"}))
    # malformed / unusual token streams: tie only (outside the ToUnicode grammar)
    templates = [
        [("s", b"\x00\x01"), ("s", b"\x00\x03"), ("i", 65), ("k", "endbfrange")],                      # AssertionError
        [("s", b"\x00\x01"), ("s", b"\x00\x03"), ("n", b"A"), ("k", "endbfrange")],                    # AssertionError
        [("s", b"\x00\x01"), ("s", b"\x00\x03"), ("a", [("s", b"\x00A"), ("o",)]), ("k", "endbfrange")],  # PDFTypeError
        [("s", b"\x00\x01"), ("s", b"\x00\x09"), ("s", b"\xff\xff\xff\xfe"), ("k", "endbfrange")],       # struct.error
        [("s", b"\x00\x01"), ("s", b"\x00\x02"), ("s", b""), ("k", "endbfrange")],                       # [-0:] quirk
        [("k", "def")], [("i", 1), ("k", "def")], [("k", "usecmap")],                  # too few operands: tolerated
        [("s", b"\x00\x41"), ("s", b"\x00\x44"), ("i", 7), ("k", "endcidrange")],
        [("s", b"\x01\x00\x00\x00\x41"), ("s", b"\x01\x00\x00\x00\x43"), ("i", -2), ("k", "endcidrange")],
        [("s", b"\x01\x00\x00\x00\x41"), ("s", b"\x02\x00\x00\x00\x43"), ("i", 0), ("k", "endcidrange")],  # prefix differs
        [("i", 66), ("s", b"\x00\x43"), ("s", b"\x00\x43"), ("i", 67), ("k", "endcidchar")],
        [("k", "endcmap"), ("s", b"\x01"), ("s", b"\x00A"), ("k", "endbfchar"), ("k", "begincmap"),
         ("s", b"\x02"), ("s", b"\x00B"), ("k", "endbfchar")],
        [("s", b"\x01"), ("s", b"\x00A"), ("k", "foo"), ("s", b"\x02"), ("s", b"\x00B"), ("k", "endbfchar")],
    ]
    for i in range(ctx.n(300, 10000)):
        toks = gen_wild_tokens(rng)
        if i < 3 * len(templates):
            toks = list(templates[i % len(templates)]) + (toks if i >= len(templates) else [])
        if rng.random() < 0.5:
            toks = HEADER_TOKS + toks
        got, e = call(lambda: impl_tounicode(toks_stream(toks)))
        impl_out = map_line(got) if e is None else exc_line(e)
        b.tie("tounicode.model", "tu " + " ".join(tok_word(t) for t in toks), impl_out,
              {"group": "tounicode.wild", "tokens": [tok_word(t) for t in toks]})
        ctx.case(("tuw", tuple(tok_word(t) for t in toks)), impl_out not in ("M -",),
                 branch="tuwild:" + (impl_out[:2] + impl_out[2:].split(" ")[0] if impl_out.startswith("E ") else "map"))
    b.flush()


# =========================================================================== widths: get_widths / get_widths2

def wmap_line(d) -> str:
    items = []
    for k, v in d.items():
        kk = F(k)
        if isinstance(v, tuple):      # get_widths2: (w, (vx, vy))
            vs = "|".join(C.frac_str(F(x)) if isinstance(x, (int, float, F)) and not isinstance(x, bool) else "o"
                          for x in (v[0], v[1][0], v[1][1]))
        else:
            vs = C.frac_str(F(v)) if isinstance(v, (int, float, F)) and not isinstance(v, bool) else "o"
        items.append((kk, vs))
    items.sort()
    return "W " + (",".join(C.frac_str(k) + "=" + v for k, v in items) if items else "-")


def went_word(e) -> str:
    if e[0] == "L":
        return "L:%d:" % e[1] + ",".join(num_word(w) for w in e[2])
    return "R:%d:%d:%s" % (e[1], e[2], num_word(e[3]))


def w2ent_word(e) -> str:
    t = lambda x: "|".join(num_word(v) for v in x)  # noqa: E731
    if e[0] == "L":
        return "L:%d:" % e[1] + ",".join(t(x) for x in e[2])
    return "R:%d:%d:%s" % (e[1], e[2], t(e[3]))


def elems_words(elems) -> str:
    return " ".join(welem_word(e) for e in elems) if elems else "-"


def elems_words_norm(elems) -> str:
    """As elems_words, but values inside a list carry no int/float flag (integral values print as ints)."""
    def nw(x):
        return "i%d" % int(x) if F(x).denominator == 1 else "f" + C.frac_str(F(x))
    return " ".join(("l:" + ";".join(nw(x) for x in e)) if isinstance(e, list) else welem_word(e)
                    for e in elems) if elems else "-"


def run_widths(ctx: C.Ctx) -> None:
    from pdfminer import pdffont
    rng = ctx.rng
    b = Batch(ctx)
    for i in range(ctx.n(500, 20000)):
        vertical = i % 3 == 2
        ents = gen_w2_entries(rng) if vertical else gen_w_entries(rng)
        elems = render_w2(ents) if vertical else render_w(ents)
        wild = i % 4 == 3
        if wild:
            elems = mutate_w(rng, elems)
        fn = pdffont.get_widths2 if vertical else pdffont.get_widths
        op = "w2" if vertical else "w"
        got, e = call(lambda: fn(to_pdfminer_w(elems)))
        impl_out = wmap_line(got) if e is None else exc_line(e)
        inp = {"group": "widths", "vertical": vertical, "elems": [welem_word(x) for x in elems]}
        ctx.case((op, tuple(welem_word(x) for x in elems)), e is None and bool(got), sample=inp,
                 branch=f"{op}:" + ("wild" if wild else "grammar") + (":" + exc_line(e)[2:] if e else ""))
        b.tie(op + ".model", f"{op} {elems_words(elems)}", impl_out, inp)
        if not wild:
            words = " ".join((w2ent_word if vertical else went_word)(x) for x in ents) or "-"
            spec = spec_widths2(ents) if vertical else spec_widths(ents)
            spec_out = wmap_line({k: ((v[0], (v[1], v[2])) if vertical else v) for k, v in spec.items()})
            b.twin(op + ".render", f"{op}spec.toks {words}", "T " + elems_words_norm(elems), inp)
            b.twin(op + ".spec", f"{op}spec.map {words}", spec_out, inp)
            for en in ents:
                ctx.branch(op + "ent:" + en[0] + (":cid0" if en[1] == 0 else ""))
            if impl_out != spec_out:
                def bad(sub):
                    g, ee = call(lambda: fn(to_pdfminer_w((render_w2 if vertical else render_w)(sub))))
                    s = spec_widths2(sub) if vertical else spec_widths(sub)
                    return (wmap_line(g) if ee is None else exc_line(ee)) != \
                        wmap_line({k: ((v[0], (v[1], v[2])) if vertical else v) for k, v in s.items()})
                small = C.ddmin(list(ents), bad, 80)
                ctx.fail(C.Failure("get_widths%s differs from the widths the W%s array defines" %
                                   (("2", "2") if vertical else ("", "")),
                                   {"group": "widths", "vertical": vertical,
                                    "entries": [(w2ent_word if vertical else went_word)(x) for x in small]},
                                   spec_out, impl_out, {"group": "widths", "vertical": vertical}))
    b.flush()


# Every composite font built by the fontwidth and doc groups, in order.  A failure of an observable that must depend
# on the font's own dictionaries only is reported together with the fonts built before it, so that the replay
# (which starts in a fresh process) rebuilds the same sequence: state leaking from one font / document into the
# next is reproducible.
HISTORY: List[Dict[str, Any]] = []


def history_covers(h, cid: int) -> bool:
    """Does an earlier font carry an explicit W / W2 entry for this cid?"""
    try:
        if h["kind"] == "fontwidth":
            ents = [parse_w2ent_word(w) if h["vertical"] else parse_went_word(w) for w in h["entries"]]
            return cid in (spec_widths2(ents) if h["vertical"] else spec_widths(ents))
        cfgs = [h["cfg"]] + ([second_cfg(h["cfg"])] if h["cfg"].get("second") else [])
        return any(cid in spec_widths2([norm_w2ent(x) for x in (c.get("w2") or [])]) or
                   cid in spec_widths([norm_went(x) for x in (c.get("w") or [])]) for c in cfgs)
    except Exception:  # noqa: BLE001
        return False


def history_for(cid: Optional[int] = None) -> List[Dict[str, Any]]:
    """The fonts built before the current one that matter for a replay: the most recent ones and, when the failing
    cid is known, the latest earlier fonts that carry an entry for it."""
    recent = HISTORY[-3:]
    older = HISTORY[:-3]
    _HIST_CALLS[0] += 1
    if _HIST_CALLS[0] > 25:          # only the first failures get the (linear) search through the whole history
        return recent
    rel = []
    for h in reversed(older):
        if cid is not None and history_covers(h, cid):
            rel.insert(0, h)
            if len(rel) == 3:
                break
    return rel + recent


_HIST_CALLS = [0]


def history_before(n: int, cid: Optional[int]) -> List[Dict[str, Any]]:
    saved = HISTORY[n:]
    del HISTORY[n:]
    try:
        return history_for(cid)
    finally:
        HISTORY.extend(saved)


def replay_history(items) -> None:
    for h in items or []:
        if h["kind"] == "fontwidth":
            call(lambda: build_wfont(h["vertical"], h["entries"], h["dflt"]))
        else:
            call(lambda: impl_glyphs(doc_pdf(h["cfg"])))


def build_wfont(vertical: bool, entry_words, dflt):
    from pdfminer.pdffont import PDFCIDFont
    from pdfminer.psparser import LIT
    ents = [parse_w2ent_word(w) if vertical else parse_went_word(w) for w in entry_words]
    spec: Dict[str, Any] = {"Type": LIT("Font"), "Subtype": LIT("CIDFontType2"), "BaseFont": LIT("X"),
                            "CIDSystemInfo": {"Registry": b"Adobe", "Ordering": b"Identity", "Supplement": 0},
                            "Encoding": LIT("Identity-V" if vertical else "Identity-H"), "FontDescriptor": {},
                            ("W2" if vertical else "W"): (render_w2 if vertical else render_w)(ents)}
    if dflt is not None:
        spec["DW2" if vertical else "DW"] = dflt
    return PDFCIDFont(None, spec)


def run_fontwidth(ctx: C.Ctx) -> None:
    """PDFCIDFont.char_width / DW / DW2 defaults against the model's glyphWidth / glyphWidthV (tie of the
    regenerated defaults) and against the spec."""
    from pdfminer.pdffont import PDFCIDFont
    from pdfminer.psparser import LIT
    rng = ctx.rng
    lines, meta = [], []
    for i in range(ctx.n(150, 5000)):
        vertical = i % 2 == 1
        ents = gen_w2_entries(rng) if vertical else gen_w_entries(rng)
        elems = render_w2(ents) if vertical else render_w(ents)
        spec: Dict[str, Any] = {"Type": LIT("Font"), "Subtype": LIT("CIDFontType2"), "BaseFont": LIT("X"),
                                "CIDSystemInfo": {"Registry": b"Adobe", "Ordering": b"Identity", "Supplement": 0},
                                "Encoding": LIT("Identity-V" if vertical else "Identity-H"), "FontDescriptor": {}}
        dflt = None
        if vertical:
            spec["W2"] = elems
            if rng.random() < 0.5:
                dflt = [rng.choice([880, 700]), rng.choice([-1000, -800, -500.5])]
                spec["DW2"] = dflt
        else:
            spec["W"] = elems
            if rng.random() < 0.5:
                dflt = rng.choice([1000, 0, 250.5, 600])
                spec["DW"] = dflt
        font, e = call(lambda: PDFCIDFont(None, spec))
        hist_len = len(HISTORY)
        HISTORY.append({"kind": "fontwidth", "vertical": vertical, "has_w2": vertical and bool(ents), "dflt": dflt,
                        "entries": [(w2ent_word if vertical else went_word)(x) for x in ents]})
        if e is not None:
            ctx.fail(C.Failure("PDFCIDFont could not be built from a well-formed W/W2 array",
                               {"group": "fontwidth", "vertical": vertical, "elems": [welem_word(x) for x in elems]},
                               "a font", exc_line(e), {"group": "fontwidth", "exc": type(e).__name__}))
            continue
        sw = spec_widths2(ents) if vertical else spec_widths(ents)
        cids = [en[1] for en in ents] + [en[1] + 1 for en in ents] + [en[2] for en in ents if en[0] == "R"] + \
            [en[2] + 1 for en in ents if en[0] == "R"]
        rng.shuffle(cids)
        cids = [c for c in cids if 0 <= c <= 65535][:5] + [rng.choice(BOUNDARY_CIDS), 65535, rng.randint(0, 400)]
        for cid in cids:
            got = font.char_width(cid) * 1000
            if vertical:
                exp = sw[cid][0] if cid in sw else F(dflt[1] if dflt else -1000)
                dw = "-" if dflt is None else num_word(dflt[0]) + "|" + num_word(dflt[1])
                lines.append(f"gwv {dw} {cid} {elems_words(elems)}")
            else:
                exp = sw.get(cid, F(dflt if dflt is not None else 1000))
                lines.append(f"gw {'-' if dflt is None else num_word(dflt)} {cid} {elems_words(elems)}")
            inp = {"group": "fontwidth", "vertical": vertical, "cid": cid, "dflt": dflt,
                   "entries": [(w2ent_word if vertical else went_word)(x) for x in ents]}
            meta.append((inp, got))
            ctx.case(("fw", vertical, cid, tuple(welem_word(x) for x in elems), str(dflt)), True,
                     branch="fontwidth:" + ("v" if vertical else "h") + (":default" if cid not in sw else ":entry")
                     + (":nodw" if dflt is None else ""))
            if not close(exp, got):
                ctx.fail(C.Failure("CID font: width of a cid differs from W/DW (W2/DW2)", dict(inp, history=history_before(hist_len, cid)),
                                   str(exp), got, {"group": "fontwidth", "vertical": vertical, "default": cid not in sw}))
            # position vector (vertical) / 0 (horizontal): the font's OWN W2 entry, else (None, DW2[0] or 880)
            disp = font.char_disp(cid)
            if vertical:
                dexp = (sw[cid][1], sw[cid][2]) if cid in sw else (None, F(dflt[0] if dflt else 880))
                ok = (isinstance(disp, tuple) and len(disp) == 2 and (disp[0] is None) == (dexp[0] is None)
                      and (dexp[0] is None or close(dexp[0], disp[0])) and close(dexp[1], disp[1]))
                dline = "D " + ("None" if not isinstance(disp, tuple) or disp[0] is None else C.frac_str(F(disp[0]))) + \
                    " " + (C.frac_str(F(disp[1])) if isinstance(disp, tuple) else "?")
                lines.append(f"gdv {dw} {cid} {elems_words(elems)}")
                meta.append((dict(inp, what="disp"), dline))
            else:
                dexp = 0
                ok = disp == 0
            if not ok:
                ctx.fail(C.Failure("CID font: position vector of a cid differs from the font's own W2/DW2",
                                   dict(inp, what="disp", history=history_before(hist_len, cid)), str(dexp), repr(disp),
                                   {"group": "fontwidth", "vertical": vertical, "what": "disp"}))
    if ctx.driver is not None and lines:
        for (inp, got), out in zip(meta, ctx.driver.ask(lines)):
            if isinstance(got, str):
                if out != got:
                    ctx.disagree("fontdisp.model", inp, got, out)
            elif not out.startswith("R ") or not close(F(out[2:]), got):
                ctx.disagree("fontwidth.model", inp, got, out)


def build_cidfont(enc: str, registry: str, ordering: str, tu=None, ttf: Optional[bytes] = None, extra=None):
    """A PDFCIDFont built directly from a font dictionary (no PDF file)."""
    from pdfminer.pdffont import PDFCIDFont
    from pdfminer.pdftypes import PDFStream
    from pdfminer.psparser import LIT
    spec: Dict[str, Any] = {"Type": LIT("Font"), "Subtype": LIT("CIDFontType2"), "BaseFont": LIT("X"),
                            "CIDSystemInfo": {"Registry": registry.encode(), "Ordering": ordering.encode(),
                                              "Supplement": 0},
                            "Encoding": LIT(enc), "FontDescriptor": {}}
    if tu == "stream":
        spec["ToUnicode"] = PDFStream({}, toks_stream(render_sections([("C", [(b"\x00\x01", b"\x00A")])])))
    elif tu is not None:
        spec["ToUnicode"] = LIT(tu)
    if ttf is not None:
        spec["FontDescriptor"] = {"FontFile2": PDFStream({}, ttf)}
    spec.update(extra or {})
    return PDFCIDFont(None, spec)


def describe_umap(font, tu, has_ttf) -> str:
    from pdfminer import cmapdb
    um = font.unicode_map
    if um is None:
        return "S none"
    if isinstance(um, cmapdb.IdentityUnicodeMap):
        return "S identity"
    if isinstance(um, cmapdb.PyUnicodeMap):
        return "S coll:%s:%s" % (um.attrs.get("CMapName"), "V" if um.is_vertical() else "H")
    if isinstance(um, cmapdb.FileUnicodeMap):
        return "S file" if tu == "stream" else "S ttf"
    return "S ?" + type(um).__name__


def run_umapsel(ctx: C.Ctx) -> None:
    """Which CID -> Unicode map PDFCIDFont picks (ToUnicode stream / name, TrueType cmap, collection x WMode):
    implementation vs model (tie) and vs the property (collection map of a vertical CMap is the vertical one)."""
    b = Batch(ctx)
    shipped = {f[len("to-unicode-"):-10] for f in os.listdir(os.path.join(C.REPO, "pdfminer", "cmap"))
               if f.startswith("to-unicode-")}
    ttf = build_ttf([(3, 1, build_cmap_format0({65: 3}))])
    encs = ["Identity-H", "Identity-V", "90ms-RKSJ-V", "90ms-RKSJ-H", "UniGB-UCS2-V", "KSCms-UHC-V", "ETen-B5-V", "H", "V"]
    avail = set(all_cmap_names())
    for enc in encs:
        if enc not in avail and not enc.startswith("Identity"):
            continue
        for ordering in ["Identity", "UCS", "Japan1", "GB1", "CNS1", "Korea1", "Foo"]:
            for tu in [None, "stream", "Identity-H", "Foo"]:
                for has_ttf in (False, True):
                    coding = "Adobe-" + ordering
                    vert = enc.endswith("V")
                    font, e = call(lambda: build_cidfont(enc, "Adobe", ordering, tu, ttf if has_ttf else None))
                    inp = {"group": "umapsel", "enc": enc, "ordering": ordering, "tu": tu, "ttf": has_ttf}
                    out = describe_umap(font, tu, has_ttf) if e is None else exc_line(e)
                    tuw = "-" if tu is None else "s" if tu == "stream" else "n:" + tu.encode().hex()
                    b.tie("umapsel.model", "umapsel %s %s %s %s %d %d %d" % (
                        tuw, ordering.encode().hex(), coding.encode().hex(), enc.encode().hex(), has_ttf, vert,
                        coding in shipped), out, inp)
                    ctx.case(("umapsel", enc, ordering, tu, has_ttf), True, branch="umapsel:" + out.split(":")[0])
                    # the property: without ToUnicode, a CJK collection font reads the collection's table for the
                    # writing mode of its encoding CMap
                    if tu is None and coding in shipped:
                        want = "S coll:%s:%s" % (coding, "V" if vert else "H")
                        if out != want:
                            ctx.fail(C.Failure("CID font does not use the character collection's Unicode table of "
                                               "its CMap's writing mode", inp, want, out,
                                               {"group": "umapsel", "vertical": vert}))
    b.flush()


# =========================================================================== codec: data check of the shipped pickles
# (a TEST, not a theorem): for every character of the repertoire that the platform codec can encode, the predefined
# CMap must split the codec's bytes into exactly one code and the collection's Unicode map must give the character back.

# brackets and punctuation whose glyphs are rotated (different CIDs) under the vertical CMaps
PUNCT = [ord(c) for c in "「」『』（）【】〈〉《》〔〕｛｝、。"]
KANA = list(range(0x3041, 0x3094)) + list(range(0x30A1, 0x30F7))
HANGUL = list(range(0xAC00, 0xD7A4))
UNIHAN = list(range(0x4E00, 0x9FA6))


def _two_byte(codec):
    def f(ch):
        try:
            return len(ch.encode(codec)) == 2
        except UnicodeEncodeError:
            return False
    return f


# (CMap, codec used to ENCODE the string, collection, repertoire classes, membership filter codec)
CODEC_PAIRS = [
    ("EUC-H", "euc_jp", "Adobe-Japan1", "KU", "euc_jp"), ("EUC-V", "euc_jp", "Adobe-Japan1", "KU", "euc_jp"),
    ("RKSJ-H", "shift_jis", "Adobe-Japan1", "KU", "shift_jis"),
    ("90ms-RKSJ-H", "cp932", "Adobe-Japan1", "KU", "cp932"), ("90ms-RKSJ-V", "cp932", "Adobe-Japan1", "KU", "cp932"),
    ("90pv-RKSJ-H", "shift_jis", "Adobe-Japan1", "KU", "shift_jis"),
    ("H", "iso2022_jp", "Adobe-Japan1", "KU", "shift_jis"),
    ("UniJIS-UCS2-H", "utf_16_be", "Adobe-Japan1", "KU", "shift_jis"),
    ("UniJIS-UCS2-V", "utf_16_be", "Adobe-Japan1", "KU", "shift_jis"),
    ("UniJIS-UTF16-H", "utf_16_be", "Adobe-Japan1", "KU", "shift_jis"),
    ("GB-EUC-H", "gb2312", "Adobe-GB1", "KU", "gb2312"), ("GBpc-EUC-H", "gb2312", "Adobe-GB1", "KU", "gb2312"),
    ("GBK-EUC-H", "gbk", "Adobe-GB1", "KU", "gbk"), ("GBK-EUC-V", "gbk", "Adobe-GB1", "KU", "gbk"),
    ("UniGB-UCS2-H", "utf_16_be", "Adobe-GB1", "KU", "gbk"), ("UniGB-UTF16-H", "utf_16_be", "Adobe-GB1", "KU", "gbk"),
    ("B5pc-H", "big5", "Adobe-CNS1", "U", "big5"), ("ETen-B5-H", "big5", "Adobe-CNS1", "U", "big5"),
    ("ETen-B5-V", "big5", "Adobe-CNS1", "U", "big5"),
    ("UniCNS-UCS2-H", "utf_16_be", "Adobe-CNS1", "U", "big5"), ("UniCNS-UTF16-H", "utf_16_be", "Adobe-CNS1", "U", "big5"),
    ("KSC-EUC-H", "euc_kr", "Adobe-Korea1", "KHU", "euc_kr"), ("KSCpc-EUC-H", "euc_kr", "Adobe-Korea1", "KHU", "euc_kr"),
    ("KSCms-UHC-H", "cp949", "Adobe-Korea1", "KHU", "cp949"), ("KSCms-UHC-V", "cp949", "Adobe-Korea1", "KHU", "cp949"),
    ("UniKS-UCS2-H", "utf_16_be", "Adobe-Korea1", "KHU", "cp949"), ("UniKS-UTF16-H", "utf_16_be", "Adobe-Korea1", "KHU", "cp949"),
    ("UniKS-UCS2-V", "utf_16_be", "Adobe-Korea1", "KHU", "cp949"),
    ("UniGB-UCS2-V", "utf_16_be", "Adobe-GB1", "KU", "gbk"), ("UniCNS-UCS2-V", "utf_16_be", "Adobe-CNS1", "U", "big5"),
    ("V", "iso2022_jp", "Adobe-Japan1", "KU", "shift_jis"), ("B5pc-V", "big5", "Adobe-CNS1", "U", "big5"),
]

# Differences that are properties of the character collections, not of pdfminer (each justified):
#  nfkc      - the collection's CID is shared by the unified ideograph and a compatibility character (Kangxi radical /
#              CJK radical supplement / compatibility ideograph); the shipped map names the compatibility one, whose
#              NFKC normalisation is the expected character.
#  explicit  - pairs listed in CODEC_WHITELIST with the reason.
CODEC_WHITELIST: Dict[Tuple[str, int], str] = {
    ("90ms-RKSJ-H", 0x663B): "Adobe's 90ms-RKSJ CMap sends the NEC-selected IBM extension code 0xEDB4 (U+663B) to CID 1993, "
                             "the glyph of the unified JIS X 0208 character U+6602; the collection has one Unicode per CID",
    ("90ms-RKSJ-V", 0x663B): "same as 90ms-RKSJ-H",
}
# cp932 vendor-extension characters whose legacy CIDs (8404, 8436, 8476, 8494, 8561, 8592, 8696) have no entry in the
# shipped to-unicode-Adobe-Japan1 pickle: always part of the sample so the open finding is reported deterministically
CODEC_HOT = {"90ms-RKSJ-H": [0x5307, 0x5BEC, 0x661E, 0x663B, 0x6801, 0x7462, 0x7D5C, 0x9755, 0x4E28, 0x9751],
             "90ms-RKSJ-V": [0x5307, 0x5BEC, 0x661E, 0x663B, 0x6801, 0x7462, 0x7D5C, 0x9755]}
JAPAN1_NO_UNICODE = {0x5307, 0x5BEC, 0x661E, 0x6801, 0x7462, 0x7D5C, 0x9755}


def encode_for(cmap_name: str, codec: str, ch: str) -> Optional[bytes]:
    try:
        if codec == "iso2022_jp":          # the 'H' CMap is raw JIS X 0208 row/cell = EUC-JP with the high bits cleared
            e = ch.encode("euc_jp")
            return bytes(x & 0x7F for x in e) if len(e) == 2 else None
        return ch.encode(codec)
    except UnicodeEncodeError:
        return None


def codec_case(name: str, codec: str, coll: str, cp: int, font=None):
    """Returns None when fine / whitelisted, else (expected, got)."""
    from pdfminer.cmapdb import CMapDB
    ch = chr(cp)
    data = encode_for(name, codec, ch)
    if data is None:
        return "skip"
    if font is not None:
        # through the font object: PDFCIDFont picks the CMap and the collection table itself
        from pdfminer.pdffont import PDFUnicodeNotDefined
        cids = list(font.decode(data))
        if len(cids) != 1:
            return (ch, "cids=%r" % (cids,))
        try:
            t = font.to_unichr(cids[0])
        except PDFUnicodeNotDefined:
            return (ch, "cid %d has no Unicode" % cids[0])
    else:
        cm = CMapDB.get_cmap(name)
        cids = list(cm.decode(data))
        if len(cids) != 1:
            return (ch, "cids=%r" % (cids,))
        um = CMapDB.get_unicode_map(coll, cm.is_vertical())
        try:
            t = um.get_unichr(cids[0])
        except KeyError:
            return (ch, "cid %d has no Unicode" % cids[0])
    if t == ch:
        return None
    if unicodedata.normalize("NFKC", t) == ch:
        return "nfkc"
    if (name, cp) in CODEC_WHITELIST or (coll, cp) in CODEC_WHITELIST:
        return "whitelist"
    return (ch, t)


def repertoire(classes: str, member_codec: str) -> List[int]:
    cps: List[int] = []
    cps += PUNCT
    if "K" in classes:
        cps += KANA
    if "H" in classes:
        cps += HANGUL
    if "U" in classes:
        cps += UNIHAN
    ok = _two_byte(member_codec)
    return [c for c in cps if ok(chr(c))]


_REP: Dict[Tuple[str, str], List[int]] = {}


def run_codec(ctx: C.Ctx) -> None:
    rng = ctx.rng
    avail = set(all_cmap_names())
    stats: Dict[str, Any] = {}
    for name, codec, coll, classes, member in CODEC_PAIRS:
        if name not in avail or not ctx.time_left():
            continue
        rep = _REP.setdefault((classes, member), repertoire(classes, member))
        sample = rep if ctx.tier == "thorough" else rng.sample(rep, min(len(rep), ctx.n(150, 0)))
        if ctx.tier != "thorough":
            sample = sample + [c for c in CODEC_HOT.get(name, []) if c not in sample]
        bad = []
        cnt = {"ok": 0, "nfkc": 0, "whitelist": 0, "skip": 0}
        font = build_cidfont(name, "Adobe", coll[len("Adobe-"):])
        if ctx.tier != "thorough":
            sample = sample + [c for c in PUNCT if c in rep and c not in sample]
        for k, cp in enumerate(sample):
            via = k % 2 == 0 or cp in PUNCT
            r = codec_case(name, codec, coll, cp, font if via else None)
            if r is None:
                cnt["ok"] += 1
            elif isinstance(r, str):
                cnt[r] += 1
            else:
                bad.append((cp, r, via))
        ctx.evaluations += len(sample)
        ctx.branch("codec:" + name, len(sample))
        ctx._distinct.add(("codec", name).__hash__().to_bytes(8, "big", signed=True))
        stats[name] = dict(cnt, checked=len(sample), bad=len(bad))
        for cp, (exp, got), via in bad[:12]:
            ctx.fail(C.Failure("predefined CJK CMap / collection map disagrees with the platform codec (data check)",
                               {"group": "codec", "cmap": name, "codec": codec, "collection": coll, "cp": cp,
                                "via_font": via},
                               exp, got, {"group": "codec", "cmap": name, "cp": cp, "collection": coll,
                                          "no_unicode": "has no Unicode" in got}))
    ctx.extra["codec_data_check"] = {"kind": "test (not a theorem)", "exhaustive": ctx.tier == "thorough", "pairs": stats}


# =========================================================================== ttf: embedded TrueType cmap

def build_cmap_format0(mapping: Dict[int, int]) -> bytes:
    return struct.pack(">HHH", 0, 262, 0) + bytes(mapping.get(c, 0) & 0xFF for c in range(256))


def build_cmap_format4(mapping: Dict[int, int], rng) -> bytes:
    """Segments of consecutive characters; each segment uses idDelta or a glyph-id array (idRangeOffset).
    Runs separated by a small gap may be merged into one array segment whose holes are glyph 0 (missing)."""
    chars = sorted(c for c in mapping if c < 0xFFFF)
    runs: List[List[int]] = []
    for c in chars:
        if runs and c == runs[-1][-1] + 1 and len(runs[-1]) < 12:
            runs[-1].append(c)
        else:
            runs.append([c])
    segs: List[Tuple[int, int, bool]] = []      # (start, end, force_array)
    for run in runs:
        if segs and run[0] - segs[-1][1] <= 3 and rng.random() < 0.5:
            segs[-1] = (segs[-1][0], run[-1], True)
        else:
            segs.append((run[0], run[-1], False))
    segcount = len(segs) + 1
    ends, starts, deltas, offsets = [], [], [], []
    glyph_array: List[int] = []
    for (st, en, force) in segs:
        gids = [mapping.get(c) for c in range(st, en + 1)]
        consecutive = not force and all(g == gids[0] + i for i, g in enumerate(gids))
        starts.append(st)
        ends.append(en)
        if consecutive and rng.random() < 0.6:
            deltas.append((gids[0] - st) & 0xFFFF)
            offsets.append(None)
        else:
            present = [g for g in gids if g is not None]
            # idDelta values incl. ones for which (array value + idDelta) leaves 16 bits and must wrap around:
            # a positive delta above the smallest glyph id, and a negative one (two's complement)
            d = rng.choice([0, 0, 3, 0xFFF0, (min(present) + 1 + rng.randint(0, 20)) & 0x7FFF,
                            (max(present) + 1) & 0x7FFF, 0x8000 + rng.randint(0, 0x7FF0)])
            if any(g is not None and (g - d) & 0xFFFF == 0 for g in gids):
                d = 0
            deltas.append(d)
            offsets.append(len(glyph_array))
            glyph_array += [0 if g is None else (g - d) & 0xFFFF for g in gids]
    starts.append(0xFFFF)
    ends.append(0xFFFF)
    deltas.append(1)
    offsets.append(None)
    idrs = [0 if off is None else 2 * (segcount - i) + 2 * off for i, off in enumerate(offsets)]
    body = struct.pack(">HHHH", segcount * 2, 0, 0, 0)
    body += struct.pack(">%dH" % segcount, *ends) + b"\0\0" + struct.pack(">%dH" % segcount, *starts)
    body += struct.pack(">%dH" % segcount, *deltas) + struct.pack(">%dH" % segcount, *idrs)
    body += struct.pack(">%dH" % len(glyph_array), *glyph_array) if glyph_array else b""
    return struct.pack(">HHH", 4, 6 + len(body), 0) + body


def build_cmap_format2(mapping: Dict[int, int], rng) -> bytes:
    """High-byte mapping through table: single bytes use subheader 0, each lead byte gets its own subheader."""
    singles = {c: g for c, g in mapping.items() if c < 256}
    leads = sorted({c >> 8 for c in mapping if c >= 256})
    keys = [0] * 256
    for i, hb in enumerate(leads):
        keys[hb] = 8 * (i + 1)
    nhdr = len(leads) + 1
    subs = []      # (firstCode, entryCount, idDelta, glyphs)
    lo = [c for c in singles if keys[c] == 0]
    if lo:
        f, l = min(lo), max(lo)
        subs.append((f, l - f + 1, 0, [singles.get(c, 0) if keys[c] == 0 else 0 for c in range(f, l + 1)]))
    else:
        subs.append((0, 0, 0, []))
    for hb in leads:
        lows = sorted(c & 0xFF for c in mapping if c >> 8 == hb)
        f, l = lows[0], lows[-1]
        d = rng.choice([0, 0, 5, -3])
        subs.append((f, l - f + 1, d, [((mapping[(hb << 8) | x] - d) & 0xFFFF) if ((hb << 8) | x) in mapping else 0
                                        for x in range(f, l + 1)]))
    hdr_bytes = b""
    arr = b""
    arr_off = 0
    for i, (f, n, d, gl) in enumerate(subs):
        # idRangeOffset is relative to its own position: remaining headers after this field + array offset
        pos_of_field = i * 8 + 6
        start_of_arrays = nhdr * 8
        iro = start_of_arrays + arr_off - pos_of_field
        hdr_bytes += struct.pack(">HHhH", f, n, d, iro)
        arr += struct.pack(">%dH" % len(gl), *gl) if gl else b""
        arr_off += 2 * len(gl)
    body = struct.pack(">256H", *keys) + hdr_bytes + arr
    return struct.pack(">HHH", 2, 6 + len(body), 0) + body


def build_ttf(subtables: List[Tuple[int, int, bytes]]) -> bytes:
    """A font file that has only a `cmap` table (all that TrueTypeFont reads)."""
    n = len(subtables)
    recs = b""
    data = b""
    off = 4 + 8 * n
    for pid, eid, st in subtables:
        recs += struct.pack(">HHL", pid, eid, off + len(data))
        data += st
    cmap = struct.pack(">HH", 0, n) + recs + data
    base = 12 + 16
    return b"\x00\x01\x00\x00" + struct.pack(">HHHH", 1, 16, 0, 0) + struct.pack(">4sLLL", b"cmap", 0, base, len(cmap)) + cmap


def gen_ttf(rng):
    """Returns (config, bytes, gid -> set of chars)."""
    fmt = rng.choice([0, 4, 4, 4, 2])
    mapping: Dict[int, int] = {}
    if fmt == 0:
        for c in rng.sample(range(32, 256), rng.randint(3, 40)):
            mapping[c] = rng.randint(1, 255)
    elif fmt == 4:
        for _ in range(rng.randint(1, 6)):
            c0 = rng.choice([0x20, 0x41, 0x3042, 0x4E00, 0xFF00, rng.randint(0x20, 0xFFF0)])
            g0 = rng.randint(1, 3000)
            run = rng.randint(1, 10)
            shuffle = rng.random() < 0.4
            holes = rng.random() < 0.3
            for i in range(run):
                if holes and 0 < i < run - 1 and rng.random() < 0.3:
                    continue                      # unmapped character inside a run -> glyph 0 in an array segment
                if c0 + i < 0xFFFF and (c0 + i) not in mapping:
                    mapping[c0 + i] = (g0 + (rng.randint(0, 40) if shuffle else i))
    else:
        for c in rng.sample(range(0x20, 0x7F), rng.randint(1, 10)):
            mapping[c] = rng.randint(1, 200)
        for hb in rng.sample(range(0x81, 0xA0), rng.randint(1, 3)):
            for lb in rng.sample(range(0x40, 0xFD), rng.randint(1, 8)):
                mapping[(hb << 8) | lb] = rng.randint(201, 3000)
    return {"fmt": fmt, "mapping": sorted(mapping.items()), "decoy": rng.random() < 0.5,
            "pid": rng.choice([(0, 3), (3, 1), (3, 10)]), "seed": rng.randrange(1 << 30)}


def ttf_bytes(cfg) -> bytes:
    import random
    r = random.Random(cfg["seed"])
    mapping = dict((int(a), int(b)) for a, b in cfg["mapping"])
    st = {0: lambda: build_cmap_format0(mapping), 4: lambda: build_cmap_format4(mapping, r),
          2: lambda: build_cmap_format2(mapping, r)}[cfg["fmt"]]()
    subs = []
    if cfg["decoy"]:   # a Macintosh subtable with different content must be ignored
        subs.append((1, 0, build_cmap_format0({c: 7 for c in range(32, 127)})))
    subs.append((cfg["pid"][0], cfg["pid"][1], st))
    return build_ttf(subs)


def ttf_preimages(cfg) -> Dict[int, set]:
    pre: Dict[int, set] = {}
    for c, g in cfg["mapping"]:
        g = int(g) & (0xFF if cfg["fmt"] == 0 else 0xFFFF)
        pre.setdefault(g, set()).add(int(c))
    return pre


def impl_ttf_line(data: bytes) -> str:
    from pdfminer.pdffont import TrueTypeFont
    um, e = call(lambda: TrueTypeFont("F", io.BytesIO(data)).create_unicode_map())
    if e is not None:
        return exc_line(e)
    return map_line({k: [ord(ch) for ch in v] for k, v in um.cid2unichr.items()})


def run_ttf(ctx: C.Ctx) -> None:
    rng = ctx.rng
    b = Batch(ctx)
    for i in range(ctx.n(150, 5000)):
        cfg = gen_ttf(rng)
        check_ttf(ctx, cfg)
        data = ttf_bytes(cfg)
        b.tie("ttf.model", "ttf " + data.hex(), impl_ttf_line(data), {"group": "ttf", "ttf": cfg})
        # damaged files: truncation, flipped bytes, unknown format (tie only; error kinds must agree)
        for _ in range(2):
            d = bytearray(data)
            r = rng.random()
            if r < 0.4:
                d = d[:rng.randint(0, len(d))]
            elif r < 0.8:
                for _ in range(rng.randint(1, 3)):
                    d[rng.randrange(len(d))] = rng.choice([0, 1, 2, 4, 6, 0xFF, rng.randrange(256)])
            else:
                d += bytes(rng.randrange(256) for _ in range(rng.randint(1, 8)))
            d = bytes(d)
            import time as _t
            t0 = _t.time()
            out = impl_ttf_line(d)
            if _t.time() - t0 > 0.03 or len(out) > 40000:
                # a damaged segment spanning tens of thousands of characters: the list-based model is quadratic
                # there, so such files are left to the implementation-only checks
                ctx.branch("ttfwild:skipped-large")
                continue
            b.tie("ttf.model", "ttf " + C.hx(d), out, {"group": "ttf.wild", "data": d.hex()})
            ctx.case(("ttfw", d), not out.startswith("E "),
                     branch="ttfwild:" + (out.split(" ")[1] if out.startswith("E ") else "map"))
    b.flush()


def check_ttf(ctx: C.Ctx, cfg) -> None:
    from pdfminer.pdffont import TrueTypeFont
    data = ttf_bytes(cfg)
    um, e = call(lambda: TrueTypeFont("F", io.BytesIO(data)).create_unicode_map())
    inp = {"group": "ttf", "ttf": cfg}
    ctx.case(("ttf", json.dumps(cfg, sort_keys=True)), True, branch="ttf:fmt%d" % cfg["fmt"],
             sample={"group": "ttf", "fmt": cfg["fmt"], "n": len(cfg["mapping"])})
    if e is not None:
        ctx.fail(C.Failure("TrueTypeFont.create_unicode_map raised on a well-formed cmap table", inp, "a map",
                           exc_line(e), {"group": "ttf", "fmt": cfg["fmt"], "exc": type(e).__name__}))
        return
    pre = ttf_preimages(cfg)
    for g, chars in sorted(pre.items()):
        if g == 0:
            continue
        got = um.cid2unichr.get(g)
        if got is None or len(got) != 1 or ord(got) not in chars:
            ctx.fail(C.Failure("embedded TrueType cmap: glyph id does not map back to a character that selects it",
                               inp, sorted(chars), repr(got), {"group": "ttf", "fmt": cfg["fmt"], "gid": g}))
            return
    extra = [g for g in um.cid2unichr if g not in pre and g != 0]
    # the final 0xFFFF segment of format 4 (idDelta 1) maps U+FFFF to glyph 0 only
    if extra:
        ctx.fail(C.Failure("embedded TrueType cmap: map contains glyph ids no character selects", inp, [],
                           extra[:5], {"group": "ttf", "fmt": cfg["fmt"], "extra": True}))


# =========================================================================== doc: PDFs with generated Type0 fonts

CJK_DOC = [("90ms-RKSJ-H", "cp932", "Japan1"), ("EUC-H", "euc_jp", "Japan1"), ("UniJIS-UCS2-H", "utf_16_be", "Japan1"),
           ("UniJIS-UCS2-V", "utf_16_be", "Japan1"), ("GBK-EUC-H", "gbk", "GB1"), ("B5pc-H", "big5", "CNS1"),
           ("KSCms-UHC-H", "cp949", "Korea1"), ("UniKS-UCS2-V", "utf_16_be", "Korea1"), ("UniGB-UCS2-H", "utf_16_be", "GB1"),
           ("90ms-RKSJ-V", "cp932", "Japan1"), ("EUC-V", "euc_jp", "Japan1"), ("GBK-EUC-V", "gbk", "GB1"),
           ("ETen-B5-V", "big5", "CNS1"), ("KSCms-UHC-V", "cp949", "Korea1"), ("UniGB-UCS2-V", "utf_16_be", "GB1"),
           ("UniCNS-UCS2-V", "utf_16_be", "CNS1")]
# brackets / punctuation have rotated glyphs (other CIDs) under the -V CMaps: their text must come from the
# VERTICAL CID -> Unicode table of the collection
CJK_CHARS = {"Japan1": "あいアカ漢字日本語一「」（）、。ー『』", "GB1": "中文汉字一丁七「」（）、。【】",
             "CNS1": "中文漢字一丁七「」（）『』【】", "Korea1": "한글가각漢字一「」（）、。【】"}


def gen_doc(rng) -> Dict[str, Any]:
    r = rng.random()
    cfg: Dict[str, Any] = {"enc_kind": "name", "ttf": None, "tu": None, "codec": None}
    if r < 0.55:
        cfg["enc"] = rng.choice(IDENT2)
        width = 2
    elif r < 0.7:
        cfg["enc"] = rng.choice(IDENT1)
        width = 1
    else:
        cfg["enc"], cfg["codec"], ordering = rng.choice(CJK_DOC)
        width = 0
    if width and rng.random() < 0.15:
        cfg["enc_kind"] = "stream"
    vertical = cfg["enc"].endswith("V")
    if width:
        cfg["ros"] = ["Adobe", rng.choice(["Identity", "Identity", "UCS", "Japan1"])]
        t = rng.random()
        if t < 0.55:
            cfg["tu"] = {"sections": [sec_word(s) for s in gen_sections(rng, widths=(width,), nsec=rng.randint(1, 3))]}
        elif t < 0.65:
            cfg["tu"] = {"name": "Identity-H"}
        elif t < 0.85 and cfg["ros"][1] in ("Identity", "UCS") and width == 2:
            cfg["ttf"] = gen_ttf(rng)
    else:
        cfg["ros"] = ["Adobe", ordering]
        if rng.random() < 0.3:
            # a ToUnicode CMap whose sources are the CODES of the encoding CMap (ISO 32000 9.10.3)
            chars = rng.sample(CJK_CHARS[ordering], 3)
            cfg["tu"] = {"sections": [sec_word(("C", [(ch.encode(cfg["codec"]), (ch + "*").encode("utf-16-be"))
                                                       for ch in chars]))]}
    # text state in effect while the strings are shown (ISO 32000-1 9.3): character spacing Tc, word spacing Tw,
    # horizontal scaling Tz, rise Ts.  Word spacing concerns the SINGLE-BYTE code 32 only (9.3.3): never a code of two or
    # more bytes, whatever its CID.
    cfg["ts"] = None
    if rng.random() < 0.5:
        cfg["ts"] = {"tc": rng.choice([0, 0, 0.5, -0.25, 2]), "tw": rng.choice([0, 3, 3, -1.5, 10, 0.75]),
                     "tz": rng.choice([100, 100, 50, 150, 80]), "rise": rng.choice([0, 0, 3, -2.5])}
    cfg["fs"] = rng.choice([1, 10, 12, 8.5, 24])
    cfg["tm"] = rng.choice([[1, 0, 0, 1, 100, 700], [2, 0, 0, 2, 50, 300], [0, 1, -1, 0, 300, 100],
                            [1, 0, 0.5, 1, 72, 72], [0.5, 0, 0, -1.5, 10, 500]])
    if vertical:
        cfg["w2"] = [list(e) for e in gen_w2_entries(rng)] if rng.random() < 0.8 else None
        cfg["dw2"] = [rng.choice([880, 800, 1000]), rng.choice([-1000, -900, -500])] if rng.random() < 0.5 else None
        cfg["w"] = [list(e) for e in gen_w_entries(rng)] if rng.random() < 0.3 else None
        cfg["dw"] = None
    else:
        cfg["w"] = [list(e) for e in gen_w_entries(rng)] if rng.random() < 0.8 else None
        cfg["dw"] = rng.choice([1000, 500, 0, 750.5]) if rng.random() < 0.5 else None
        cfg["w2"] = None
        cfg["dw2"] = None
    # strings
    hot: List[int] = []
    for e in (cfg["w"] or []) + (cfg["w2"] or []):
        hot += [e[1], e[1] + 1] + ([e[2], e[2] + 1, e[2] - 1] if e[0] == "R" else [e[1] + len(e[2]) - 1, e[1] + len(e[2])])
    hot = [h for h in hot if 0 <= h <= 65535] + BOUNDARY_CIDS
    if cfg["ts"]:
        hot += [32, 32, 32, 0x2000, 0x2020]         # CID 32 = code <0020> / <20>; byte 0x20 inside other two-byte codes
    if cfg["tu"] and "sections" in cfg["tu"] and width:
        m, _ = spec_tounicode([parse_sec_word(w) for w in cfg["tu"]["sections"]])
        hot += list(m)[:20]
    if cfg["ttf"]:
        hot += [g for _, g in cfg["ttf"]["mapping"]][:20]
    shows = []
    for _ in range(rng.randint(1, 3)):
        items: List[Any] = []
        for _ in range(rng.choice([1, 1, 2, 3])):
            if width:
                n = rng.randint(0, 5)
                codes = [(rng.choice(hot) if hot and rng.random() < 0.7 else rng.randrange(256 ** width)) % (256 ** width)
                         for _ in range(n)]
                s = b"".join(c.to_bytes(width, "big") for c in codes)
                if width == 2 and rng.random() < 0.12:
                    s += bytes([rng.randrange(256)])          # odd length: trailing byte
            else:
                ordering = cfg["ros"][1]
                txt = "".join(rng.choice(CJK_CHARS[ordering] + "Ab 1" + ("? ? " if cfg["ts"] else ""))   # `?` is CID 32 of the CJK collections
                              for _ in range(rng.randint(0, 5)))
                s = txt.encode(cfg["codec"])
                if rng.random() < 0.1 and cfg["codec"] != "utf_16_be":
                    lead = "一".encode(cfg["codec"])[:1]
                    s += lead                                  # partial code at the end of the string
            items.append(s.hex())
            if rng.random() < 0.3:
                items.append(rng.choice([-120, 250, 1000, -33.5]))
        shows.append(items)
    cfg["shows"] = shows
    # every value the property names may be written directly or as an indirect object (`/Encoding 8 0 R`)
    cfg["indirect"] = sorted(k for k in INDIRECTABLE if rng.random() < 0.25)
    # a second Type0 font over the SAME descendant CIDFont object, with another Encoding / ToUnicode
    # (subset re-encodings, -H / -V variants of one CIDFont)
    cfg["second"] = None
    if rng.random() < 0.35:
        sec: Dict[str, Any] = {"enc_kind": "name", "tu": None}
        if width:
            pool = IDENT2 if width == 2 else IDENT1
            sec["enc"] = rng.choice(pool)
            t = rng.random()
            if t < 0.6:
                sec["tu"] = {"sections": [sec_word(s) for s in gen_sections(rng, widths=(width,), nsec=rng.randint(1, 2))]}
            elif t < 0.75:
                sec["tu"] = {"name": "Identity-H"}
        else:
            other = cfg["enc"][:-1] + ("V" if cfg["enc"].endswith("H") else "H")
            sec["enc"] = other if other in set(all_cmap_names()) else cfg["enc"]
        if sec["enc"].endswith("V") and cfg.get("w2") is None and rng.random() < 0.7:
            cfg["w2"] = [list(e) for e in gen_w2_entries(rng)]
        if not sec["enc"].endswith("V") and cfg.get("w") is None and rng.random() < 0.7:
            cfg["w"] = [list(e) for e in gen_w_entries(rng)]
        if rng.random() < 0.5:
            # ... or a second, independent composite font: its own descendant with its own W/DW/W2/DW2
            sec["own"] = {"w": [list(e) for e in gen_w_entries(rng)] if rng.random() < 0.6 else None,
                          "dw": rng.choice([1000, 500, 750.5]) if rng.random() < 0.4 else None,
                          "w2": [list(e) for e in gen_w2_entries(rng)] if rng.random() < 0.5 else None,
                          "dw2": [rng.choice([880, 800]), rng.choice([-1000, -900])] if rng.random() < 0.4 else None}
        sec["shows"] = [list(items) for items in shows[:2]]       # the same strings, now shown in the second font
        sec["order"] = rng.choice(["after", "before"])
        if sec.get("own") or not (sec["enc"] == cfg["enc"] and sec["tu"] == cfg["tu"]):
            cfg["second"] = sec
    return cfg


def second_cfg(cfg):
    """The configuration of the second font as a stand-alone document configuration."""
    sec = cfg["second"]
    out = dict(cfg, enc=sec["enc"], enc_kind=sec["enc_kind"], tu=sec["tu"], shows=sec["shows"], second=None)
    if sec.get("own"):
        out.update(sec["own"])
    return out


INDIRECTABLE = ["Encoding", "ToUnicode", "DescendantFonts", "W", "DW", "W2", "DW2", "CIDSystemInfo", "Registry",
                "Ordering", "Supplement", "Encoding2", "ToUnicode2", "CMapName"]


def norm_went(e):
    return ("L", e[1], list(e[2])) if e[0] == "L" else ("R", e[1], e[2], e[3])


def norm_w2ent(e):
    return ("L", e[1], [tuple(t) for t in e[2]]) if e[0] == "L" else ("R", e[1], e[2], tuple(e[3]))


def doc_pdf(cfg) -> bytes:
    from harness.pdfwriter import HexStr, Raw, Ref, Stream, simple_doc
    csi = {"Registry": cfg["ros"][0].encode(), "Ordering": cfg["ros"][1].encode(), "Supplement": 0}
    cid: Dict[str, Any] = {"Type": "Font", "Subtype": "CIDFontType2", "BaseFont": "VerifFont", "CIDSystemInfo": csi,
                           "FontDescriptor": Ref(8)}
    if cfg.get("w") is not None:
        cid["W"] = render_w([norm_went(e) for e in cfg["w"]])
    if cfg.get("dw") is not None:
        cid["DW"] = cfg["dw"]
    if cfg.get("w2") is not None:
        cid["W2"] = render_w2([norm_w2ent(e) for e in cfg["w2"]])
    if cfg.get("dw2") is not None:
        cid["DW2"] = cfg["dw2"]
    desc: Dict[str, Any] = {"Type": "FontDescriptor", "FontName": "VerifFont", "Flags": 4, "FontBBox": [0, -200, 1000, 800],
                            "Ascent": 800, "Descent": -200}
    extra: Dict[int, Any] = {5: cid, 8: desc}
    t0: Dict[str, Any] = {"Type": "Font", "Subtype": "Type0", "BaseFont": "VerifFont", "DescendantFonts": [Ref(5)]}
    if cfg["enc_kind"] == "stream":
        t0["Encoding"] = Ref(7)
        extra[7] = Stream({"Type": "CMap", "CMapName": cfg["enc"]}, b"")
    else:
        t0["Encoding"] = cfg["enc"]
    if cfg.get("tu"):
        if "name" in cfg["tu"]:
            t0["ToUnicode"] = cfg["tu"]["name"]
        else:
            t0["ToUnicode"] = Ref(6)
            extra[6] = Stream({}, toks_stream(render_sections([parse_sec_word(w) for w in cfg["tu"]["sections"]])))
    if cfg.get("ttf"):
        desc["FontFile2"] = Ref(9)
        extra[9] = Stream({}, ttf_bytes(cfg["ttf"]))
        cid["CIDToGIDMap"] = "Identity"
    # optional indirection of the values the property names
    ind = set(cfg.get("indirect") or [])
    nxt = [30]

    def maybe(key: str, holder: Dict[str, Any], field: Optional[str] = None) -> None:
        field = field or key
        if key in ind and field in holder and not isinstance(holder[field], Ref):
            extra[nxt[0]] = holder[field]
            holder[field] = Ref(nxt[0])
            nxt[0] += 1

    for k in ("Registry", "Ordering", "Supplement"):
        maybe(k, csi)
    for k in ("CIDSystemInfo", "W", "DW", "W2", "DW2"):
        maybe(k, cid)
    for k in ("Encoding", "ToUnicode", "DescendantFonts"):
        maybe(k, t0)
    if 7 in extra:
        maybe("CMapName", extra[7].d)
    extra[4] = t0
    fonts = {"F1": Ref(4)}
    from harness.pdfwriter import ser

    def block(name: bytes, shows) -> bytes:
        c = b"BT /" + name + b" " + ser(cfg["fs"]) + b" Tf " + b" ".join(ser(x) for x in cfg["tm"]) + b" Tm\n"
        ts = cfg.get("ts")
        if ts:
            c += ser(ts["tc"]) + b" Tc " + ser(ts["tw"]) + b" Tw " + ser(ts["tz"]) + b" Tz " + ser(ts["rise"]) + b" Ts\n"
        for items in shows:
            if len(items) == 1 and isinstance(items[0], str):
                c += b"<" + items[0].encode() + b"> Tj\n"
            else:
                c += b"[" + b" ".join((b"<" + it.encode() + b">") if isinstance(it, str) else ser(it)
                                      for it in items) + b"] TJ\n"
        return c + b"ET\n"

    content = block(b"F1", cfg["shows"])
    sec = cfg.get("second")
    if sec:
        t2: Dict[str, Any] = {"Type": "Font", "Subtype": "Type0", "BaseFont": "VerifFont", "DescendantFonts": [Ref(5)]}
        if sec.get("own"):
            cid2 = {k: v for k, v in cid.items() if k not in ("W", "DW", "W2", "DW2")}
            own = sec["own"]
            if own.get("w") is not None:
                cid2["W"] = render_w([norm_went(e) for e in own["w"]])
            if own.get("dw") is not None:
                cid2["DW"] = own["dw"]
            if own.get("w2") is not None:
                cid2["W2"] = render_w2([norm_w2ent(e) for e in own["w2"]])
            if own.get("dw2") is not None:
                cid2["DW2"] = own["dw2"]
            extra[15] = cid2
            t2["DescendantFonts"] = [Ref(15)]
        t2["Encoding"] = sec["enc"]
        if sec.get("tu"):
            if "name" in sec["tu"]:
                t2["ToUnicode"] = sec["tu"]["name"]
            else:
                t2["ToUnicode"] = Ref(16)
                extra[16] = Stream({}, toks_stream(render_sections([parse_sec_word(w) for w in sec["tu"]["sections"]])))
        maybe("Encoding2", t2, "Encoding")
        maybe("ToUnicode2", t2, "ToUnicode")
        extra[14] = t2
        fonts["F2"] = Ref(14)
        b2 = block(b"F2", sec["shows"])
        content = content + b2 if sec.get("order", "after") == "after" else b2 + content
    return simple_doc(content, resources={"Font": fonts}, extra_objs=extra)


def impl_glyphs(pdf: bytes):
    from pdfminer.converter import PDFPageAggregator
    from pdfminer.layout import LTChar
    from pdfminer.pdfdocument import PDFDocument
    from pdfminer.pdfinterp import PDFPageInterpreter, PDFResourceManager
    from pdfminer.pdfpage import PDFPage
    from pdfminer.pdfparser import PDFParser
    doc = PDFDocument(PDFParser(io.BytesIO(pdf)))
    rm = PDFResourceManager()         # font caching on, as every caller of the high-level API gets it
    dev = PDFPageAggregator(rm, laparams=None)
    it = PDFPageInterpreter(rm, dev)
    out = []
    for page in PDFPage.create_pages(doc):
        it.process_page(page)
        for o in dev.get_result():
            if isinstance(o, LTChar):
                out.append((o.get_text(), o.adv, tuple(o.matrix), tuple(o.bbox)))
    return out


def segment_codes(cfg, data: bytes) -> Optional[List[Tuple[int, int]]]:
    """(code value, cid) pairs the encoding CMap prescribes."""
    enc = cfg["enc"]
    if enc in IDENT2 or enc in IDENT1:
        w = 2 if enc in IDENT2 else 1
        return [(c, c) for c in spec_identity(w, data)]
    tab, maxlen = flat_table(enc)
    out = []
    i = 0
    while i < len(data):
        for L in range(1, maxlen + 1):
            c = data[i:i + L]
            if len(c) == L and c in tab:
                out.append((int.from_bytes(c, "big"), tab[c]))
                i += L
                break
        else:
            rest = data[i:]
            if any(k.startswith(rest) and len(k) > len(rest) for k in tab):
                return out
            return None
    return out


def doc_expect(cfg, sb_tw: bool = False):
    """Expected glyphs of the whole document (first font's block and, if present, the second font's).
    sb_tw: word spacing is applied to the single-byte code 32 of a composite font (ISO 32000-1 9.3.3 says so for a
    CMap that defines 32 as a single-byte code; pdfminer never does for a composite font - both are accepted, the
    arithmetic of simple fonts is C05's).  A code of two or more bytes NEVER receives word spacing."""
    first = doc_expect_one(cfg, sb_tw)
    if first is None or not cfg.get("second"):
        return first
    second = doc_expect_one(second_cfg(cfg), sb_tw)
    if second is None:
        return None
    return first + second if cfg["second"].get("order", "after") == "after" else second + first


def single_byte_32(cfg) -> bool:
    """Does some shown string of the document contain the single-byte code 32 (while word spacing is non-zero)?"""
    def one(c):
        if not (c.get("ts") and c["ts"]["tw"]):
            return False
        for items in c["shows"]:
            for it in items:
                if isinstance(it, str):
                    segs = segment_codes(c, bytes.fromhex(it))
                    if segs and any(code == 32 and code_len(c, code) == 1 for code, _ in segs):
                        return True
        return False
    return one(cfg) or bool(cfg.get("second") and one(second_cfg(cfg)))


def code_len(cfg, code: int) -> int:
    """Byte length of a code of the encoding CMap with this value (the shortest, when several lengths exist)."""
    enc = cfg["enc"]
    if enc in IDENT2:
        return 2
    if enc in IDENT1:
        return 1
    tab, maxlen = flat_table(enc)
    for L in range(1, maxlen + 1):
        if code < 256 ** L and code.to_bytes(L, "big") in tab:
            return L
    return maxlen


def doc_expect_one(cfg, sb_tw: bool = False):
    """Expected glyphs: list of (acceptable texts (set) , adv, e, f); None outside the spec's domain."""
    vertical = cfg["enc"].endswith("V")
    fs = F(cfg["fs"])
    ts = cfg.get("ts") or {"tc": 0, "tw": 0, "tz": 100, "rise": 0}
    tc, tw, th, rise = F(ts["tc"]), F(ts["tw"]), F(ts["tz"]) / 100, F(ts["rise"])
    hs = F(1) if vertical else th           # Th scales the horizontal displacement only (9.4.4)
    a, b_, c, d, e, f = (F(x) for x in cfg["tm"])
    tumap = None
    if cfg.get("tu") and "sections" in cfg["tu"]:
        tumap, flags = spec_tounicode([parse_sec_word(w) for w in cfg["tu"]["sections"]])
        if not in_domain(flags):
            return None
    pre = ttf_preimages(cfg["ttf"]) if cfg.get("ttf") else None
    if vertical:
        w2 = spec_widths2([norm_w2ent(x) for x in cfg["w2"]]) if cfg.get("w2") is not None else {}
        dflt = F(cfg["dw2"][1]) if cfg.get("dw2") is not None else F(-1000)
        dvy = F(cfg["dw2"][0]) if cfg.get("dw2") is not None else F(880)
        width = lambda cid: w2[cid][0] if cid in w2 else dflt  # noqa: E731
    else:
        w = spec_widths([norm_went(x) for x in cfg["w"]]) if cfg.get("w") is not None else {}
        dflt = F(cfg["dw"]) if cfg.get("dw") is not None else F(1000)
        width = lambda cid: w.get(cid, dflt)  # noqa: E731
    coding = cfg["ros"][0] + "-" + cfg["ros"][1]
    x = y = F(0)
    out = []
    for items in cfg["shows"]:
        for it in items:
            if not isinstance(it, str):
                if vertical:
                    y -= F(it) * fs / 1000
                else:
                    x -= F(it) * fs / 1000 * th
                continue
            data = bytes.fromhex(it)
            segs = segment_codes(cfg, data)
            if segs is None:
                return None
            pos = 0
            for code, cid in segs:
                und = {"(cid:%d)" % cid}
                if tumap is not None:
                    texts = {"".join(chr(cp) for cp in tumap[code])} if code in tumap else und
                elif cfg.get("tu"):
                    texts = {chr(cid)}
                elif coding in ("Adobe-Identity", "Adobe-UCS"):
                    texts = {chr(ch) for ch in pre[cid]} if pre and cid in pre and cid != 0 else und
                    if cid == 0 and pre is not None:
                        texts = None           # glyph 0 (.notdef): any answer accepted
                elif cfg["codec"]:
                    texts = None               # filled below from the codec
                else:
                    # identity CMap over a CJK collection: the collection's own CID -> Unicode table (its content is
                    # validated against the platform codecs by the data check); this tests the selection plumbing
                    texts = und
                    try:
                        from pdfminer.cmapdb import CMapDB
                        um = CMapDB.get_unicode_map(coding, vertical)
                        if cid in um.cid2unichr:
                            texts = {um.cid2unichr[cid]}
                    except Exception:  # noqa: BLE001
                        pass
                adv_ = width(cid) * fs / 1000 * hs
                ge, gf = x * a + y * c + e, x * b_ + y * d + f
                # glyph box in glyph-origin coordinates (pdfminer's convention: em-wide box; vertical glyphs are placed
                # by the position vector (vx, vy) of the font's own W2, default (w0/2 with w0 = 1000, DW2[0]))
                if vertical:
                    vx, vy = (w2[cid][1], w2[cid][2]) if cid in w2 else (None, dvy)
                    bx = fs / 2 if vx is None else vx * fs / 1000
                    by = (1000 - vy) * fs / 1000
                    rect = (-bx, by + rise + adv_, -bx + fs, by + rise)
                else:
                    rect = (F(0), F(-200) * fs / 1000 + rise, adv_, F(-200) * fs / 1000 + rise + fs)
                pts = [(px * a + py * c + ge, px * b_ + py * d + gf) for px in (rect[0], rect[2]) for py in (rect[1], rect[3])]
                box = (min(p[0] for p in pts), min(p[1] for p in pts), max(p[0] for p in pts), max(p[1] for p in pts))
                out.append([texts, adv_, ge, gf, cid, box])
                # pen displacement to the next glyph (9.4.4): (w * Tfs + Tc + Tw) [* Th when horizontal];
                # Tw for the single-byte code 32 only
                step = adv_ + tc * hs
                if sb_tw and code == 32 and code_len(cfg, code) == 1:
                    step += tw * hs
                if vertical:
                    y += step
                else:
                    x += step
            if cfg["codec"] and tumap is None:
                # collection map: the platform codec decides the text of the whole (complete) part of the string
                k = len(out) - len(segs)
                txt = data.decode(cfg["codec"], "ignore")
                if len(txt) == len(segs):
                    for j, ch in enumerate(txt):
                        out[k + j][0] = {ch}
                else:
                    return None
    return out


def close(a_, b_) -> bool:
    a_, b_ = float(a_), float(b_)
    return abs(a_ - b_) <= 1e-6 * max(1.0, abs(a_), abs(b_))


def doc_compare(cfg):
    """None when the implementation matches; else (what, expected, got, tags)."""
    got, e = call(lambda: impl_glyphs(doc_pdf(cfg)))
    r = doc_compare_with(cfg, got, e, False)
    if r is not None and r != "outside" and single_byte_32(cfg):
        r2 = doc_compare_with(cfg, got, e, True)
        if r2 is None:
            return None
    return r


def doc_compare_with(cfg, got, e, sb_tw: bool):
    exp = doc_expect(cfg, sb_tw)
    if exp is None:
        return "outside"
    ident = cfg["enc"] in IDENT1 + IDENT2
    if cfg.get("second"):
        ident = ident and cfg["second"]["enc"] in IDENT1 + IDENT2
    tags = {"group": "doc", "enc": cfg["enc"], "two_fonts": bool(cfg.get("second")), "identity_cmap": ident,
            "indirect": list(cfg.get("indirect") or []),
            "tu_stream": bool(cfg.get("tu") and "sections" in cfg["tu"]), "vertical": cfg["enc"].endswith("V"),
            "text_state": bool(cfg.get("ts")), "tw": bool(cfg.get("ts") and cfg["ts"]["tw"]),
            "odd": ident and any(isinstance(it, str) and (len(it) // 2) % 2 == 1 for items in cfg["shows"] for it in items)
            and cfg["enc"] in IDENT2}
    if e is not None:
        return ("showing a string in a composite font raised", "glyphs", exc_line(e), dict(tags, exc=type(e).__name__))
    if len(got) != len(exp):
        return ("composite font: number of glyphs differs from the number of codes in the strings",
                len(exp), len(got), dict(tags, what="count"))
    for k, ((texts, adv, ee, ff, cid, box), (gt, gadv, gm, gbox)) in enumerate(zip(exp, got)):
        if texts is not None and gt not in texts:
            return ("composite font: Unicode text of a code differs from ToUnicode / collection / TrueType cmap",
                    sorted(texts), gt, dict(tags, what="text", index=k))
        if not close(adv, gadv):
            return ("composite font: advance differs from W/DW (W2/DW2)", str(adv), gadv, dict(tags, what="adv", index=k))
        if not (close(ee, gm[4]) and close(ff, gm[5])):
            return ("composite font: glyph origin differs from the pen position implied by the advances W/DW (W2/DW2), "
                    "character spacing and TJ adjustments (word spacing never applies to a multi-byte code)",
                    [str(ee), str(ff)], list(gm[4:6]), dict(tags, what="matrix", index=k))
        if not all(close(p, q) for p, q in zip(box, gbox)):
            return ("composite font: glyph box differs from the placement the font's metrics define "
                    "(vertical: position vector of its own W2/DW2)",
                    [str(v) for v in box], list(gbox), dict(tags, what="bbox", index=k))
    return None


def shrink_doc(cfg):
    """Greedy simplification of a failing document configuration."""
    def fails(c):
        r = doc_compare(c)
        return r is not None and r != "outside"
    cur = json.loads(json.dumps(cfg))
    for key, val in (("second", None), ("indirect", []), ("ts", None), ("w", None), ("w2", None), ("dw", None), ("dw2", None), ("ttf", None), ("tu", None),
                     ("tm", [1, 0, 0, 1, 0, 0]), ("fs", 10), ("enc_kind", "name")):
        if cur.get(key) != val:
            cand = dict(cur, **{key: val})
            if fails(cand):
                cur = cand
    if cur.get("ts"):
        for k, v in (("tc", 0), ("tz", 100), ("rise", 0), ("tw", 0)):
            cand = dict(cur, ts=dict(cur["ts"], **{k: v}))
            if cur["ts"][k] != v and fails(cand):
                cur = cand
    if len(cur.get("indirect") or []) > 1:
        cur["indirect"] = C.ddmin(list(cur["indirect"]), lambda sub: fails(dict(cur, indirect=sub)), 30)
    shows = C.ddmin(cur["shows"], lambda sub: fails(dict(cur, shows=sub)), 30)
    cur["shows"] = shows
    for i in range(len(cur["shows"])):
        items = C.ddmin(cur["shows"][i], lambda sub: fails(dict(cur, shows=cur["shows"][:i] + [sub] + cur["shows"][i + 1:])), 30)
        cur["shows"][i] = items
    return cur if fails(cur) else cfg


def check_doc(ctx: C.Ctx, b: Batch, cfg, do_shrink=True, record=True) -> None:
    hist_len = len(HISTORY)
    r = doc_compare(cfg)
    if record:
        HISTORY.append({"kind": "doc", "vertical": cfg["enc"].endswith("V") or bool(cfg.get("second") and cfg["second"]["enc"].endswith("V")),
                        "has_w2": bool(cfg.get("w2")), "cfg": cfg})
    vertical = cfg["enc"].endswith("V")
    kind = "ident2" if cfg["enc"] in IDENT2 else "ident1" if cfg["enc"] in IDENT1 else "cjk"
    tu = "tu-stream" if cfg.get("tu") and "sections" in cfg["tu"] else "tu-name" if cfg.get("tu") else \
        "ttf" if cfg.get("ttf") else "none"
    ctx.case(("doc", json.dumps(cfg, sort_keys=True)), r != "outside",
             sample={"group": "doc", "enc": cfg["enc"], "tu": tu, "shows": cfg["shows"][:2]},
             branch=f"doc:{kind}:{'v' if vertical else 'h'}:{tu}" + (":two-fonts" if cfg.get("second") else "")
             + (":outside" if r == "outside" else ""))
    for k in cfg.get("indirect") or []:
        ctx.branch("doc:indirect:" + k)
    if cfg.get("ts"):
        for k, dflt in (("tc", 0), ("tw", 0), ("tz", 100), ("rise", 0)):
            if cfg["ts"][k] != dflt:
                ctx.branch("doc:ts:" + k + (":v" if vertical else ":h"))
        if cfg["ts"]["tw"] and any(cid_ == 32 for (_, _, _, _, cid_, _) in (doc_expect(cfg) or [])):
            ctx.branch("doc:ts:tw-with-cid32:" + kind)
        if single_byte_32(cfg):
            ctx.branch("doc:ts:tw-with-single-byte-32:" + kind)
    if r is None or r == "outside":
        return
    small = shrink_doc(cfg) if do_shrink else cfg
    r2 = doc_compare(small)
    if r2 is None or r2 == "outside":
        small, r2 = cfg, r
    what, exp, got, tags = r2
    cid = None
    if tags.get("what") in ("bbox", "adv") and isinstance(tags.get("index"), int):
        e2 = doc_expect(small)
        if e2 and tags["index"] < len(e2):
            cid = e2[tags["index"]][4]
    ctx.fail(C.Failure(what, {"group": "doc", "cfg": small, "history": history_before(hist_len, cid) if record else []},
                       exp, got, tags))


def run_doc(ctx: C.Ctx) -> None:
    rng = ctx.rng
    b = Batch(ctx)
    for _ in range(ctx.n(250, 8000)):
        if not ctx.time_left():
            break
        check_doc(ctx, b, gen_doc(rng))
    b.flush()


# =========================================================================== classifiers, corpus, replay, run

CLASSIFIERS = {
    # ToUnicode CMaps are keyed by character CODE (ISO 32000-1 9.10.3); PDFCIDFont.to_unichr looks the CID up, which
    # is the same number only for the identity CMaps
    "c07_tounicode_keyed_by_cid": lambda f: (f.tags.get("group") == "doc" and f.tags.get("tu_stream") is True
                                            and f.tags.get("identity_cmap") is False and f.tags.get("what") == "text"),
    # seven cp932 vendor-extension characters whose legacy Adobe-Japan1 CIDs are absent from the shipped
    # to-unicode-Adobe-Japan1 pickle
    "c07_japan1_legacy_cid_without_unicode": lambda f: (f.tags.get("group") == "codec"
                                                       and f.tags.get("collection") == "Adobe-Japan1"
                                                       and f.tags.get("no_unicode") is True
                                                       and f.tags.get("cp") in JAPAN1_NO_UNICODE),
    # Mac KS encoding: U+3001 / U+3002 reach proportional-punctuation CIDs 8283 / 8284 that the shipped
    # to-unicode-Adobe-Korea1 pickle does not cover
    "c07_korea1_kscpc_cid_without_unicode": lambda f: (f.tags.get("group") == "codec"
                                                      and str(f.tags.get("cmap", "")).startswith("KSCpc-EUC")
                                                      and f.tags.get("no_unicode") is True
                                                      and f.tags.get("cp") in (0x3001, 0x3002)),
}


# =========================================================================== round 6: PDFCIDFont glue, cid sections

OTHER_KINDS = ["name", "str", "list", "none", "dict"]


def other_obj(kind: str):
    from pdfminer.psparser import LIT
    return {"name": LIT("x"), "str": b"12", "list": [5], "none": None, "dict": {}}[kind]


def welem_from_word(w: str):
    """Inverse of welem_word (OTHER -> a name object)."""
    from pdfminer.psparser import LIT
    if w == "o":
        return LIT("x")
    if w.startswith("l:"):
        return [welem_from_word(x) for x in w[2:].split(";")] if len(w) > 2 else []
    return parse_num_word(w)


def glue_font(cfg):
    """The PDFCIDFont of a fontglue configuration: W, DW, W2 and DW2 all present (or absent) whatever the mode."""
    from pdfminer.pdffont import PDFCIDFont
    from pdfminer.psparser import LIT
    spec: Dict[str, Any] = {"Type": LIT("Font"), "Subtype": LIT("CIDFontType2"), "BaseFont": LIT("X"),
                            "CIDSystemInfo": {"Registry": b"Adobe", "Ordering": b"Identity", "Supplement": 0},
                            "Encoding": LIT("Identity-V" if cfg["vertical"] else "Identity-H"), "FontDescriptor": {}}
    if cfg["w"] is not None:
        spec["W"] = [welem_from_word(w) for w in cfg["w"]]
    if cfg["w2"] is not None:
        spec["W2"] = [welem_from_word(w) for w in cfg["w2"]]
    for key in ("dw", "dw2"):
        v = cfg[key]
        if v == "-":
            continue
        spec[key.upper()] = other_obj(v[2:]) if v.startswith("o:") else welem_from_word(v)
    return PDFCIDFont(None, spec)


def glue_expect(cfg, cid: int):
    """What theorems cidfont_width_spec / cidfont_width2_spec say, when the array of the font's writing mode is
    well-formed: (width, disp); None when that array is not from the grammar."""
    if cfg["vertical"]:
        if cfg.get("w2ent") is None:
            return None
        sw = spec_widths2([parse_w2ent_word(w) for w in cfg["w2ent"]])
        d = cfg["dw2"]
        pair = None
        if d.startswith("l:"):
            xs = [x for x in d[2:].split(";") if x] if len(d) > 2 else []
            if len(xs) == 2 and all(x != "o" for x in xs):
                pair = (F(parse_num_word(xs[0])), F(parse_num_word(xs[1])))
        if cid in sw:
            return sw[cid][0], (sw[cid][1], sw[cid][2])
        return (pair[1] if pair else F(-1000)), (None, pair[0] if pair else F(880))
    if cfg.get("went") is None:
        return None
    sw = spec_widths([parse_went_word(w) for w in cfg["went"]])
    d = cfg["dw"]
    dflt = F(parse_num_word(d)) if d[0] in "if" else F(1000)
    return sw.get(cid, dflt), 0


def disp_words(disp) -> List[str]:
    if not isinstance(disp, tuple):
        return ["D", str(disp)]
    return ["D", "None" if disp[0] is None else C.frac_str(F(disp[0])), C.frac_str(F(disp[1]))]


def same_numbers(a: List[str], b_: List[str]) -> bool:
    if len(a) != len(b_):
        return False
    for x, y in zip(a, b_):
        if x == y:
            continue
        try:
            if not close(F(x), F(y)):
                return False
        except (ValueError, ZeroDivisionError):
            return False
    return True


def check_fontglue(ctx: C.Ctx, lines, meta, cfg, cids, origin="gen") -> None:
    font, e = call(lambda: glue_font(cfg))
    if e is not None:
        ctx.case(("glue", json.dumps(cfg, sort_keys=True)), True, branch="glue:exception")
        ctx.fail(C.Failure("PDFCIDFont could not be built (W / DW / W2 / DW2 of any shape must be survivable)",
                           dict(cfg, cid=cids[0] if cids else 0), "a font", exc_line(e),
                           {"group": "fontglue", "exc": type(e).__name__}))
        return
    v = cfg["vertical"]
    drv = lambda x: "-" if x == "-" else ("o" if x.startswith("o:") else x)  # noqa: E731
    dw2w = cfg["dw2"]
    dw2w = "-" if dw2w == "-" else (dw2w if dw2w.startswith("l:") else "l:")      # a DW2 that is no list reads as []
    for cid in cids:
        (wd, e1), (dp, e2) = call(lambda: font.char_width(cid) * 1000), call(lambda: font.char_disp(cid))
        inp = dict(cfg, cid=cid)
        ctx.case(("glue", json.dumps(inp, sort_keys=True)), True, sample=inp if origin == "gen" else None,
                 branch="glue:" + ("v" if v else "h") + ":dw=" + (cfg["dw2"] if v else cfg["dw"])[:2]
                 + (":wild" if (cfg.get("w2ent") if v else cfg.get("went")) is None else ":grammar"))
        if e1 is not None or e2 is not None:
            ctx.fail(C.Failure("char_width / char_disp of a CID font raised", inp, "a number", exc_line(e1 or e2),
                               {"group": "fontglue", "exc": type(e1 or e2).__name__}))
            continue
        got = ["R", C.frac_str(F(wd))] + disp_words(dp)
        lines.append("cw %s %s %s %d %s | %s" % ("1" if v else "0", drv(cfg["dw"]), dw2w, cid,
                                                 " ".join(cfg["w"]) if cfg["w"] else "-",
                                                 " ".join(cfg["w2"]) if cfg["w2"] else "-"))
        meta.append((inp, got))
        exp = glue_expect(cfg, cid)
        if exp is not None:
            want = ["R", C.frac_str(F(exp[0]))] + disp_words(exp[1])
            if not same_numbers(want, got):
                ctx.fail(C.Failure("CID font: width / position vector of a cid differs from W/DW (W2/DW2) of its own "
                                   "writing mode, or an ill-typed default was not replaced by the standard one",
                                   inp, " ".join(want), " ".join(got),
                                   {"group": "fontglue", "vertical": v, "dflt": (cfg["dw2"] if v else cfg["dw"])[:2]}))


def gen_glue_cfg(rng):
    v = rng.random() < 0.5
    went = gen_w_entries(rng)
    w2ent = gen_w2_entries(rng)
    w, w2 = render_w(went), render_w2(w2ent)
    wild_w, wild_w2 = rng.random() < 0.3, rng.random() < 0.3
    if wild_w:
        w = mutate_w(rng, w)
    if wild_w2:
        w2 = mutate_w(rng, w2)
    r = rng.random()
    dw = "-" if r < 0.3 else (num_word(rng.choice([1000, 0, 250.5, 600, -20])) if r < 0.65
                              else "o:" + rng.choice(OTHER_KINDS))
    r = rng.random()
    num = lambda: num_word(rng.choice([880, 700, -1000, -800, -500.5, 0]))  # noqa: E731
    if r < 0.25:
        dw2 = "-"
    elif r < 0.55:
        dw2 = "l:" + num() + ";" + num()
    elif r < 0.85:
        dw2 = "l:" + ";".join(rng.choice([num(), num(), "o"]) for _ in range(rng.choice([0, 1, 2, 2, 3, 4])))
    else:
        dw2 = "o:" + rng.choice(["name", "str", "none", "dict"])
    cfg = {"group": "fontglue", "vertical": v,
           "w": [welem_word(x) for x in w] if rng.random() < 0.9 else None,
           "w2": [welem_word(x) for x in w2] if rng.random() < 0.9 else None,
           "dw": dw, "dw2": dw2,
           "went": None if wild_w else [went_word(x) for x in went],
           "w2ent": None if wild_w2 else [w2ent_word(x) for x in w2ent]}
    if cfg["w"] is None:
        cfg["went"] = []
    if cfg["w2"] is None:
        cfg["w2ent"] = []
    ents = w2ent if v else went
    cids = [en[1] for en in ents] + [en[1] + 1 for en in ents] + [en[2] for en in ents if en[0] == "R"]
    rng.shuffle(cids)
    cids = [c for c in cids if 0 <= c <= 65535][:3] + [rng.choice(BOUNDARY_CIDS), rng.randint(0, 400)]
    return cfg, cids


def flush_glue(ctx: C.Ctx, lines, meta) -> None:
    if ctx.driver is not None and lines:
        for (inp, got), out in zip(meta, ctx.driver.ask(lines)):
            if not same_numbers(out.split(" "), got):
                ctx.disagree("fontglue.model", inp, " ".join(got), out)


def coding_case(ctx: C.Ctx, b: "Batch", reg, order) -> None:
    """cidcoding from CIDSystemInfo: implementation vs model; vs `registry.strip()-ordering.strip()` for strings."""
    from pdfminer.pdffont import PDFCIDFont
    from pdfminer.psparser import LIT
    info: Dict[str, Any] = {}
    if reg is not None:
        info["Registry"] = reg
    if order is not None:
        info["Ordering"] = order
    font, e = call(lambda: PDFCIDFont(None, {"Type": LIT("Font"), "Subtype": LIT("CIDFontType2"), "BaseFont": LIT("X"),
                                             "CIDSystemInfo": info, "Encoding": LIT("Identity-H"),
                                             "FontDescriptor": {}}))
    word = lambda x: x.hex() if isinstance(x, bytes) and x else ("-" if not isinstance(x, bytes) else None)  # noqa: E731
    inp = {"group": "coding", "registry": reg.hex() if isinstance(reg, bytes) else None,
           "ordering": order.hex() if isinstance(order, bytes) else None}
    ctx.case(("coding", repr(reg), repr(order)), True, branch="coding:" + ("str" if isinstance(reg, bytes) else "other")
             + ("/str" if isinstance(order, bytes) else "/other"))
    if e is not None:
        ctx.fail(C.Failure("PDFCIDFont could not be built from a CIDSystemInfo", inp, "a font", exc_line(e),
                           {"group": "coding", "exc": type(e).__name__}))
        return
    got = "K " + font.cidcoding.encode("latin1").hex()
    wr, wo = word(reg), word(order)
    if wr is not None and wo is not None:          # the empty string has no hex word; covered by the property check
        b.tie("coding.model", "coding %s %s" % (wr, wo), got, inp)
    white = b" \t\n\r\x0b\x0c\x1c\x1d\x1e\x1f\x85\xa0"
    want = (reg.strip(white) if isinstance(reg, bytes) else b"unknown") + b"-" + \
        (order.strip(white) if isinstance(order, bytes) else b"unknown")
    if got != "K " + want.hex():
        ctx.fail(C.Failure("cidcoding is not Registry-Ordering with surrounding white space removed", inp,
                           "K " + want.hex(), got, {"group": "coding"}))


def run_pen(ctx: C.Ctx) -> None:
    """PDFTextDevice.render_string on a composite font under a non-default text state: pen after one string —
    implementation vs model (`penAfter`, op `pen`) vs the rule of theorem composite_advance_ignores_tw."""
    from pdfminer.pdfdevice import PDFTextDevice
    from pdfminer.pdffont import PDFCIDFont
    from pdfminer.pdfinterp import PDFResourceManager, PDFTextState
    from pdfminer.psparser import LIT

    class Dev(PDFTextDevice):
        def render_char(self, matrix, font, fontsize, scaling, rise, cid, ncs, graphicstate):
            return font.char_width(cid) * fontsize * (1 if font.is_vertical() else scaling)   # = LTChar.adv

    rng = ctx.rng
    lines, meta = [], []
    for _ in range(ctx.n(200, 5000)):
        v = rng.random() < 0.5
        w = rng.choice([1000, 500, 0, 250.5, 600]) * (-1 if v else 1)
        fs, tc = rng.choice([1, 10, 12, 8.5]), rng.choice([0, 0.5, -0.25, 2])
        tw, tz = rng.choice([0, 3, -1.5, 10]), rng.choice([100, 50, 150, 80])
        cids = [rng.choice([32, 32, 0x41, 0x2000, 0x2020, rng.randrange(65536)]) for _ in range(rng.randint(0, 5))]
        spec: Dict[str, Any] = {"Type": LIT("Font"), "Subtype": LIT("CIDFontType2"), "BaseFont": LIT("X"),
                                "CIDSystemInfo": {"Registry": b"Adobe", "Ordering": b"Identity", "Supplement": 0},
                                "Encoding": LIT("Identity-V" if v else "Identity-H"), "FontDescriptor": {}}
        spec["DW2" if v else "DW"] = [880, w] if v else w
        inp = {"group": "pen", "vertical": v, "fs": fs, "tc": tc, "tw": tw, "tz": tz, "w": w, "cids": cids}

        def go():
            font = PDFCIDFont(None, spec)
            st = PDFTextState()
            st.font, st.fontsize, st.charspace, st.wordspace, st.scaling = font, fs, tc, tw, tz
            st.matrix, st.linematrix = (1, 0, 0, 1, 0, 0), (0, 0)
            dev = Dev(PDFResourceManager())
            dev.set_ctm((1, 0, 0, 1, 0, 0))
            dev.render_string(st, [b"".join(c.to_bytes(2, "big") for c in cids)], None, None)
            return st.linematrix[1 if v else 0]
        got, e = call(go)
        ctx.case(("pen", json.dumps(inp, sort_keys=True)), bool(cids),
                 branch="pen:" + ("v" if v else "h") + (":tw" if tw else "") + (":cid32" if 32 in cids else ""))
        if e is not None:
            ctx.fail(C.Failure("render_string of a composite font raised", inp, "a pen position", exc_line(e),
                               {"group": "pen", "exc": type(e).__name__}))
            continue
        th = F(1) if v else F(tz) / 100
        want = sum(((F(w) * F(fs) / 1000 + F(tc)) * th for _ in cids), F(0))
        if not close(want, got):
            ctx.fail(C.Failure("composite font: pen after a string differs from sum of (w*Tfs/1000 + Tc)[*Th]; word "
                               "spacing must not apply to two-byte codes", inp, str(want), got,
                               {"group": "pen", "vertical": v, "cid32": 32 in cids, "tw": bool(tw)}))
        lines.append("pen %d %s %s %s %s %s %s" % (v, num_word(fs), num_word(tc), num_word(tw), num_word(tz), num_word(w),
                                               " ".join(str(c) for c in cids)))
        meta.append((inp, got))
    if ctx.driver is not None and lines:
        for (inp, got), out in zip(meta, ctx.driver.ask(lines)):
            if not out.startswith("P ") or not close(F(out[2:]), got):
                ctx.disagree("pen.model", inp, got, out)


def run_umapsel_raw(ctx: C.Ctx) -> None:
    """CID -> Unicode map choice from the RAW CIDSystemInfo (padded / ill-typed Registry and Ordering): implementation
    vs model (`fontUnicodeMap`) vs theorem unicode_map_from_cidsysteminfo."""
    from pdfminer.pdffont import PDFCIDFont
    from pdfminer.psparser import LIT
    rng = ctx.rng
    b = Batch(ctx)
    shipped = {f[len("to-unicode-"):-10] for f in os.listdir(os.path.join(C.REPO, "pdfminer", "cmap"))
               if f.startswith("to-unicode-")}
    white = b" \t\n\r\x0b\x0c\x1c\x1d\x1e\x1f\x85\xa0"
    pads = [b"", b"", b" ", b"\t", b"\n ", b"\xa0", b"\x85", b"\x1c"]
    avail = set(all_cmap_names())
    encs = [e for e in ["Identity-H", "Identity-V", "90ms-RKSJ-V", "90ms-RKSJ-H", "UniGB-UCS2-V", "H", "V"]
            if e.startswith("Identity") or e in avail]
    for _ in range(ctx.n(200, 5000)):
        pick = lambda cores: (rng.choice(pads) + rng.choice(cores) + rng.choice(pads)) if rng.random() < 0.9 \
            else rng.choice([None, 5, LIT("Adobe")])  # noqa: E731
        reg = pick([b"Adobe", b"Adobe", b"Adobe", b"Foo", b"adobe"])
        order = pick([b"Japan1", b"GB1", b"CNS1", b"Korea1", b"Identity", b"UCS", b"Foo", b"Identity X"])
        enc = rng.choice(encs)
        tu = rng.choice([None, None, None, "Identity-H", "Foo"])
        info: Dict[str, Any] = {}
        if reg is not None:
            info["Registry"] = reg
        if order is not None:
            info["Ordering"] = order
        spec: Dict[str, Any] = {"Type": LIT("Font"), "Subtype": LIT("CIDFontType2"), "BaseFont": LIT("X"),
                                "CIDSystemInfo": info, "Encoding": LIT(enc), "FontDescriptor": {}}
        if tu is not None:
            spec["ToUnicode"] = LIT(tu)
        font, e = call(lambda: PDFCIDFont(None, spec))
        out = describe_umap(font, tu, False) if e is None else exc_line(e)
        rs = reg.strip(white) if isinstance(reg, bytes) else b"unknown"
        os_ = order.strip(white) if isinstance(order, bytes) else b"unknown"
        coding = (rs + b"-" + os_).decode("latin1")
        vert = enc.endswith("V")
        inp = {"group": "umapsel_raw", "registry": reg.hex() if isinstance(reg, bytes) else None,
               "ordering": order.hex() if isinstance(order, bytes) else None, "enc": enc, "tu": tu}
        ctx.case(("umapsel_raw", json.dumps(inp, sort_keys=True)), True, branch="umapsel_raw:" + out.split(":")[0])
        w = lambda x: (x.hex() or None) if isinstance(x, bytes) else "-"  # noqa: E731
        if w(reg) is not None and w(order) is not None:
            b.tie("umapsel_raw.model", "umapsel2 %s %s %s %s 0 %d %d" % (
                "-" if tu is None else "n:" + tu.encode().hex(), w(reg), w(order), enc.encode().hex(), vert,
                coding in shipped), out, inp)
        if tu is None and coding in shipped:
            want = "S coll:%s:%s" % (coding, "V" if vert else "H")
            if out != want:
                ctx.fail(C.Failure("CID font with a padded CIDSystemInfo does not use the collection table "
                                   "Registry-Ordering of its CMap's writing mode", inp, want, out,
                                   {"group": "umapsel_raw", "vertical": vert}))
    b.flush()


def run_fontglue(ctx: C.Ctx) -> None:
    from pdfminer.psparser import LIT
    rng = ctx.rng
    lines: List[str] = []
    meta: List[Any] = []
    for _ in range(ctx.n(250, 8000)):
        cfg, cids = gen_glue_cfg(rng)
        check_fontglue(ctx, lines, meta, cfg, cids)
    flush_glue(ctx, lines, meta)
    b = Batch(ctx)
    pads = [b"", b" ", b"\t", b"\n ", b"\xa0", b"\x85", b"\x1c\x1f", b"\x0b\x0c\r"]
    cores = [b"Adobe", b"Japan1", b"Identity", b"A B", b"x", b"\x00", b"\xe9", b"GB1", b"a\xa0b"]
    for i in range(ctx.n(120, 3000)):
        def one():
            r = rng.random()
            if r < 0.75:
                return rng.choice(pads) + rng.choice(cores) + rng.choice(pads)
            if r < 0.85:
                return rng.choice(pads) + rng.choice(pads)
            return rng.choice([None, 5, LIT("Adobe"), [b"Adobe"]])
        coding_case(ctx, b, one(), one())
    b.flush()


def spec_cidsecs(secs) -> Dict[int, List[int]]:
    """Twin of theorems cidchar_map / cidrange_map (assignments with add_cid2unichr's U+00A0 rule)."""
    m: Dict[int, List[int]] = {}

    def put(k, cps):
        if cps == [0xA0] and m.get(k) == [0x20]:
            return
        m[k] = cps
    for kind, ents in secs:
        for e in ents:
            if kind == "cidchar":
                put(e[0], utf16_ignore_ref(e[1]))
            else:
                lo, hi, cid = e
                n = int.from_bytes(hi[-4:], "big") + 1 - int.from_bytes(lo[-4:], "big")
                for i in range(max(n, 0)):
                    put(cid + i, utf16_ignore_ref(inc_be(lo, i)))
    return m


def cidsec_toks(secs) -> List[Any]:
    toks: List[Any] = []
    for kind, ents in secs:
        toks += [("i", len(ents)), ("k", "begin" + kind)]
        for e in ents:
            toks += [("i", e[0]), ("s", e[1])] if kind == "cidchar" else [("s", e[0]), ("s", e[1]), ("i", e[2])]
        toks.append(("k", "end" + kind))
    return toks


def cidsec_outcome(secs):
    toks = HEADER_TOKS + cidsec_toks(secs) + TRAILER_TOKS
    got, e = call(lambda: impl_tounicode(toks_stream(toks)))
    return toks, (map_line(got) if e is None else exc_line(e)), map_line(spec_cidsecs(secs))


def secs_words(secs):
    return [[k, [[x.hex() if isinstance(x, bytes) else x for x in e] for e in ents]] for k, ents in secs]


def secs_from_words(ws):
    return [(k, [tuple(bytes.fromhex(x) if isinstance(x, str) else x for x in e) for e in ents]) for k, ents in ws]


def check_cidsec(ctx: C.Ctx, b: "Batch", secs, origin="gen") -> None:
    toks, impl_out, spec_out = cidsec_outcome(secs)
    inp = {"group": "cidsec", "sections": secs_words(secs)}
    ctx.case(("cidsec", json.dumps(inp["sections"])), spec_out != "M -", sample=inp if origin == "gen" else None,
             branch="cidsec:" + "+".join(sorted({k for k, _ in secs})))
    b.tie("cidsec.model", "tu " + " ".join(tok_word(t) for t in toks), impl_out, inp)
    if impl_out != spec_out:
        small = C.ddmin(list(secs), lambda sub: (lambda r: r[1] != r[2])(cidsec_outcome(sub)), 40) or secs
        _, i2, s2 = cidsec_outcome(small)
        ctx.fail(C.Failure("cidchar / cidrange sections parsed by CMapParser differ from the map they define",
                           {"group": "cidsec", "sections": secs_words(small)}, s2, i2,
                           {"group": "cidsec", "exc": i2[2:] if i2.startswith("E ") else None}))


def tuni_case(ctx: C.Ctx, b: "Batch", toks, cids) -> None:
    """PDFCIDFont.to_unichr on a font whose ToUnicode stream holds these tokens (model op `tuni`)."""
    from pdfminer.pdffont import PDFCIDFont, PDFUnicodeNotDefined
    from pdfminer.pdftypes import PDFStream
    from pdfminer.psparser import LIT
    data = toks_stream(toks)
    font, e = call(lambda: PDFCIDFont(None, {
        "Type": LIT("Font"), "Subtype": LIT("CIDFontType2"), "BaseFont": LIT("X"),
        "CIDSystemInfo": {"Registry": b"Adobe", "Ordering": b"Japan1", "Supplement": 0},
        "Encoding": LIT("Identity-H"), "FontDescriptor": {}, "ToUnicode": PDFStream({}, data)}))
    for cid in cids:
        if e is not None:
            out = exc_line(e)
        else:
            try:
                u = font.to_unichr(cid)
                out = "U " + (".".join("%x" % ord(ch) for ch in u) if u else "-")
            except PDFUnicodeNotDefined:
                out = "U undefined"
        inp = {"group": "tuni", "cid": cid, "tokens": [tok_word(t) for t in toks]}
        ctx.case(("tuni", cid, tuple(inp["tokens"])), out not in ("U undefined",), branch="tuni:" + out[:3].strip())
        b.tie("to_unichr.model", "tuni %d %s" % (cid, " ".join(tok_word(t) for t in toks)), out, inp)


def run_cidsec(ctx: C.Ctx) -> None:
    rng0 = ctx.rng
    b0 = Batch(ctx)
    for _ in range(ctx.n(80, 3000)):
        secs = gen_sections(rng0, wild=False)
        m, _flags = spec_tounicode(secs)
        keys = sorted(m)
        cids = [rng0.choice(keys) for _ in range(2) if keys] + [rng0.choice([0, 1, 65, 0x3042, 70000])]
        tuni_case(ctx, b0, render_sections(secs), [c for c in cids if c >= 0])
    b0.flush()
    rng = ctx.rng
    b = Batch(ctx)
    for _ in range(ctx.n(200, 8000)):
        secs = []
        for _ in range(rng.randint(1, 3)):
            if rng.random() < 0.4:
                secs.append(("cidchar", [(rng.choice([0, 1, 65, 300, 65535, -3, rng.randint(0, 70000)]),
                                          gen_target(rng, wild=rng.random() < 0.2)) for _ in range(rng.randint(0, 4))]))
            else:
                ents = []
                for _ in range(rng.randint(0, 3)):
                    n = rng.choice([1, 2, 2, 2, 3, 4, 5, 6])
                    pre = bytes(rng.choice([0, 1, 0x30, 0xFF]) for _ in range(max(n - 4, 0)))
                    width = min(n, 4)
                    top = 256 ** width
                    a = rng.choice([0, 0x41, 0xFE, top - 3, rng.randrange(top)]) % top
                    span = rng.choice([0, 0, 1, 2, 5, 40, 300, -1, -7])
                    hi = min(max(a + span, 0), top - 1)
                    ents.append((pre + a.to_bytes(width, "big"), pre + hi.to_bytes(width, "big"),
                                 rng.choice([0, 1, 7, 200, 65530, -2, rng.randint(0, 65535)])))
                secs.append(("cidrange", ents))
        check_cidsec(ctx, b, secs)
    b.flush()


# =========================================================================== round 6: ToUnicode from BYTES

SEPS = [b" ", b" ", b"\n", b"\r\n", b"\t", b"\x00", b"\x0c", b"  ", b" % c <41> [\n", b"%\r"]


def spell_string(rng, bs: bytes, strict: bool) -> bytes:
    r = rng.random()
    if r < 0.2:      # literal string spelling
        return b"(" + b"".join(bytes([c]) if (48 <= c < 58 or 65 <= c < 91 or 97 <= c < 123) else b"\\%03o" % c
                               for c in bs) + b")"
    h = bs.hex()
    if r < 0.5:
        h = h.upper()
    if r < 0.35 and h:
        i = rng.randrange(len(h) + 1)
        h = h[:i] + rng.choice([" ", "\n", "\t "]) + h[i:]
    if not strict and h and h[-1] == "0" and rng.random() < 0.1:
        h = h[:-1]                       # odd number of digits: the last one is padded with 0 (7.3.4.3)
    return b"<" + h.encode() + b">"


def spell_tok(rng, t, strict: bool) -> bytes:
    k = t[0]
    if k == "s":
        return spell_string(rng, t[1], strict)
    if k == "i":
        v = t[1]
        r = rng.random()
        return (b"+%d" % v) if (v >= 0 and r < 0.1) else (b"%s%03d" % (b"-" if v < 0 else b"", abs(v))) if r < 0.2 \
            else b"%d" % v
    if k == "n":
        nm = t[1]
        if nm and rng.random() < 0.2:
            i = rng.randrange(len(nm))
            nm = nm[:i] + b"#%02X" % nm[i] + nm[i + 1:]
        return b"/" + nm
    if k == "a":
        return b"[" + spell_seq(rng, t[1], strict) + b"]"
    if k == "k":
        return t[1].encode()
    return rng.choice([b"1.5", b".5", b"-2."])


def self_delimiting(t) -> bool:
    return t[0] in ("s", "a")


def spell_seq(rng, toks, strict: bool) -> bytes:
    out = b""
    for i, t in enumerate(toks):
        w = spell_tok(rng, t, strict)
        if i > 0:
            prev = toks[i - 1]
            tight = self_delimiting(prev) or w[:1] in (b"<", b"[", b"(", b"/")
            out += b"" if (tight and rng.random() < 0.3) else rng.choice(SEPS)
        out += w
    return out


def spell_theorem(rng, sections) -> bytes:
    """Exactly the spelling of theorem tounicode_bytes_spec: every object (and array element, and bracket) followed by
    one non-empty separator g of white space / comments; the count before begin... is any digit string."""
    g = b"".join(rng.choice([b" ", b"\n", b"\r", b"\t", b"\x00", b"\x0c", b"%c <\n", b"%\r"])
                 for _ in range(rng.randint(1, 3)))

    def obj(t) -> bytes:
        k = t[0]
        if k == "s":
            return b"<" + t[1].hex().encode() + b">" + g
        if k == "a":
            return b"[" + g + b"".join(obj(e) for e in t[1]) + b"]" + g
        if k == "n":
            return b"/" + t[1] + g
        if k == "k":
            return t[1].encode() + g
        return b"%d" % t[1] + g
    out = b"".join(obj(t) for t in HEADER_TOKS)
    for sec in sections:
        toks = render_sections([sec])[len(HEADER_TOKS):-len(TRAILER_TOKS)]
        out += rng.choice([b"0", b"1", b"007", b"12", b"99999999999999999999"]) + g + b"".join(obj(t) for t in toks[1:])
    return out + b"".join(obj(t) for t in TRAILER_TOKS)


def tub_outcome(data: bytes) -> str:
    got, e = call(lambda: impl_tounicode(data))
    return map_line(got) if e is None else exc_line(e)


def check_tubytes(ctx: C.Ctx, b: "Batch", data: bytes, sections, kind: str, origin="gen") -> None:
    impl_out = tub_outcome(data)
    inp = {"group": "tubytes", "data": data.hex(), "sections": [sec_word(x) for x in sections] if sections else None}
    ctx.case(("tub", data), impl_out != "M -", sample=inp if origin == "gen" else None, branch="tub:" + kind)
    if ctx.driver is not None:
        out = ctx.driver.ask(["tub " + (data.hex() or "-")])[0] if origin != "gen" else None
        if origin == "gen":
            b.lines.append("tub " + (data.hex() or "-"))
            b.meta.append(("tub", "tubytes.model", inp, impl_out))
        elif out != "outside" and out != impl_out:
            ctx.disagree("tubytes.model", inp, impl_out, out)
    if sections is not None:
        m, flags = spec_tounicode(sections)
        if in_domain(flags) and impl_out != map_line(m):
            ctx.fail(C.Failure("ToUnicode CMap read from the bytes of a conformant spelling (white space, comments, "
                               "hex case, literal strings, minimal delimiters) differs from the map it defines",
                               inp, map_line(m), impl_out,
                               {"group": "tubytes", "exc": impl_out[2:] if impl_out.startswith("E ") else None}))


def flush_tub(ctx: C.Ctx, b: "Batch") -> None:
    """As Batch.flush, but the model may answer `outside` (input leaves the modelled object grammar)."""
    if ctx.driver is None or not b.lines:
        b.lines, b.meta = [], []
        return
    outs = ctx.driver.ask(b.lines)
    for (_, op, inp, exp), got in zip(b.meta, outs):
        if got == "outside":
            ctx.branch("tub:model-outside")
        elif exp != got:
            ctx.disagree(op, inp, exp, got)
        else:
            ctx.branch("tub:model-tied")
    b.lines, b.meta = [], []


def run_tubytes(ctx: C.Ctx) -> None:
    rng = ctx.rng
    b = Batch(ctx, auto=False)
    for i in range(ctx.n(300, 10000)):
        r = i % 4
        if r == 0:         # the spelling of theorem tounicode_bytes_spec (any separator, any written count)
            secs = gen_sections(rng, wild=False)
            check_tubytes(ctx, b, spell_theorem(rng, secs), secs, "theorem-spelling")
        elif r == 1:       # in-grammar program, any conformant spelling: implementation vs spec vs byte-level model
            secs = gen_sections(rng, wild=False)
            check_tubytes(ctx, b, spell_seq(rng, render_sections(secs), True) + rng.choice([b"", b"\n", b" "]), secs,
                          "grammar")
        elif r == 2:       # token soup (wrong operand types, cid sections, stray brackets), any spelling: tie
            toks = gen_wild_tokens(rng)
            if rng.random() < 0.5:
                toks = HEADER_TOKS + toks
            data = spell_seq(rng, toks, False)
            if rng.random() < 0.2:
                data += rng.choice([b" ]", b"] <41> <0042> endbfchar", b" [ <41>"])
            check_tubytes(ctx, b, data, None, "wild")
        else:              # outside the modelled object grammar: the model must say so (or agree)
            secs = gen_sections(rng, wild=False, nsec=1)
            data = spell_seq(rng, render_sections(secs), False)
            data = rng.choice([b"<< /A 1 >> ", b"[ 1 foo ] ", b"true ", b"{ 1 } ", b"[ [ 1 ] ] ",
                               b"<01> <02> [ /A /space ] endbfrange "]) + data
            check_tubytes(ctx, b, data, None, "outside")
    flush_tub(ctx, b)


def replay(ctx: C.Ctx, doc, from_corpus: bool = False) -> None:
    inp = doc.get("input", {})
    g = inp.get("group")
    b = Batch(ctx, auto=False)
    ctx.branch("corpus" if from_corpus else "replay")
    if g == "seg":
        name = inp["cmap"]
        if name not in IDENT1 + IDENT2 and ctx.driver is not None:
            for ln in load_trie_lines(name):
                b.tie("trie.load", ln, "ok", None)
        check_seg(ctx, b, name, bytes.fromhex(inp["data"]), "replay")
    elif g == "tounicode":
        check_tounicode(ctx, b, [parse_sec_word(w) for w in inp["sections"]], "replay")
    elif g == "doc":
        replay_history(inp.get("history"))          # the documents / fonts processed before this one
        check_doc(ctx, b, inp["cfg"], do_shrink=False, record=from_corpus)
    elif g == "ttf":
        check_ttf(ctx, inp["ttf"])
    elif g == "codec":
        font = build_cidfont(inp["cmap"], "Adobe", inp["collection"][len("Adobe-"):]) if inp.get("via_font") else None
        r = codec_case(inp["cmap"], inp["codec"], inp["collection"], inp["cp"], font)
        ctx.case(("codec", inp["cmap"], inp["cp"]), True)
        if r is not None and not isinstance(r, str):
            ctx.fail(C.Failure("predefined CJK CMap / collection map disagrees with the platform codec (data check)",
                               inp, r[0], r[1], {"group": "codec", "cmap": inp["cmap"], "cp": inp["cp"],
                                                 "collection": inp["collection"], "no_unicode": "has no Unicode" in r[1]}))
    elif g == "umapsel":
        ttf = build_ttf([(3, 1, build_cmap_format0({65: 3}))])
        font, e = call(lambda: build_cidfont(inp["enc"], "Adobe", inp["ordering"], inp["tu"], ttf if inp["ttf"] else None))
        out = describe_umap(font, inp["tu"], inp["ttf"]) if e is None else exc_line(e)
        want = "S coll:Adobe-%s:%s" % (inp["ordering"], "V" if inp["enc"].endswith("V") else "H")
        ctx.case(("umapsel", json.dumps(inp, sort_keys=True)), True)
        if inp["tu"] is None and out != want:
            ctx.fail(C.Failure("CID font does not use the character collection's Unicode table of its CMap's "
                               "writing mode", inp, want, out, {"group": "umapsel", "vertical": inp["enc"].endswith("V")}))
    elif g == "fontwidth":
        vertical = inp["vertical"]
        ents = [parse_w2ent_word(w) if vertical else parse_went_word(w) for w in inp["entries"]]
        dflt = inp.get("dflt")
        sw = spec_widths2(ents) if vertical else spec_widths(ents)
        cid = inp["cid"]
        replay_history(inp.get("history"))          # the fonts built before this one, in the same order
        font, e = call(lambda: build_wfont(vertical, inp["entries"], dflt))
        ctx.case(("fw", json.dumps(inp, sort_keys=True)), True)
        if e is not None:
            ctx.fail(C.Failure("PDFCIDFont could not be built from a well-formed W/W2 array", inp, "a font", exc_line(e),
                               {"group": "fontwidth", "exc": type(e).__name__}))
        elif inp.get("what") == "disp":
            disp = font.char_disp(cid)
            dexp = ((sw[cid][1], sw[cid][2]) if cid in sw else (None, F(dflt[0] if dflt else 880))) if vertical else 0
            ok = disp == 0 if not vertical else (
                isinstance(disp, tuple) and (disp[0] is None) == (dexp[0] is None)
                and (dexp[0] is None or close(dexp[0], disp[0])) and close(dexp[1], disp[1]))
            if not ok:
                ctx.fail(C.Failure("CID font: position vector of a cid differs from the font's own W2/DW2", inp,
                                   str(dexp), repr(disp), {"group": "fontwidth", "vertical": vertical, "what": "disp"}))
        else:
            if vertical:
                exp = sw[cid][0] if cid in sw else F(dflt[1] if dflt else -1000)
            else:
                exp = sw.get(cid, F(dflt if dflt is not None else 1000))
            got = font.char_width(cid) * 1000
            if not close(exp, got):
                ctx.fail(C.Failure("CID font: width of a cid differs from W/DW (W2/DW2)", inp, str(exp), got,
                                   {"group": "fontwidth", "vertical": vertical}))
    elif g == "pen":
        ctx.case(("pen", json.dumps(inp, sort_keys=True)), True)
        from pdfminer.pdfdevice import PDFTextDevice
        from pdfminer.pdffont import PDFCIDFont
        from pdfminer.pdfinterp import PDFResourceManager, PDFTextState
        from pdfminer.psparser import LIT

        class Dev(PDFTextDevice):
            def render_char(self, matrix, font, fontsize, scaling, rise, cid, ncs, graphicstate):
                return font.char_width(cid) * fontsize * (1 if font.is_vertical() else scaling)
        v = inp["vertical"]
        spec = {"Type": LIT("Font"), "Subtype": LIT("CIDFontType2"), "BaseFont": LIT("X"),
                "CIDSystemInfo": {"Registry": b"Adobe", "Ordering": b"Identity", "Supplement": 0},
                "Encoding": LIT("Identity-V" if v else "Identity-H"), "FontDescriptor": {},
                ("DW2" if v else "DW"): [880, inp["w"]] if v else inp["w"]}
        st = PDFTextState()
        st.font, st.fontsize, st.charspace, st.wordspace, st.scaling = PDFCIDFont(None, spec), inp["fs"], inp["tc"], inp["tw"], inp["tz"]
        st.matrix, st.linematrix = (1, 0, 0, 1, 0, 0), (0, 0)
        dev = Dev(PDFResourceManager())
        dev.set_ctm((1, 0, 0, 1, 0, 0))
        dev.render_string(st, [b"".join(c.to_bytes(2, "big") for c in inp["cids"])], None, None)
        got = st.linematrix[1 if v else 0]
        th = F(1) if v else F(inp["tz"]) / 100
        want = sum(((F(inp["w"]) * F(inp["fs"]) / 1000 + F(inp["tc"])) * th for _ in inp["cids"]), F(0))
        if not close(want, got):
            ctx.fail(C.Failure("composite font: pen after a string differs from sum of (w*Tfs/1000 + Tc)[*Th]; word "
                               "spacing must not apply to two-byte codes", inp, str(want), got,
                               {"group": "pen", "vertical": v, "cid32": 32 in inp["cids"], "tw": bool(inp["tw"])}))
    elif g == "tubytes":
        check_tubytes(ctx, b, bytes.fromhex(inp["data"]),
                      [parse_sec_word(w) for w in inp["sections"]] if inp.get("sections") else None, "replay", "replay")
    elif g == "fontglue":
        cfg = {k: v for k, v in inp.items() if k != "cid"}
        lines, meta = [], []
        check_fontglue(ctx, lines, meta, cfg, [inp.get("cid", 0)], "replay")
        flush_glue(ctx, lines, meta)
    elif g == "coding":
        coding_case(ctx, b, bytes.fromhex(inp["registry"]) if inp.get("registry") is not None else None,
                    bytes.fromhex(inp["ordering"]) if inp.get("ordering") is not None else None)
    elif g == "cidsec":
        check_cidsec(ctx, b, secs_from_words(inp["sections"]), "replay")
    elif g == "widths":
        from pdfminer import pdffont
        vertical = inp["vertical"]
        ents = [parse_w2ent_word(w) if vertical else parse_went_word(w) for w in inp["entries"]]
        fn = pdffont.get_widths2 if vertical else pdffont.get_widths
        got, e = call(lambda: fn((render_w2 if vertical else render_w)(ents)))
        spec = spec_widths2(ents) if vertical else spec_widths(ents)
        spec_out = wmap_line({k: ((v[0], (v[1], v[2])) if vertical else v) for k, v in spec.items()})
        impl_out = wmap_line(got) if e is None else exc_line(e)
        ctx.case(("w", tuple(inp["entries"])), True)
        if impl_out != spec_out:
            ctx.fail(C.Failure("get_widths differs from the widths the W array defines", inp, spec_out, impl_out,
                               {"group": "widths", "vertical": vertical}))
    b.flush()


def parse_num_word(w: str):
    return int(w[1:]) if w[0] == "i" else float(F(w[1:]))


def parse_went_word(w: str):
    f = w.split(":")
    if f[0] == "L":
        return ("L", int(f[1]), [parse_num_word(x) for x in f[2].split(",")] if f[2] else [])
    return ("R", int(f[1]), int(f[2]), parse_num_word(f[3]))


def parse_w2ent_word(w: str):
    f = w.split(":")
    t = lambda s: tuple(parse_num_word(x) for x in s.split("|"))  # noqa: E731
    if f[0] == "L":
        return ("L", int(f[1]), [t(x) for x in f[2].split(",")] if f[2] else [])
    return ("R", int(f[1]), int(f[2]), t(f[3]))


def run_corpus(ctx: C.Ctx) -> None:
    for path in sorted(glob.glob(os.path.join(C.VERIF, "corpus", "C07", "*.json"))):
        with open(path) as fp:
            doc = json.load(fp)
        replay(ctx, doc, from_corpus=True)


def run(ctx: C.Ctx) -> None:
    run_corpus(ctx)
    run_seg(ctx)
    run_tounicode(ctx)
    run_widths(ctx)
    run_umapsel(ctx)
    run_fontwidth(ctx)
    run_fontglue(ctx)
    run_pen(ctx)
    run_umapsel_raw(ctx)
    run_cidsec(ctx)
    run_tubytes(ctx)
    run_ttf(ctx)
    run_doc(ctx)
    run_codec(ctx)
