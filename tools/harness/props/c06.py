"""C06 - simple fonts: code -> Unicode / width follow encoding, glyph names, ToUnicode.

Three relations are exercised on every run:
  (tie)   Lean model (lean/PdfVerif/Model/SimpleFont.lean + regenerated tables Gen/FontTables.lean)
          == pdfminer on the same inputs: name2unicode, EncodingDB.get_encoding, UTF-16BE decoding of
          ToUnicode values, and whole font dictionaries inside real PDF files (every code 0-255 shown once)
  (prop)  pdfminer itself against the executable specification (AGL section 2; ToUnicode > encoding >
          (cid:N); Widths > standard-14 metric > MissingWidth; Type3 x FontMatrix) - the specification is
          evaluated twice, by the Lean `spec.*` operations and by an independent Python twin, which must agree
  (proof) lean/PdfVerif/Props/C06.lean: model = spec for ALL names / Differences arrays / font descriptions
"""

from __future__ import annotations

import glob
import io
import json
import os
from fractions import Fraction as F
from typing import Any, Dict, List, Optional, Tuple

import logging

from harness import common as C
from harness import pdfwriter as W

logging.getLogger("pdfminer").setLevel(logging.CRITICAL)

LEVEL = "proof"
RULE = ("name cases: glyph names of every class of the AGL grammar (list names, uniXXXX groups, uXXXX..uXXXXXX, "
        "components, suffixes) and every way of leaving it (wrong length, surrogates, > 10FFFF, lowercase, stray "
        "u/n/i, non-hex tails, unknown names, non-UTF-8); encoding cases: all 256 codes x 4 base encodings + unknown "
        "base names, random Differences (numbers, names, other objects, leading names, negative and > 255 codes); "
        "font cases: random Type1/MMType1/TrueType/Type3 dictionaries (standard-14 and other BaseFonts, Encoding "
        "name/dict/absent, ToUnicode bfchar/bfrange, Widths/FirstChar/MissingWidth, FontMatrix, synthetic Type 1 "
        "FontFile header) inside a real PDF, all 256 codes shown once. A case is non-trivial when it is a distinct "
        "input that leaves the default path (name not a plain list name; Differences non-empty; font with at least "
        "one of Differences/ToUnicode/Widths/FontFile)")
TRUSTED_BASE = [
    "tools/translate/gen_c06.py (Python ast -> Lean tables: latin_enc.ENCODING, glyphlist.glyphname2unicode, "
    "fontmetrics.FONT_METRICS widths + aliases) - every table is also dumped from the Lean driver and compared "
    "with the Python objects on every run",
    "tools/translate/gen_c06.py code part (Gen/FontCode.lean): constants and tests of name2unicode, "
    "raise_key_error_for_invalid_unicode, PDFFont.__init__, handle_undefined_char, add_cid2unichr, the if/elif chain of "
    "get_font, and the check that PDFTrueTypeFont adds nothing to PDFType1Font",
    "lean/PdfVerif/Model/Type1Header.lean on top of the C14/C01 tokeniser model (Lexer.specLex = buffered tokeniser, "
    "proved in C14) - tied by whole fonts and by direct Type1FontHeaderParser runs on generated and damaged headers",
    "hand model lean/PdfVerif/Model/SimpleFont.lean of encodingdb.name2unicode, EncodingDB.get_encoding, "
    "PDFSimpleFont/PDFType1Font/PDFType3Font construction, to_unichr, char_width, FileUnicodeMap.add_cid2unichr, "
    "bfchar/bfrange expansion, UTF-16BE 'ignore' decoding, Type1FontHeaderParser at the level of its `put` pairs "
    "(correspondence-checked through real PDF files)",
    "the harness' PDF/CMap/Type 1 header writers (tools/harness/pdfwriter.py + this file)",
    "exact rationals stand for Python floats (advance compared with relative tolerance 1e-9)",
    "independent data validation: latin_enc.ENCODING against Python's cp1252 / mac_roman / latin-1 / ascii codecs "
    "(documented Annex D footnote exceptions), glyph list against unicodedata (letters, accented letters via NFC, "
    "Greek, digits) and against the uniXXXX rule; this found the wrong WinAnsi 173 row of the pinned tree",
    "tools/harness/props/c06_refdata.json: reference copies of the Adobe Glyph List, the Annex D encoding table and "
    "the core-14 AFM widths (snapshot of the pinned tree) - an edit of a data table is reported against them",
]
ASSUMPTIONS = [
    "font dictionaries are of the modelled shape: Subtype Type1/MMType1/TrueType/Type3 (or absent/unknown -> Type1), "
    "Encoding a name or a dictionary, Differences of integers/names/other direct objects, Widths of numbers, "
    "ToUnicode with bfchar/bfrange sections over 1-2 byte source codes and hex-string (or array of hex-string) "
    "targets, Type3 with FontBBox and a 6-number FontMatrix",
    "embedded Type 1 programs are synthetic clear-text headers, read from their BYTES by model and implementation "
    "(dup/no dup, puts inside procedures, boolean / real keys, strings, comments, #xx escapes, all white-space forms, "
    "other PostScript constructs in between, Length1 exact / beyond / cutting a token, damaged headers); eexec parts, "
    "CFF and TrueType programs are not modelled; headers that are malformed on purpose are judged by the "
    "model/implementation tie only",
    "glyph names with lower-case hexadecimal digits after uni/u (accepted by pdfminer, pinned by its unit tests, "
    "rejected by AGL) and names where only some underscore components are unknown (DESIGN section 7) are outside "
    "the judged domain; they are still part of the model/implementation tie",
    "a ToUnicode CMap that defines the same code twice is judged as 'last definition wins' with pdfminer's "
    "documented space/no-break-space rule (a no-break-space definition does not replace a space) - stated exactly "
    "(tuTextExact) and judged for every map since round 6",
    "the four base encoding tables are data (latin_enc.ENCODING); unknown base encoding names mean StandardEncoding",
    "widths are exact rationals; IEEE rounding is not modelled",
]
STATEMENT_STATUS: Dict[str, str] = {
    "agl_grammar": "proved: name2unicode (model) = AGL section 2 for every glyph list without empty values and every "
                   "judged name (all names except lower-case uni/u hex components and partially unknown components)",
    "agl_all_names_statement": "false for the model and the code; counter-examples proved: agl_lowercase_cex, "
                               "agl_partial_components_cex, agl_all_names_statement_false",
    "enc_overlay": "proved: get_encoding = last Differences assignment to the code, else base table (all tables, all arrays)",
    "enc_text": "proved: encoding as Unicode values = AGL value of the assigned / base-table glyph name (TablesOK)",
    "builtin_text": "proved: built-in encoding of a Type 1 header = AGL value of the last put for the code",
    "encoding_text": "proved: cid2unicode of the constructed font = specification of the font's encoding",
    "C06_unicode_precedence": "proved: ToUnicode entry > encoding > undefined, all codes, all font dictionaries of the "
                              "modelled shape (judged cells)",
    "C06_text_precedence": "proved: LTChar text = ToUnicode entry, else AGL value, else (cid:N) (judged cells)",
    "widths_index": "proved: width dict lookup = Widths[code - FirstChar]",
    "C06_width_precedence": "proved: advance = Widths entry, else standard-14 metric of the character, else "
                            "MissingWidth, times 1/1000 or FontMatrix[0] (judged cells)",
    "type3_scale": "proved: Type3 advance = (Widths entry or MissingWidth) x FontMatrix[0], no hypothesis on the text",
    "agl_grammar_wellformed": "proved: the design's statement - on every name of the grammar name2unicode returns the "
                              "non-empty AGL string (wellFormedName -> judgedName is a proved lemma)",
    "tables_ok": "proved in the kernel for the REGENERATED glyph list / ENCODING rows (decide +kernel with a position "
                 "certificate emitted by the translator); no longer a hypothesis checked by the driver",
    "agl_grammar_pdfminer / C06_text_precedence_pdfminer / C06_width_precedence_pdfminer / modelFont_pdfminer":
        "proved: the precedence theorems for exactly the tables and EncodingDB the driver runs, no table hypothesis left",
    "subtype_dispatch": "proved (by evaluation of the regenerated if/elif chain of get_font): which Subtypes are simple "
                        "fonts and which class they get",
    "code_constants": "proved: the constants regenerated from the source (placeholder text, 1/1000, default encoding, "
                      "surrogate/upper bounds, prefixes, group size, length bounds, separators) are those of the "
                      "specification - an edit of one of them breaks this and the AGL proofs",
    "C06_raw_precedence": "proved: fonts given with the BYTES of the embedded Type 1 program (tokeniser + "
                          "Type1FontHeaderParser stack machine + literal_name decoding) - construction succeeds and "
                          "text/advance are the specified ones whenever the header can be read",
    "C06_raw_precedence_all": "proved: fonts given with the BYTES of the FontFile - construction raises exactly when reading the "
                              "header raises; otherwise text and advance of EVERY code are the specified ones (no judged domain)",
    "header_ignored": "proved: the FontFile bytes have no influence unless the font is non-Type3, non-standard-14 and "
                      "has no Encoding entry",
    "exampleHeader_puts / put_underflow_ignored / odd_dict_raises": "proved by kernel evaluation of the tokeniser model on concrete headers",
    "type3_matrix_usable / type3_matrix_default / type3_scale_default": "proved: PDFType3Font's FontMatrix handling (model type3Matrix, "
        "constants regenerated from the source): six numbers are taken as they are, anything else (absent, not an array, other "
        "length, non-number element) gives 1/1000; the driver receives the entry as written to the file",
    "width_in_range / width_out_of_range": "proved: inside FirstChar..FirstChar+len(Widths)-1 the advance is the Widths entry x scale "
                                           "whatever else the font says; outside (or without Widths) it is the standard-14 metric of "
                                           "the code's character, else MissingWidth, x scale (LastChar is not consulted)",
    "differences_runs / run_numbering": "proved: a Differences array of any number of runs - the i-th name of a run starting at "
                                        "`first` gets code first + i for every i (no stop / wrap at 255, negative starts), "
                                        "the last assignment in whichever run wins, other codes keep the base encoding",
    "name2unicode_exact / name2unicode_exact_pdfminer / pdfminerAgl_judged / pdfminerAgl_deviations":
        "proved: name2unicode on EVERY glyph name = AGL section 2 with exactly two deviations (either-case hexadecimal "
        "digits; a component without a value makes the name undefined); on judged names this is AGL itself",
    "enc_text_all / encoding_text_all / C06_unicode_precedence_all / C06_text_precedence_all / C06_width_precedence_all / "
    "specP_judged / C06_precedence_all_pdfminer":
        "proved: the FULL statements - every font dictionary of the modelled shape, every code, NO judged-domain "
        "hypothesis (glyph names by the exact algorithm, ToUnicode by the exact rule); equal to the property's "
        "specification on the judged cells",
    "tounicode_exact / tounicode_exact_noclash / tounicode_last_wins_cex": "proved: for EVERY ToUnicode map the value of a code is "
        "the most recent definition except that U+00A0 does not replace U+0020; equals 'last wins' without such a pair; "
        "'last wins' proved false in general (documented deviation of pdfminer)",
    "C06_unicode_precedence_exact / C06_text_precedence_exact / C06_width_precedence_exact / judgedCode_exact / width_of_unicode":
        "proved: the precedence theorems with NO exclusion of space/no-break-space maps (judged domain = judged glyph "
        "name only); width_of_unicode holds for every code without hypothesis",
    "utf8_roundtrip / t1_roundtrip_names / npEx_ok": "proved: utf8Chars (utf8Encode cs) = some cs for EVERY character list (1-4 byte "
        "forms, all boundaries, surrogate gap); the Type 1 header round trip is stated over glyph NAMES (any characters, UTF-8, "
        "non-regular bytes #XX-escaped): reading the written header returns exactly (key, name); utf8Encode/utf8Chars are tied to "
        "str.encode / bytes.decode('utf-8') by run_utf8 (incl. damaged encodings), spellName through t1write's name-by-characters form",
    "t1_roundtrip / t1_roundtrip_puts": "proved: for EVERY written header (any leading white space / comments; dup <key> "
                                        "/<name> put lines with signed keys, leading zeros, #xx escapes, any white "
                                        "space / comments between tokens, inert keywords, stray integers) tokeniser + "
                                        "stack machine return exactly the written pairs, no exception (was: "
                                        "kernel-evaluated instances only); rtItems_ok: non-vacuity",
    "getFont_direct / init_fonts_own_dictionary": "proved: PDFPageInterpreter.init_resources (model initFonts) - a font dictionary "
        "written directly (no object id) is never served from / stored in the font cache, and every entry of a /Font resource "
        "dictionary (referenced or direct, any order, cache on or off, any earlier pages) gets the font of ITS OWN dictionary; "
        "judged on the real page path by run_fontres",
    "getFont_transparent / font_cache_transparent": "proved: PDFResourceManager.get_font with or without caching returns "
                                                    "for every request sequence exactly the freshly constructed fonts",
}

CLASSIFIERS = {
    # no open findings at present: every defect found was repaired in the repo worktree
}

PLACEHOLDER = "(cid:%d)"


# Inputs that touch state of the implementation which outlives one call (EncodingDB's class-level tables, the
# resource manager's font cache), in the order they were evaluated in this process.
HISTORY: List[Dict[str, Any]] = []


def standalone_fails(inputs: List[Dict[str, Any]]) -> bool:
    """Run the prelude (all but the last input) on the implementation without judging, then judge the last
    input against the specification.  Used in a FRESH process to make a failure self-contained."""
    for inp in inputs[:-1]:
        try:
            if inp.get("op") == "enc":
                impl_get_encoding(inp["base"], diff_from_json(inp["differences"]))
            elif inp.get("op") == "font":
                impl_fonts([inp["font"]])
        except Exception:  # noqa: BLE001
            pass
    inp = inputs[-1]
    op = inp.get("op")
    if op == "enc":
        diff = diff_from_json(inp["differences"])
        codes = [inp["code"]] if "code" in inp else range(256)
        return any(not enc_cell_ok(inp["base"], diff, c) for c in codes)
    if op == "font":
        return font_first_bad(inp["font"], impl_fonts(inp.get("doc", []) + [inp["font"]])[-1]) is not None
    if op == "table-indep":
        only = (inp["table"].replace("codec-impl", "codec"), inp["key"])
        return any(exp != got for _, _, exp, got in independent_checks(only))
    return True


def fails_in_fresh_process(inputs: List[Dict[str, Any]]) -> Optional[bool]:
    import subprocess
    import sys as _sys
    code = ("import sys, json; sys.path.insert(0, %r); from harness.props import c06; "
            "print('FAILS' if c06.standalone_fails(json.load(sys.stdin)) else 'PASSES')" % C.TOOLS)
    try:
        p = subprocess.run([_sys.executable, "-c", code], input=json.dumps(inputs).encode(), stdout=subprocess.PIPE,
                           stderr=subprocess.DEVNULL, timeout=300)
    except Exception:  # noqa: BLE001
        return None
    out = p.stdout.decode("utf-8", "replace")
    return True if "FAILS" in out else False if "PASSES" in out else None


def isolate(f: C.Failure, upto: int) -> bool:
    """If the failing input does not fail on its own in a fresh process, the failure depends on what the
    implementation was asked before: find a short prelude from this run's history that reproduces it and store
    it with the input, so that the replay file is self-contained.  True = the stored input reproduces."""
    inp = f.input
    if not isinstance(inp, dict) or inp.get("op") not in ("enc", "font", "table-indep"):
        return True
    alone = fails_in_fresh_process([inp])
    if alone is not False:
        return True
    hist = HISTORY[:upto]
    if not hist or fails_in_fresh_process(hist + [inp]) is not True:
        f.tags["state_dependent"] = "not reproduced from this run's history"
        f.what += " [seen only inside this run]"
        return False
    lo, hi = 1, len(hist)          # smallest prefix length that reproduces
    while lo < hi:
        mid = (lo + hi) // 2
        if fails_in_fresh_process(hist[:mid] + [inp]) is True:
            hi = mid
        else:
            lo = mid + 1
    prelude = hist[:lo]
    if fails_in_fresh_process([prelude[-1], inp]) is True:
        prelude = [prelude[-1]]
    inp["prelude"] = prelude
    f.tags["state_dependent"] = "fails only after %d earlier input(s)" % len(prelude)
    f.what += " [depends on earlier calls: state carried across calls]"
    return True


_ISO_DONE: Dict[str, bool] = {}
_ISO_SUFFIX: Dict[str, str] = {}
_ISO_TRIES = [0]


def cfail(ctx: C.Ctx, f: C.Failure) -> None:
    """ctx.fail with a cap per kind of failure, so that one noisy kind cannot crowd out the others; for each
    kind, failures are checked in a fresh process until one is self-contained (see `isolate`)."""
    base = f.what
    k = sum(1 for g in ctx.failures if g.what.split(" [")[0] == base)
    if k >= 20:
        return
    if not _ISO_DONE.get(base) and _ISO_TRIES[0] < 12:
        _ISO_TRIES[0] += 1
        _ISO_DONE[base] = isolate(f, len(HISTORY))
        if _ISO_DONE[base]:
            # make sure this self-contained failure is the one reported for its kind
            _ISO_SUFFIX[base] = f.what[len(base):]
            for g in ctx.failures:
                if g.what == base:
                    g.what = f.what
            ctx.failures.insert(0, f)
            return
    f.what = base + _ISO_SUFFIX.get(base, "")
    ctx.fail(f)


# ---------------------------------------------------------------------------------------------
# data (read from the implementation under test as *data*; the tables are tied to Lean separately)

_DATA: Dict[str, Any] = {}


def data():
    if not _DATA:
        from pdfminer.glyphlist import glyphname2unicode
        from pdfminer.latin_enc import ENCODING
        from pdfminer.fontmetrics import FONT_METRICS
        _DATA["gl"] = dict(glyphname2unicode)
        _DATA["glnames"] = sorted(glyphname2unicode)
        _DATA["enc"] = list(ENCODING)
        _DATA["fm"] = {k: dict(v[1]) for k, v in FONT_METRICS.items()}
    return _DATA


ENC_NAMES = ["StandardEncoding", "MacRomanEncoding", "WinAnsiEncoding", "PDFDocEncoding"]
ENC_COL = {"StandardEncoding": 1, "MacRomanEncoding": 2, "WinAnsiEncoding": 3, "PDFDocEncoding": 4}

# ---------------------------------------------------------------------------------------------
# executable specification, Python twin (independent of pdfminer's code; uses only the data tables)

UHEX = set("0123456789ABCDEF")
AHEX = set("0123456789ABCDEFabcdef")


def _scalar(v: int) -> bool:
    return 0 <= v <= 0xD7FF or 0xE000 <= v <= 0x10FFFF


def agl_component(c: str) -> str:
    gl = data()["gl"]
    if c in gl:
        return gl[c]
    if c.startswith("uni"):
        r = c[3:]
        if r and all(ch in UHEX for ch in r) and len(r) % 4 == 0:
            vals = [int(r[i:i + 4], 16) for i in range(0, len(r), 4)]
            if all(_scalar(v) for v in vals):
                return "".join(map(chr, vals))
        # AGL: a component that fails the uni rule is still tried against the u rule
    if c.startswith("u"):
        r = c[1:]
        if 4 <= len(r) <= 6 and all(ch in UHEX for ch in r):
            v = int(r, 16)
            if _scalar(v):
                return chr(v)
    return ""


def agl_spec(name: Optional[str]) -> str:
    """AGL specification section 2 (without the Zapf Dingbats clause).  '' = no Unicode value."""
    if name is None:
        return ""
    base = name.split(".")[0] if "." in name else name
    return "".join(agl_component(c) for c in base.split("_"))


def agl_exact_component(c: str) -> str:
    """One component under pdfminer's documented deviation (D1): hexadecimal digits of either case."""
    gl = data()["gl"]
    if c in gl:
        return gl[c]
    if c.startswith("uni"):
        r = c[3:]
        if r and all(ch in AHEX for ch in r) and len(r) % 4 == 0:
            vals = [int(r[i:i + 4], 16) for i in range(0, len(r), 4)]
            if all(_scalar(v) for v in vals):
                return "".join(map(chr, vals))
    if c.startswith("u"):
        r = c[1:]
        if 4 <= len(r) <= 6 and all(ch in AHEX for ch in r):
            v = int(r, 16)
            if _scalar(v):
                return chr(v)
    return ""


def agl_exact(name: Optional[str]) -> str:
    """The exact algorithm of theorem `name2unicode_exact` (Lean `pdfminerAgl`), written independently: AGL section 2
    with (D1) either-case hexadecimal digits and (D2) a component without a value makes the name undefined ('')."""
    if name is None:
        return ""
    vals = [agl_exact_component(c) for c in name.split(".")[0].split("_")]
    return "" if any(v == "" for v in vals) else "".join(vals)


def _lenient_component(c: str) -> bool:
    gl = data()["gl"]
    if c in gl:
        return False
    for p in ("uni", "u"):
        if c.startswith(p):
            r = c[len(p):]
            if r and all(ch in AHEX for ch in r) and any(ch in "abcdef" for ch in r):
                return True
    return False


def agl_domain(name: Optional[str]) -> bool:
    """Judged domain of the name-level oracle (see ASSUMPTIONS)."""
    if name is None:
        return True
    base = name.split(".")[0]
    comps = base.split("_")
    if any(_lenient_component(c) for c in comps):
        return False
    if len(comps) > 1:
        vals = [agl_component(c) for c in comps]
        if any(v == "" for v in vals) and any(v != "" for v in vals):
            return False
    return True


def spec_base_table(encname: str) -> Dict[int, str]:
    col = ENC_COL.get(encname, 1)
    t: Dict[int, str] = {}
    for row in data()["enc"]:
        code = row[col]
        if code:
            t[code] = row[0]          # glyph NAME; the last row for a code wins
    return t


def spec_code_name(encname: str, diff: List[Any], code: int) -> Tuple[Optional[Any], bool]:
    """Glyph name of `code`: the LAST Differences assignment to it, else the base table.
    Returns (name | None, from_differences).  Names are ('s', str) / ('b', bytes)."""
    assigned = None
    cur = 0
    for x in diff:
        if isinstance(x, int):
            cur = x
        elif isinstance(x, tuple) and x[0] in ("s", "b"):
            if cur == code:
                assigned = x
            cur += 1
    if assigned is not None:
        return assigned, True
    nm = spec_base_table(encname).get(code)
    return (("s", nm) if nm is not None else None), False


def utf16be_ignore(b: bytes) -> str:
    """UTF-16BE with errors ignored, written out (twin of the Lean function; checked against the codec)."""
    out = []
    i = 0
    n = len(b)
    while i + 1 < n:
        u = b[i] * 256 + b[i + 1]
        if u < 0xD800 or u > 0xDFFF:
            out.append(chr(u))
            i += 2
        elif u <= 0xDBFF:
            if i + 3 < n:
                v = b[i + 2] * 256 + b[i + 3]
                if 0xDC00 <= v <= 0xDFFF:
                    out.append(chr(0x10000 + ((u - 0xD800) << 10) + (v - 0xDC00)))
                    i += 4
                else:
                    i += 2
            else:
                break
        else:
            i += 2
    return "".join(out)


def be(b: bytes) -> int:
    return int.from_bytes(b, "big") if b else 0


def expand_tounicode(entries) -> Tuple[Dict[int, str], bool]:
    """Specification of a ToUnicode map: list of (code, text) definitions; the last definition of a code wins,
    except (pdfminer's documented rule, stated exactly in Lean as `tuTextExact`) that a definition as
    no-break space does not replace a space.  Every map is judged (second result always True)."""
    defs: List[Tuple[int, str]] = []

    def put(code, raw):
        defs.append((code, utf16be_ignore(raw)))

    for e in entries:
        if e[0] == "c":
            put(be(bytes.fromhex(e[1])), bytes.fromhex(e[2]))
        elif e[0] == "r":
            lo, hi, dst = bytes.fromhex(e[1]), bytes.fromhex(e[2]), bytes.fromhex(e[3])
            if len(lo) != len(hi):
                continue
            var = dst[-4:]
            for i in range(be(hi) - be(lo) + 1):
                x = dst[:-4] + ((be(var) + i) % (1 << 32)).to_bytes(4, "big")[4 - len(var):]
                put(be(lo) + i, x)
        elif e[0] == "a":
            lo, hi = bytes.fromhex(e[1]), bytes.fromhex(e[2])
            if len(lo) != len(hi):
                continue
            for code, d in zip(range(be(lo), be(hi) + 1), e[3]):
                put(code, bytes.fromhex(d))
    eff: Dict[int, str] = {}
    for c, t in defs:
        if t == "\u00a0" and eff.get(c) == " ":
            continue
        eff[c] = t
    return eff, True


def name_of_tok(t) -> Optional[str]:
    """('s', str) -> the str; ('b', bytes) -> None (not a text name: no Unicode value)."""
    return t[1] if t[0] == "s" else None


def dec_name(hexs: str):
    b = bytes.fromhex(hexs)
    try:
        return ("s", b.decode("utf-8"))
    except UnicodeDecodeError:
        return ("b", b)


def diff_from_json(toks) -> List[Any]:
    out: List[Any] = []
    for t in toks:
        if isinstance(t, int):
            out.append(t)
        elif t[0] == "n":
            out.append(dec_name(t[1]))
        else:
            out.append(("o",))
    return out


STD_SUBTYPES = ("Type1", "MMType1", "TrueType")


def font_spec_eval(fs: Dict[str, Any]) -> List[Tuple[Optional[str], Optional[F]]]:
    """The property, evaluated on a font description: per code (text, advance); None = not judged."""
    d = data()
    is_t3 = fs["subtype"] == "Type3"
    basefont = None
    if not is_t3:
        basefont = bytes.fromhex(fs["basefont"]).decode("utf-8", "replace") if fs["basefont"] is not None else "unknown"
    std14 = d["fm"].get(basefont) if basefont is not None else None
    enc = fs["enc"]
    desc = fs["desc"]
    builtin = None
    if (not is_t3) and enc is None and std14 is None and desc is not None and desc.get("ff") is not None:
        builtin = desc["ff"]
    if enc is None:
        encname, diff = "StandardEncoding", []
    elif enc[0] == "name":
        encname, diff = bytes.fromhex(enc[1]).decode("utf-8", "replace"), []
    else:
        encname = bytes.fromhex(enc[1]).decode("utf-8", "replace") if enc[1] is not None else "StandardEncoding"
        diff = diff_from_json(enc[2])
    tu, tu_judged = expand_tounicode(fs["tu"]) if fs["tu"] is not None else ({}, True)
    widths = [F(w) for w in fs["widths"]] if fs["widths"] is not None else None
    fc = fs["fc"] if fs["fc"] is not None else 0
    mw = F(0)
    if desc is not None and desc.get("mw") is not None and (is_t3 or True):
        mw = F(desc["mw"])
    # a Type3 font without (usable) FontMatrix: the usual glyph space of 1/1000
    scale = F(fs["fm"][0]) if is_t3 and fs["fm"] is not None else F(1, 1000)
    out: List[Tuple[Optional[str], Optional[F]]] = []
    for code in range(256):
        judged = tu_judged
        if code in tu:
            text: Optional[str] = tu[code]
        else:
            if builtin is not None:
                nm = None
                for (c, tok) in ff_intent(builtin):
                    if c == code:
                        nm = tok
            else:
                nm, _ = spec_code_name(encname, diff, code)
            if nm is None:
                text = None
            else:
                s = name_of_tok(nm)
                # every glyph name is judged (round 6): the exact algorithm; inside the AGL domain it IS AGL
                t = agl_exact(s)
                if agl_domain(s) and t != agl_spec(s):
                    t = agl_spec(s)           # cannot happen (theorem pdfminerAgl_judged); keeps the AGL oracle in force
                text = t if t != "" else None
        shown = text if text is not None else PLACEHOLDER % code
        # advance
        w: Optional[F] = None
        if widths is not None and 0 <= code - fc < len(widths):
            w = widths[code - fc]
        elif std14 is not None and text is not None and text in std14:
            w = F(std14[text])
        else:
            w = mw
        out.append((shown if judged else None, (w * scale) if judged else None))
    return out


# ---------------------------------------------------------------------------------------------
# canonical text forms shared with the Lean driver

def cps(s: str) -> str:
    return ",".join("%x" % ord(ch) for ch in s) if s else "-"


def name_arg(tok) -> str:
    if tok[0] == "s":
        return "s" + C.hx(tok[1].encode("utf-8"))
    return "b" + C.hx(tok[1])


def diff_args(diff: List[Any]) -> str:
    ws = [str(len(diff))]
    for x in diff:
        if isinstance(x, int):
            ws.append("i%d" % x)
        elif x[0] in ("s", "b"):
            ws.append("n" + name_arg(x))
        else:
            ws.append("x")
    return " ".join(ws)


def font_line(fs: Dict[str, Any]) -> str:
    ws = [fs["subtype"], "-" if fs["basefont"] is None else "s" + (fs["basefont"] or "-")]
    enc = fs["enc"]
    if enc is None:
        ws += ["E", "none"]
    elif enc[0] == "name":
        ws += ["E", "name", name_arg(dec_name(enc[1]))]
    else:
        ws += ["E", "dict", "-" if enc[1] is None else name_arg(dec_name(enc[1])), diff_args(diff_from_json(enc[2]))]
    if fs["tu"] is None:
        ws += ["U", "none"]
    else:
        ws += ["U", str(len(fs["tu"]))]
        for e in fs["tu"]:
            if e[0] == "c":
                ws.append("c:%s:%s" % (e[1] or "-", e[2] or "-"))
            elif e[0] == "r":
                ws.append("r:%s:%s:%s" % (e[1] or "-", e[2] or "-", e[3] or "-"))
            else:
                ws.append("a:%s:%s:%s" % (e[1] or "-", e[2] or "-", ";".join(x or "-" for x in e[3]) or "."))
    ws += ["W", "-" if fs["fc"] is None else str(fs["fc"])]
    if fs["widths"] is None:
        ws.append("none")
    else:
        ws.append(str(len(fs["widths"])))
        ws += [C.frac_str(F(w)) for w in fs["widths"]]
    desc = fs["desc"]
    if desc is None:
        ws += ["D", "0"]
    else:
        ws += ["D", "1", "-" if desc.get("mw") is None else C.frac_str(F(desc["mw"]))]
        ff = desc.get("ff")
        if ff is None:
            ws += ["F", "none"]
        else:
            data_, l1 = type1_header(ff)
            ws += ["F", "-" if l1 is None else str(l1), C.hx(data_)]
    # the FontMatrix entry as it is written to the file; the MODEL decides whether it is usable (type3Matrix)
    if fs["fm"] is not None:
        ws += ["M", "["] + [C.frac_str(F(x)) for x in fs["fm"]] + ["]"]
    elif fs.get("t3_badmatrix") is not None and fs["subtype"] == "Type3":
        bm = fs["t3_badmatrix"]
        if isinstance(bm, list):
            ws += ["M", "["] + [C.frac_str(F(x)) if isinstance(x, (int, F)) or (isinstance(x, str) and "/" in x) else "x"
                                for x in bm] + ["]"]
        else:
            ws += ["M", "notlist"]
    else:
        ws += ["M", "none"]
    return " ".join(ws)


# ---------------------------------------------------------------------------------------------
# implementation adapters

def impl_name2unicode(tok) -> str:
    from pdfminer.encodingdb import name2unicode
    try:
        return "V " + cps(name2unicode(tok[1]))
    except KeyError:
        return "E key"
    except Exception as e:  # noqa: BLE001
        return "EXC:" + type(e).__name__


def impl_get_encoding(encname: str, diff: List[Any]) -> str:
    from pdfminer.encodingdb import EncodingDB
    from pdfminer.psparser import LIT
    d = []
    for x in diff:
        if isinstance(x, int):
            d.append(x)
        elif x[0] in ("s", "b"):
            d.append(LIT(x[1]))
        else:
            d.append(1.5)
    try:
        t = EncodingDB.get_encoding(encname, d)
    except Exception as e:  # noqa: BLE001
        return "EXC:" + type(e).__name__
    return " ".join(cps(t[c]) if c in t else "~" for c in range(256))


def show_table(t: Dict[int, str]) -> str:
    return " ".join(cps(t[c]) if c in t else "~" for c in range(256))


CMAP_HEAD = (b"/CIDInit /ProcSet findresource begin\n12 dict begin\nbegincmap\n"
             b"/CIDSystemInfo << /Registry (Adobe) /Ordering (UCS) /Supplement 0 >> def\n"
             b"/CMapName /Adobe-Identity-UCS def\n/CMapType 2 def\n"
             b"1 begincodespacerange\n<00> <FF>\nendcodespacerange\n")
CMAP_TAIL = b"endcmap\nCMapName currentdict /CMap defineresource pop\nend\nend\n"


def cmap_bytes(entries) -> bytes:
    out = [CMAP_HEAD]
    i = 0
    while i < len(entries):
        kind = "c" if entries[i][0] == "c" else "r"
        j = i
        while j < len(entries) and ("c" if entries[j][0] == "c" else "r") == kind and j - i < 100:
            j += 1
        out.append(b"%d %s\n" % (j - i, b"beginbfchar" if kind == "c" else b"beginbfrange"))
        for e in entries[i:j]:
            if e[0] == "c":
                out.append(b"<%s> <%s>\n" % (e[1].encode(), e[2].encode()))
            elif e[0] == "r":
                out.append(b"<%s> <%s> <%s>\n" % (e[1].encode(), e[2].encode(), e[3].encode()))
            else:
                out.append(b"<%s> <%s> [%s]\n" % (e[1].encode(), e[2].encode(),
                                                 b" ".join(b"<" + x.encode() + b">" for x in e[3])))
        out.append(b"endbfchar\n" if kind == "c" else b"endbfrange\n")
        i = j
    out.append(CMAP_TAIL)
    return b"".join(out)


T1_SEPS = [b" ", b"\n", b"\t", b"\r\n", b"  ", b"\x0c", b" \n "]
T1_EXTRAS = [b"/FontBBox {0 -200 1000 800} readonly def\n",
             b"/Private 5 dict dup begin /BlueValues [-10 0 500 510] def end\n",
             b"(put \\) put) pop\n", b"<48656C6C6F> pop\n", b"0.001 0 0 0.001 0 0 6 array astore pop\n",
             b"<< /A 1 /B [1 2] >> pop\n", b"/put /notakeyword def\n", b"[ 1 2 3 ] pop\n", b"/PaintType 0 def\n"]


def ff_entry_kind(e) -> str:
    return e[2] if len(e) > 2 else "dup"


def ff_tie_only(ff) -> bool:
    """Headers that are malformed on purpose (or cut inside a token by Length1): model/implementation tie only.
    (`put` without operands is NOT malformed any more: the integrated code ignores it, and so must the oracle.)"""
    return ff.get("malformed") == "odd-dict" or ff.get("l1") == "cut"


def ff_intent(ff) -> List[Tuple[int, Any]]:
    """What the header MEANS (independent of any tokeniser): the (code, name) assignments in order.
    The `.notdef` loop is scanned by pdfminer as one put under key 1 (harmless: `.notdef` has no value)."""
    out: List[Tuple[int, Any]] = []
    if ff.get("notdef_loop"):
        out.append((1, ("s", ".notdef")))
    for e in ff["puts"]:
        k = ff_entry_kind(e)
        if k in ("dup", "nodup", "proc"):
            out.append((e[0], dec_name(e[1])))
        elif k == "true":
            out.append((1, dec_name(e[1])))
        elif k == "false":
            out.append((0, dec_name(e[1])))
        # "real" (a real-number key) and "str" (a string instead of a name) assign nothing
    if ff.get("tail") and ff.get("l1") in ("beyond", "absent"):
        out += [(65, ("s", "Z")), (66, ("s", "Y"))]
    return out


def t1_name(h: str, escape: bool) -> bytes:
    b = bytes.fromhex(h)
    n = W.ser_name(b)
    if escape and b and b[0] in W.REGULAR:
        n = b"/#%02X" % b[0] + W.ser_name(b[1:])[1:]
    return n


def type1_header(ff) -> Tuple[bytes, Optional[int]]:
    sep = T1_SEPS[ff.get("sep", 0) % len(T1_SEPS)]
    esc = bool(ff.get("escape"))
    out = [b"%!PS-AdobeFont-1.0: Synth 001.001\n"]
    if ff.get("malformed") == "put-underflow":
        out.append(b"put\n")
    out.append(b"11 dict begin\n/FontName /Synth def\n/Encoding 256 array\n")
    if ff.get("notdef_loop"):
        out.append(b"0 1 255 {1 index exch /.notdef put} for\n")
    for i, e in enumerate(ff["puts"]):
        k = ff_entry_kind(e)
        nm = t1_name(e[1], esc and i % 2 == 0)
        if k == "dup":
            toks = [b"dup", b"%d" % e[0], nm, b"put"]
        elif k == "nodup":
            toks = [b"%d" % e[0], nm, b"put"]
        elif k == "proc":
            toks = [b"{", b"%d" % e[0], nm, b"put", b"}", b"pop"]
        elif k in ("true", "false"):
            toks = [b"dup", k.encode(), nm, b"put"]
        elif k == "real":
            toks = [b"dup", b"%d.0" % e[0], nm, b"put"]
        else:  # "str"
            toks = [b"dup", b"%d" % e[0], W.ser_string(bytes.fromhex(e[1])), b"put"]
        out.append(sep.join(toks) + b"\n")
        if ff.get("comments") and i % 3 == 0:
            out.append(b"% dup 70 /Z put\n")
        if ff.get("extras") and i % 4 == 1:
            out.append(T1_EXTRAS[(i + ff.get("sep", 0)) % len(T1_EXTRAS)])
    if ff.get("malformed") == "odd-dict":
        out.append(b"<< /A >>\n")
    out.append(b"readonly def\ncurrentdict end\ncurrentfile eexec\n")
    head = b"".join(out)
    # bytes after Length1 must not be read as part of the clear-text header
    tail = b"dup 65 /Z put\ndup 66 /Y put\n" if ff.get("tail") else b""
    l1: Optional[int] = len(head)
    if ff.get("l1") == "absent":
        l1 = None
    elif ff.get("l1") == "beyond":
        l1 = len(head) + len(tail) + 10
    elif ff.get("l1") == "cut":
        l1 = max(0, len(head) - 25)
    return head + tail, l1


def font_objects(fs: Dict[str, Any], n0: int) -> Tuple[Dict[int, Any], int]:
    """PDF objects of one font; returns (objects, object number of the font dictionary)."""
    objs: Dict[int, Any] = {}
    n = n0
    f: Dict[str, Any] = {"Type": "Font"}
    if fs["subtype"] != "absent":
        f["Subtype"] = fs["subtype"]
    if fs["basefont"] is not None:
        f["BaseFont"] = W.Name(bytes.fromhex(fs["basefont"]))
    enc = fs["enc"]
    if enc is not None:
        if enc[0] == "name":
            f["Encoding"] = W.Name(bytes.fromhex(enc[1]))
        else:
            e: Dict[str, Any] = {"Type": "Encoding"}
            if enc[1] is not None:
                e["BaseEncoding"] = W.Name(bytes.fromhex(enc[1]))
            dl = []
            for t in enc[2]:
                if isinstance(t, int):
                    dl.append(t)
                elif t[0] == "n":
                    dl.append(W.Name(bytes.fromhex(t[1])))
                else:
                    dl.append(F(3, 2))
            if enc[2] or fs.get("emptydiff"):
                e["Differences"] = dl
            if fs.get("enc_indirect"):
                objs[n] = e
                f["Encoding"] = W.Ref(n)
                n += 1
            else:
                f["Encoding"] = e
    if fs["tu"] is not None:
        objs[n] = W.Stream({}, cmap_bytes(fs["tu"]))
        f["ToUnicode"] = W.Ref(n)
        n += 1
    if fs["fc"] is not None:
        f["FirstChar"] = fs["fc"]
    if fs["widths"] is not None:
        ws = [int(F(w)) if F(w).denominator == 1 else F(w) for w in fs["widths"]]
        f["Widths"] = ws
        if fs["fc"] is not None:
            f["LastChar"] = fs["fc"] + len(ws) - 1 + fs.get("lastchar_off", 0)
    desc = fs["desc"]
    if desc is not None:
        dd: Dict[str, Any] = {"Type": "FontDescriptor", "FontName": f.get("BaseFont", W.Name(b"T3")), "Flags": 32,
                              "FontBBox": [0, -200, 1000, 800], "Ascent": 800, "Descent": -200}
        if desc.get("mw") is not None:
            m = F(desc["mw"])
            dd["MissingWidth"] = int(m) if m.denominator == 1 else m
        if desc.get("ff") is not None:
            data_, l1 = type1_header(desc["ff"])
            objs[n] = W.Stream({"Length3": 0} if l1 is None else
                               {"Length1": l1, "Length2": len(data_) - l1, "Length3": 0}, data_)
            dd["FontFile"] = W.Ref(n)
            n += 1
        objs[n] = dd
        f["FontDescriptor"] = W.Ref(n)
        n += 1
    if fs["subtype"] == "Type3":
        if not fs.get("t3_nobbox"):
            f["FontBBox"] = [0, -200, 1000, 800]
        if fs["fm"] is not None:
            f["FontMatrix"] = [int(F(x)) if F(x).denominator == 1 else F(x) for x in fs["fm"]]
        elif fs.get("t3_badmatrix"):
            f["FontMatrix"] = fs["t3_badmatrix"]
        f["CharProcs"] = {}
    objs[n] = f
    return objs, n


ALL_CODES = b"BT /F1 1 Tf <" + bytes(range(256)).hex().encode() + b"> Tj ET"


def fonts_pdf(fss: List[Dict[str, Any]]) -> Tuple[bytes, List[int]]:
    """One page per font, followed by a second visit of every third font (same font OBJECT again, in reverse
    order), so that PDFResourceManager's font cache is exercised.  Returns (pdf, font index of each page)."""
    objs: Dict[int, Any] = {1: {"Type": "Catalog", "Pages": W.Ref(2)}, 3: W.Stream({}, ALL_CODES)}
    kids = []
    order: List[int] = []
    frefs: List[int] = []
    n = 10
    for i, fs in enumerate(fss):
        fo, fref = font_objects(fs, n)
        objs.update(fo)
        frefs.append(fref)
        n = fref + 1
    for i in list(range(len(fss))) + [i for i in reversed(range(len(fss))) if i % 3 == 0]:
        objs[n] = {"Type": "Page", "Parent": W.Ref(2), "Contents": W.Ref(3),
                   "Resources": {"Font": {"F1": W.Ref(frefs[i])}}, "MediaBox": [0, 0, 612, 792]}
        kids.append(W.Ref(n))
        order.append(i)
        n += 1
    objs[2] = {"Type": "Pages", "Kids": kids, "Count": len(kids)}
    return W.build_pdf(objs, 1), order


def _impl_fonts_once(pdf: bytes, order: List[int], n: int, caching: bool) -> List[Any]:
    from pdfminer.converter import PDFPageAggregator
    from pdfminer.layout import LTChar
    from pdfminer.pdfdocument import PDFDocument
    from pdfminer.pdfinterp import PDFPageInterpreter, PDFResourceManager
    from pdfminer.pdfpage import PDFPage
    from pdfminer.pdfparser import PDFParser
    doc = PDFDocument(PDFParser(io.BytesIO(pdf)))
    rm = PDFResourceManager(caching=caching)
    dev = PDFPageAggregator(rm, laparams=None)
    interp = PDFPageInterpreter(rm, dev)
    out: List[Any] = [None] * n
    for k, page in enumerate(PDFPage.create_pages(doc)):
        i = order[k]
        try:
            interp.process_page(page)
            res: Any = [(c.get_text(), c.adv) for c in dev.get_result() if isinstance(c, LTChar)]
        except Exception as e:  # noqa: BLE001
            res = "EXC:" + type(e).__name__
        if out[i] is None:
            out[i] = res
        elif out[i] != res:
            out[i] = "DIFF:revisit"
    return [o if o is not None else "EXC:missing-page" for o in out]


def impl_fonts(fss: List[Dict[str, Any]]) -> List[Any]:
    """Per font: list of 256 (text, adv) read from LTChar, or 'EXC:Type', or 'DIFF:revisit' when a later use of
    the same font object (or the run without font cache) gives other glyphs.  One resource manager / device /
    interpreter per DOCUMENT, as in normal use.  Large documents are read with the font cache on or off
    depending on their content (deterministic), small ones (replays, shrinking) both ways."""
    import hashlib
    pdf, order = fonts_pdf(fss)
    if len(fss) <= 8:
        a = _impl_fonts_once(pdf, order, len(fss), True)
        b = _impl_fonts_once(pdf, order, len(fss), False)
        return [x if x == y else "DIFF:revisit" for x, y in zip(a, b)]
    return _impl_fonts_once(pdf, order, len(fss), hashlib.sha1(pdf).digest()[0] % 2 == 0)


# ---------------------------------------------------------------------------------------------
# /Font resource dictionaries with SEVERAL fonts - by reference and as direct (inline) dictionaries, in any order,
# on pages and in form XObjects, several pages sharing one resource manager, font cache on and off: each font's
# codes must be what ITS dictionary defines, judged through the real page path (PDFPageInterpreter.init_resources)

def fontres_pdf(doc: Dict[str, Any]) -> bytes:
    """doc = {"fonts": [fs...], "pages": [{"slots": [[font index, inline?], ...], "form": bool}, ...]}.
    A referenced font index is ONE object shared by every page that refers to it; an inline slot writes the font
    dictionary directly into the resource dictionary.  Page content: every slot in turn shows all 256 codes."""
    objs: Dict[int, Any] = {1: {"Type": "Catalog", "Pages": W.Ref(2)}}
    n = 10
    fdicts: List[Any] = []
    frefs: List[int] = []
    for fs in doc["fonts"]:
        fo, fref = font_objects(fs, n)
        objs.update(fo)
        frefs.append(fref)
        fdicts.append(fo[fref])
        n = fref + 1
    kids = []
    for pg in doc["pages"]:
        fontres: Dict[str, Any] = {}
        content = b"BT"
        for k, (fi, inline) in enumerate(pg["slots"]):
            fontres["F%d" % k] = dict(fdicts[fi]) if inline else W.Ref(frefs[fi])
            content += b" /F%d 1 Tf <" % k + bytes(range(256)).hex().encode() + b"> Tj"
        content += b" ET"
        if pg.get("form"):
            objs[n] = W.Stream({"Type": "XObject", "Subtype": "Form", "BBox": [0, 0, 612, 792],
                                "Resources": {"Font": fontres}}, content)
            objs[n + 1] = W.Stream({}, b"/X0 Do")
            res: Dict[str, Any] = {"XObject": {"X0": W.Ref(n)}}
            cref = n + 1
            n += 2
        else:
            objs[n] = W.Stream({}, content)
            res = {"Font": fontres}
            cref = n
            n += 1
        objs[n] = {"Type": "Page", "Parent": W.Ref(2), "Contents": W.Ref(cref), "Resources": res,
                   "MediaBox": [0, 0, 612, 792]}
        kids.append(W.Ref(n))
        n += 1
    objs[2] = {"Type": "Pages", "Kids": kids, "Count": len(kids)}
    return W.build_pdf(objs, 1)


def impl_fontres(doc: Dict[str, Any], caching: bool) -> List[Any]:
    """Per page: list (one per slot) of 256 (text, adv), or 'EXC:Type' / 'COUNT:n' for the page."""
    from pdfminer.converter import PDFPageAggregator
    from pdfminer.layout import LTChar, LTFigure
    from pdfminer.pdfdocument import PDFDocument
    from pdfminer.pdfinterp import PDFPageInterpreter, PDFResourceManager
    from pdfminer.pdfpage import PDFPage
    from pdfminer.pdfparser import PDFParser
    d = PDFDocument(PDFParser(io.BytesIO(fontres_pdf(doc))))
    rm = PDFResourceManager(caching=caching)
    dev = PDFPageAggregator(rm, laparams=None)
    interp = PDFPageInterpreter(rm, dev)
    out: List[Any] = []

    def chars(item, acc):
        if isinstance(item, LTChar):
            acc.append((item.get_text(), item.adv))
        elif isinstance(item, LTFigure) or hasattr(item, "__iter__"):
            for ch in item:
                chars(ch, acc)

    for pg, page in zip(doc["pages"], PDFPage.create_pages(d)):
        try:
            interp.process_page(page)
            acc: List[Any] = []
            chars(dev.get_result(), acc)
            if len(acc) != 256 * len(pg["slots"]):
                out.append("COUNT:%d" % len(acc))
            else:
                out.append([acc[256 * k:256 * (k + 1)] for k in range(len(pg["slots"]))])
        except Exception as e:  # noqa: BLE001
            out.append("EXC:" + type(e).__name__)
    return out


def fontres_first_bad(doc: Dict[str, Any], caching: bool) -> Optional[Tuple[int, int, Any]]:
    """(page, slot, font_first_bad result) of the first slot whose glyphs are not what its OWN dictionary defines."""
    try:
        res = impl_fontres(doc, caching)
    except Exception as e:  # noqa: BLE001
        return (-1, -1, (-1, "exception", "pages", "EXC:" + type(e).__name__))
    for pi, (pg, r) in enumerate(zip(doc["pages"], res)):
        if any(font_tie_only(doc["fonts"][fi]) for fi, _ in pg["slots"]):
            # a font whose embedded header is malformed on purpose and is actually read: exactly as in the direct-font
            # groups (`font_first_bad`) there is no property oracle - construction may raise (theorem odd_dict_raises)
            # and then the whole page raises; such pages are not judged
            continue
        if isinstance(r, str):
            return (pi, -1, (-1, "exception" if r.startswith("EXC") else "count", "256 glyphs per font", r))
        for k, (fi, _inline) in enumerate(pg["slots"]):
            bad = font_first_bad(doc["fonts"][fi], r[k])
            if bad is not None:
                return (pi, k, bad)
    return None


def gen_fontres_doc(rng) -> Tuple[Dict[str, Any], List[str]]:
    kinds: List[str] = []
    fonts: List[Dict[str, Any]] = []
    while len(fonts) < rng.randint(2, 4):
        fs, _ = gen_font(rng, force=rng.choice(["Type1", "TrueType", "Type3", "MMType1", None]))
        if font_tie_only(fs):
            continue
        fs.pop("enc_indirect", None)
        if fonts and rng.random() < 0.35:
            # same BaseFont (and sometimes the same Encoding / Widths) as an earlier font of the document
            o = rng.choice(fonts)
            if fs["subtype"] != "Type3" and o["subtype"] != "Type3":
                fs["basefont"] = o["basefont"]
                kinds.append("fontres:same-basefont")
                if rng.random() < 0.5:
                    fs["enc"] = o["enc"]
                    kinds.append("fontres:same-encoding")
                if rng.random() < 0.3:
                    fs["widths"], fs["fc"] = o["widths"], o["fc"]
        if font_tie_only(fs):
            # sharing BaseFont / Encoding can turn a header that was not read (standard-14 name, Encoding entry) into one
            # that is read: re-check, as the direct-font groups judge
            kinds.append("fontres:tie-only-after-sharing-dropped")
            continue
        fonts.append(fs)
    pages = []
    for _ in range(rng.randint(1, 3)):
        slots = []
        for _ in range(rng.randint(1, 4)):
            slots.append([rng.randrange(len(fonts)), rng.random() < 0.45])
        if rng.random() < 0.5 and len(slots) >= 2:
            slots[0][1], slots[1][1] = False, True           # a referenced font, then an inline one
        elif rng.random() < 0.3 and len(slots) >= 2:
            slots[0][1], slots[1][1] = True, False           # the other order
        pages.append({"slots": slots, "form": rng.random() < 0.25})
    for pg in pages:
        seq = "".join("I" if i else "R" for _, i in pg["slots"])
        kinds.append("fontres:" + ("form:" if pg["form"] else "page:") + seq)
        if "RI" in seq:
            kinds.append("fontres:inline-after-referenced")
        if "IR" in seq:
            kinds.append("fontres:referenced-after-inline")
        if "II" in seq:
            kinds.append("fontres:inline-after-inline")
    if len(pages) > 1:
        kinds.append("fontres:several-pages")
    return {"fonts": fonts, "pages": pages}, kinds


def shrink_fontres(doc: Dict[str, Any], caching: bool) -> Dict[str, Any]:
    def fails(d) -> bool:
        return bool(d["pages"]) and fontres_first_bad(d, caching) is not None
    cur = doc
    if len(cur["pages"]) > 1:
        pages = C.ddmin(list(cur["pages"]), lambda sub: fails({"fonts": cur["fonts"], "pages": sub}), 30)
        if fails({"fonts": cur["fonts"], "pages": pages}):
            cur = {"fonts": cur["fonts"], "pages": pages}
    new_pages = []
    for pi, pg in enumerate(cur["pages"]):
        if len(pg["slots"]) > 1:
            def f2(sub, pi=pi, pg=pg):
                ps = list(cur["pages"])
                ps[pi] = {"slots": sub, "form": pg["form"]}
                return fails({"fonts": cur["fonts"], "pages": new_pages + ps[len(new_pages):]})
            slots = C.ddmin(list(pg["slots"]), f2, 30)
            cand = {"slots": slots, "form": pg["form"]}
            ps = new_pages + [cand] + list(cur["pages"][pi + 1:])
            new_pages.append(cand if fails({"fonts": cur["fonts"], "pages": ps}) else pg)
        else:
            new_pages.append(pg)
    cand = {"fonts": cur["fonts"], "pages": new_pages}
    if fails(cand):
        cur = cand
    # drop unused fonts
    used = sorted({fi for pg in cur["pages"] for fi, _ in pg["slots"]})
    remap = {fi: k for k, fi in enumerate(used)}
    cand = {"fonts": [cur["fonts"][fi] for fi in used],
            "pages": [{"slots": [[remap[fi], inl] for fi, inl in pg["slots"]], "form": pg["form"]} for pg in cur["pages"]]}
    return cand if fails(cand) else cur


def check_fontres(ctx: C.Ctx, docs: List[Tuple[Dict[str, Any], List[str]]], label: str = "") -> None:
    for doc, kinds in docs:
        if not ctx.time_left():
            ctx.notes.append("font resource cases cut short by the time budget")
            break
        ctx.case(("fontres", json.dumps(doc, sort_keys=True)), True, branch=label or "fontres")
        for k in set(kinds):
            ctx.branch(k)
        for caching in (True, False):
            bad = fontres_first_bad(doc, caching)
            if bad is None:
                continue
            small = shrink_fontres(doc, caching)
            b2 = fontres_first_bad(small, caching) or bad
            pi, k, (code, kind, exp, got) = b2
            other = fontres_first_bad(small, not caching)
            cfail(ctx, C.Failure(
                "font resources: a font of a /Font resource dictionary with several fonts (referenced and inline) does "
                "not report the text / advance its OWN dictionary defines [%s; font cache %s%s]"
                % (kind, "on" if caching else "off", "" if other is not None else " only"),
                {"op": "fontres", "doc": small, "caching": caching, "page": pi, "slot": k, "code": code},
                exp, got, {"op": "fontres", "kind": kind, "caching": caching, "cache_dependent": other is None,
                           "kinds": sorted(set(kinds))}))
            break


def run_fontres(ctx: C.Ctx) -> None:
    rng = ctx.rng
    docs = [gen_fontres_doc(rng) for _ in range(ctx.n(45, 2500))]
    check_fontres(ctx, docs)


# ---------------------------------------------------------------------------------------------
# generators

def gen_hex(rng, n, alphabet="0123456789ABCDEF") -> str:
    return "".join(rng.choice(alphabet) for _ in range(n))


def gen_scalar_hex4(rng) -> str:
    while True:
        v = rng.choice([rng.randint(0x20, 0x7E), rng.randint(0xA0, 0x24FF), rng.randint(0, 0xFFFF), 0xD7FF, 0xE000])
        if not 0xD800 <= v <= 0xDFFF:
            return "%04X" % v


NAME_KINDS = ["list", "list", "list", "uni1", "uni2", "uni3", "uni_lower", "uni_mixed", "uni_surr", "uni_badlen",
              "uni_tail", "uni_empty", "u4", "u5", "u6", "u_short", "u_long", "u_big", "u_surr", "u_lower",
              "u_tail", "strip", "intquirk", "unknown", "unknown", "empty", "notdef", "listprefix", "listcase",
              "ulist", "nonascii", "badutf8"]


GRAMMAR_KINDS = {"list", "uni1", "uni2", "uni3", "u4", "u5", "u6", "ulist", "suffix", "components2", "components3",
                 "components4"}


def gen_component(rng, kind: Optional[str] = None) -> Tuple[str, str]:
    d = data()
    k = kind or rng.choice(NAME_KINDS)
    if k == "list":
        return rng.choice(d["glnames"]), k
    if k == "uni1":
        return "uni" + gen_scalar_hex4(rng), k
    if k == "uni2":
        return "uni" + gen_scalar_hex4(rng) + gen_scalar_hex4(rng), k
    if k == "uni3":
        return "uni" + "".join(gen_scalar_hex4(rng) for _ in range(rng.randint(3, 5))), k
    if k == "uni_lower":
        return "uni" + gen_scalar_hex4(rng).lower() + rng.choice(["", gen_scalar_hex4(rng)]), k
    if k == "uni_mixed":
        s = gen_scalar_hex4(rng) + gen_scalar_hex4(rng)
        return "uni" + "".join(ch.lower() if rng.random() < 0.4 else ch for ch in s), k
    if k == "uni_surr":
        g = ["%04X" % rng.choice([0xD800, 0xDBFF, 0xDC00, 0xDFFF, rng.randint(0xD800, 0xDFFF)])]
        if rng.random() < 0.6:
            g.insert(rng.randint(0, 1), gen_scalar_hex4(rng))
        return "uni" + "".join(g), k
    if k == "uni_badlen":
        return "uni" + gen_hex(rng, rng.choice([1, 2, 3, 5, 6, 7, 9, 10, 11])), k
    if k == "uni_tail":
        n = rng.choice([3, 4, 4, 7, 8])
        tail = rng.choice(["G", "z", "zzzz", "g", "x", "-", " ", "+", "uni", "ZZ", "GHIJ", "/"])
        mid = gen_hex(rng, n)
        return "uni" + (mid[:rng.randint(0, n)] + tail + mid)[: rng.choice([4, 8, 8, 12])], k
    if k == "uni_empty":
        return "uni", k
    if k == "u4":
        return "u" + gen_scalar_hex4(rng), k
    if k == "u5":
        return "u" + "%05X" % rng.randint(0x10000, 0xFFFFF), k
    if k == "u6":
        return "u" + rng.choice(["%06X" % rng.randint(0x100000, 0x10FFFF), "10FFFF", "00" + gen_scalar_hex4(rng)]), k
    if k == "u_short":
        return "u" + gen_hex(rng, rng.randint(0, 3)), k
    if k == "u_long":
        return "u" + "00" + gen_hex(rng, rng.randint(5, 7)), k
    if k == "u_big":
        return "u" + "%06X" % rng.choice([0x110000, 0xFFFFFF, rng.randint(0x110000, 0xFFFFFF)]), k
    if k == "u_surr":
        return "u" + rng.choice(["", "0", "00"]) + "%04X" % rng.choice([0xD800, 0xDFFF, rng.randint(0xD800, 0xDFFF)]), k
    if k == "u_lower":
        return "u" + gen_hex(rng, rng.randint(4, 6), "0123456789abcdef0123"), k
    if k == "u_tail":
        n = rng.randint(4, 6)
        s = list(gen_hex(rng, n))
        s[rng.randint(0, n - 1)] = rng.choice("GxXz -+.")
        return "u" + "".join(s), k
    if k == "strip":
        core = gen_scalar_hex4(rng)
        return rng.choice(["uu" + core, "uniu" + core, "u" + core + "u", "uni" + core + "n", "uni" + core + "i",
                           "uniuni" + core, "unin" + core, "ui" + core, "un" + core, "uni" + core + "uni",
                           "unii" + core + core]), k
    if k == "intquirk":
        return rng.choice(["u0x41", "uni0x41", "u0X41", "u0041 ", "u004 1", "uni0041    ", "u00_41", "uni00410x42",
                           "u0x0041", "u+0041", "u-0041", "uni 0041", "u٠041"]), k
    if k == "unknown":
        return rng.choice(["g%d" % rng.randint(0, 300), "foo", "G%02X" % rng.randint(0, 255), "c%d" % rng.randint(0, 255),
                           "glyph%d" % rng.randint(0, 99), "cid%05d" % rng.randint(0, 999), "a", "AA", "Z9", "x",
                           "index%d" % rng.randint(0, 99), "uhorn1", "unix", "universe", "un", "unicode"]), k
    if k == "empty":
        return "", k
    if k == "notdef":
        return "", k
    if k == "listprefix":
        n = rng.choice(d["glnames"])
        return n[: rng.randint(1, len(n))], k
    if k == "listcase":
        return rng.choice(d["glnames"]).swapcase(), k
    if k == "ulist":
        return rng.choice([n for n in d["glnames"] if n.startswith("u")]), k
    if k == "nonascii":
        return rng.choice(["é", "Á", "uni00E9é", "中", "ué"]), k
    return rng.choice(d["glnames"]), "list"


def gen_name(rng) -> Tuple[Any, List[str]]:
    """Returns (('s', str) | ('b', bytes), kinds)."""
    r = rng.random()
    if r < 0.02:
        return ("b", rng.choice([b"\xff", b"A\xff", b"uni0041\xfe", b"\xc3"])), ["badutf8"]
    if r < 0.07:
        return ("s", rng.choice([".notdef", ".null", "."])), ["notdef"]
    ncomp = 1 if r < 0.7 else rng.randint(2, 4)
    comps, kinds = [], []
    for _ in range(ncomp):
        if ncomp > 1 and rng.random() < 0.75:
            c, k = gen_component(rng, rng.choice(["list", "uni1", "uni2", "u4", "u5", "list"]))
        else:
            c, k = gen_component(rng)
        if k == "badutf8":
            k = "list"
        comps.append(c)
        kinds.append(k)
    name = "_".join(comps)
    if ncomp > 1:
        kinds.append("components%d" % ncomp)
    s = rng.random()
    if s < 0.2:
        name += rng.choice([".sc", ".alt", ".1", ".alt.1", ".", "..", ".A_B", ".uni0041", ".sc.x_y"])
        kinds.append("suffix")
    return ("s", name), kinds


def gen_diff(rng, maxlen=64) -> Tuple[List[Any], List[str]]:
    """A Differences array as tokens int | ('s',str) | ('b',bytes) | ('o',)."""
    toks: List[Any] = []
    kinds: List[str] = []
    n = rng.choice([0, 1, 2, 3, 5, 8, 13, 21, rng.randint(1, maxlen)])
    if n and rng.random() < 0.15:
        # leading names before any number: they number from 0
        for _ in range(rng.randint(1, 3)):
            toks.append(gen_name(rng)[0])
        kinds.append("diff:leading-names")
    while len(toks) < n:
        r = rng.random()
        if r < 0.3 or not toks:
            c = rng.choice([rng.randint(0, 255), rng.randint(0, 255), rng.randint(32, 126), 255, 0, 254,
                            rng.randint(-3, 260)])
            toks.append(c)
            if rng.random() < 0.1:
                toks.append(rng.randint(0, 255))       # two numbers in a row: the last one counts
                kinds.append("diff:double-number")
        elif r < 0.34:
            toks.append(("o",))
            kinds.append("diff:other-object")
        else:
            if rng.random() < 0.45:
                nm = ("s", gen_component(rng, "list")[0])
            elif rng.random() < 0.3:
                nm = ("s", gen_component(rng, "unknown")[0])
                kinds.append("diff:unknown-name")
            else:
                nm, _ = gen_name(rng)
            toks.append(nm)
    if len(toks) >= 4 and rng.random() < 0.3:
        # re-assign a code that was assigned before (last assignment must win)
        ints = [t for t in toks if isinstance(t, int)]
        if ints:
            toks.append(rng.choice(ints))
            toks.append(gen_name(rng)[0] if rng.random() < 0.5 else ("s", gen_component(rng, "unknown")[0]))
            kinds.append("diff:reassign")
    return toks, kinds


def diff_to_json(toks) -> List[Any]:
    out: List[Any] = []
    for t in toks:
        if isinstance(t, int):
            out.append(t)
        elif t[0] == "s":
            out.append(["n", t[1].encode("utf-8").hex()])
        elif t[0] == "b":
            out.append(["n", t[1].hex()])
        else:
            out.append(["o"])
    return out


def gen_dst(rng) -> str:
    r = rng.random()
    if r < 0.5:
        return "%04X" % rng.choice([rng.randint(0x20, 0x7E), rng.randint(0xA0, 0x2FFF), 0x20, 0xA0, 0xFB01])
    if r < 0.6:
        return "".join("%04X" % rng.randint(0x41, 0x7A) for _ in range(rng.randint(2, 3)))      # ligature text
    if r < 0.7:
        v = rng.randint(0x10000, 0x10FFFF) - 0x10000
        return "%04X%04X" % (0xD800 + (v >> 10), 0xDC00 + (v & 0x3FF))                            # astral pair
    if r < 0.78:
        return rng.choice(["D800", "DC00", "D8000041", "0041D800", "DC000041", "D800D800DC00", "0041DC"])  # ill-formed
    if r < 0.84:
        return rng.choice(["", "41", "004100", "00"])                                            # empty / odd length
    if r < 0.9:
        return rng.choice(["0020", "00A0"])
    return "%04X" % rng.randint(0, 0xFFFF)


def gen_src(rng, wide=False) -> str:
    c = rng.randint(0, 255)
    return ("%04X" % c) if wide else ("%02X" % c)


def gen_tounicode(rng) -> Tuple[List[Any], List[str]]:
    ents: List[Any] = []
    kinds: List[str] = []
    n = rng.choice([0, 1, 2, 4, 8, 16, rng.randint(1, 64)])
    while len(ents) < n:
        r = rng.random()
        wide = rng.random() < 0.1
        if r < 0.55:
            ents.append(["c", gen_src(rng, wide), gen_dst(rng)])
            kinds.append("tu:bfchar")
        elif r < 0.85:
            lo = rng.randint(0, 255)
            hi = min(255, lo + rng.choice([0, 1, 2, 5, 10, 40]))
            dst = gen_dst(rng)
            while dst == "":
                dst = gen_dst(rng)      # an empty bfrange target is degenerate (C07 owns the increment rule)
            if rng.random() < 0.2:
                dst = rng.choice(["00FE", "FF", "FFFE", "0000FFFE", "D7FE", "DBFFDFFE"])     # carries / wrap-around
                kinds.append("tu:bfrange-carry")
            fmt = "%04X" if wide else "%02X"
            if rng.random() < 0.05:
                ents.append(["r", "%02X" % lo, "%04X" % hi, dst])                           # length mismatch: ignored
                kinds.append("tu:bfrange-lenmismatch")
            elif rng.random() < 0.05 and hi > lo:
                ents.append(["r", fmt % hi, fmt % lo, dst])                                 # empty range
                kinds.append("tu:bfrange-empty")
            else:
                ents.append(["r", fmt % lo, fmt % hi, dst])
                kinds.append("tu:bfrange")
        else:
            lo = rng.randint(0, 250)
            k = rng.randint(1, 5)
            hi = lo + k - 1 + rng.choice([0, 0, 0, 1, -1] if k > 1 else [0, 0, 1])
            fmt = "%04X" if wide else "%02X"
            ents.append(["a", fmt % lo, fmt % max(hi, 0), [gen_dst(rng) for _ in range(k)]])
            kinds.append("tu:bfrange-array")
    if ents and rng.random() < 0.3:
        # redefine a code (space then no-break space is pdfminer's special case)
        code = rng.randint(0, 255)
        seq = rng.choice([("0020", "00A0"), ("00A0", "0020"), ("0041", "0042"), ("0020", "00A0"),
                          ("0020", "00A0", "00A0"), ("00A0", "0020", "00A0"), ("0020", "0058", "00A0"),
                          ("0020", "00A0", "0058"), ("0020", "00A0", "0020", "00A0"), ("00200020", "00A0"),
                          ("0020", "00A000A0"), ("0020", "D83D00A0")])
        for k, a in enumerate(seq):
            if k and rng.random() < 0.3 and 0 < code < 255:
                # the redefinition through a range that covers the code
                ents.append(["r", "%02X" % (code - 1), "%02X" % (code + 1), "%04X" % (int(a[-4:], 16) - 1)]
                            if len(a) == 4 else ["c", "%02X" % code, a])
            else:
                ents.append(["c", "%02X" % code, a])
        kinds.append("tu:redefine")
        if "00A0" in seq and "0020" in seq:
            kinds.append("tu:space-nbsp-pair")
    return ents, kinds


def gen_width(rng) -> str:
    r = rng.random()
    if r < 0.6:
        return str(rng.randint(0, 1200))
    if r < 0.7:
        return "0"
    if r < 0.85:
        return str(F(rng.randint(0, 4800), rng.choice([2, 4, 8])))
    if r < 0.9:
        return str(-rng.randint(1, 500))
    return str(F(rng.randint(0, 12000), 10))


STD14_SAMPLE = ["Helvetica", "Times-Roman", "Courier", "Symbol", "ZapfDingbats", "Helvetica-Bold", "Times-Italic",
                "Arial", "Arial,Bold", "CourierNew", "TimesNewRoman,Italic", "Courier-BoldOblique",
                "Helvetica-Oblique", "Times-BoldItalic"]
OTHER_BASEFONTS = ["Foo", "ABCDEF+Times-Roman", "Helvetica,Bold", "ArialMT", "helvetica", "unknown", "CMR10",
                   "Times", "Helvetica-Roman"]
ENC_CHOICES = ENC_NAMES + ["MacExpertEncoding", "Identity-H", "Foo", "standardencoding"]


def gen_font(rng, force: Optional[str] = None) -> Tuple[Dict[str, Any], List[str]]:
    kinds: List[str] = []
    r = rng.random()
    subtype = force or ("Type1" if r < 0.4 else "TrueType" if r < 0.6 else "Type3" if r < 0.82 else
                        "MMType1" if r < 0.9 else "absent" if r < 0.95 else "Foo")
    fs: Dict[str, Any] = {"subtype": subtype, "basefont": None, "enc": None, "tu": None, "fc": None, "widths": None,
                          "desc": None, "fm": None}
    is_t3 = subtype == "Type3"
    std14 = False
    if not is_t3:
        b = rng.random()
        if b < 0.4:
            fs["basefont"] = rng.choice(STD14_SAMPLE).encode().hex()
            std14 = True
            kinds.append("font:std14")
        elif b < 0.93:
            fs["basefont"] = rng.choice(OTHER_BASEFONTS).encode().hex()
        else:
            kinds.append("font:no-basefont")
    # encoding
    e = rng.random()
    if e < 0.25:
        kinds.append("enc:absent")
    elif e < 0.45:
        fs["enc"] = ["name", rng.choice(ENC_CHOICES).encode().hex()]
        kinds.append("enc:name")
    else:
        base = None if rng.random() < 0.35 else rng.choice(ENC_CHOICES).encode().hex()
        toks, dk = gen_diff(rng)
        fs["enc"] = ["dict", base, diff_to_json(toks)]
        kinds.append("enc:dict" + (":nobase" if base is None else ""))
        kinds += dk
        if not toks:
            fs["emptydiff"] = rng.random() < 0.5
        if rng.random() < 0.3:
            fs["enc_indirect"] = True
    # ToUnicode
    if rng.random() < 0.5:
        fs["tu"], tk = gen_tounicode(rng)
        kinds += tk or ["tu:empty"]
    # widths
    w = rng.random()
    if w < 0.75:
        fc = rng.choice([0, 32, 32, 65, rng.randint(0, 255), rng.randint(0, 200)])
        n = rng.choice([0, 1, 10, 95, 224, 256 - fc, rng.randint(1, 300), rng.randint(1, 64)])
        fs["widths"] = [gen_width(rng) for _ in range(n)]
        if rng.random() < 0.9:
            fs["fc"] = fc
        else:
            kinds.append("w:no-firstchar")
        if rng.random() < 0.2:
            fs["lastchar_off"] = rng.choice([-5, -1, 1, 7])       # LastChar disagrees with len(Widths)
            kinds.append("w:lastchar-mismatch")
        kinds.append("w:widths" + (":std14" if std14 else ""))
    else:
        kinds.append("w:absent")
        if rng.random() < 0.2:
            fs["fc"] = rng.randint(0, 255)
    # descriptor
    d = rng.random()
    if d < 0.7:
        desc: Dict[str, Any] = {"mw": None, "ff": None}
        if rng.random() < 0.6:
            desc["mw"] = gen_width(rng)
            kinds.append("d:missingwidth" + (":std14" if std14 else ""))
        if not is_t3 and rng.random() < (0.7 if fs["enc"] is None else 0.2):
            puts = []
            for _ in range(rng.choice([0, 1, 5, 20, rng.randint(1, 64)])):
                nm, _k = gen_name(rng)
                if rng.random() < 0.5:
                    nm = ("s", gen_component(rng, "list")[0])
                puts.append([rng.randint(0, 255), (nm[1].encode("utf-8") if nm[0] == "s" else nm[1]).hex()])
            if puts and rng.random() < 0.3:
                c0 = rng.choice(puts)[0]
                puts.append([c0, gen_component(rng, rng.choice(["unknown", "list"]))[0].encode().hex()])
                kinds.append("ff:reassign")
            for e in puts:
                if rng.random() < 0.25:
                    e.append(rng.choice(["nodup", "proc", "true", "false", "real", "str", "nodup", "proc"]))
                    kinds.append("ff:entry-" + e[2])
            ff: Dict[str, Any] = {"puts": puts, "notdef_loop": rng.random() < 0.5, "tail": rng.random() < 0.5,
                                  "sep": rng.randint(0, len(T1_SEPS) - 1), "comments": rng.random() < 0.4,
                                  "extras": rng.random() < 0.4, "escape": rng.random() < 0.3}
            r1 = rng.random()
            if r1 < 0.12:
                ff["l1"] = "beyond"
                kinds.append("ff:length1-beyond")
            elif r1 < 0.18:
                ff["l1"] = "cut"
                kinds.append("ff:length1-cut")
            elif r1 < 0.28:
                ff["l1"] = "absent"
                kinds.append("ff:length1-absent")
            if rng.random() < 0.08:
                ff["malformed"] = rng.choice(["put-underflow", "odd-dict"])
                kinds.append("ff:malformed-" + ff["malformed"])
            desc["ff"] = ff
            kinds.append("ff:fontfile" + (":used" if fs["enc"] is None and not std14 else ":ignored"))
        fs["desc"] = desc
    else:
        kinds.append("d:absent")
    if is_t3 and rng.random() < 0.08:
        kinds.append("t3:no-matrix")
        if rng.random() < 0.5:
            fs["t3_badmatrix"] = rng.choice([[1, 0, 0], "Foo", [1, 0, 0, "x", 0, 0], [], [2, 0, 0, 2, 0, 0, 0],
                                             [2, 0, 0, 2, 0], ["x", 0, 0, 1, 0, 0], [1, 0, 0, 1, 0, "x"]])
            kinds.append("t3:bad-matrix")
        fs["t3_nobbox"] = rng.random() < 0.5
    elif is_t3:
        m = rng.random()
        if m < 0.5:
            fs["fm"] = ["1/1000", "0", "0", "1/1000", "0", "0"]
        elif m < 0.7:
            s = rng.choice(["1/2048", "1/1024", "1/100", "1", "1/500"])
            fs["fm"] = [s, "0", "0", s, "0", "0"]
        else:
            fs["fm"] = [rng.choice(["1/1024", "1/512", "1/1000", "-1/1024"]), rng.choice(["0", "1/4096"]),
                        rng.choice(["0", "1/2048", "-1/4096", "1/1024"]), rng.choice(["1/1024", "1/256"]),
                        rng.choice(["0", "10"]), rng.choice(["0", "-3"])]
            kinds.append("t3:skewed-matrix" if fs["fm"][2] != "0" else "t3:matrix")
    return fs, kinds


# ---------------------------------------------------------------------------------------------
# the checks

def reply_of_spec_text(t: str) -> str:
    return "V " + cps(t) if t != "" else "N"


def check_names(ctx: C.Ctx, names: List[Tuple[Any, List[str]]], label: str = "") -> None:
    lines: List[str] = []
    meta: List[Any] = []
    for tok, kinds in names:
        impl = impl_name2unicode(tok)
        s = name_of_tok(tok)
        spec = agl_spec(s)
        dom = agl_domain(s)
        nontriv = kinds != ["list"]
        ctx.case(("name", tok), nontriv, sample={"name": tok[1] if tok[0] == "s" else tok[1].hex()},
                 branch=None)
        for k in kinds:
            ctx.branch("name:" + k)
        ctx.branch("name->" + ("value" if impl.startswith("V") else impl))
        if label:
            ctx.branch(label)
        # (prop) implementation against the specification
        exp = reply_of_spec_text(spec)
        got = impl if impl != "E key" else "N"
        if not dom and kinds and all(k in GRAMMAR_KINDS for k in kinds):
            # a name built only from the classes of the property's grammar must be inside the judged domain
            ctx.disagree("domain", {"name": name_arg(tok), "kinds": kinds}, "judged", "outside-domain")
        if dom:
            ctx.branch("name:judged")
            if got != exp:
                cfail(ctx, C.Failure(
                    "name2unicode differs from the Adobe Glyph List algorithm",
                    {"op": "name", "name": name_arg(tok)}, exp, impl,
                    {"op": "name", "kinds": kinds, "raised": impl.startswith("EXC"),
                     "impl_value": impl.startswith("V"), "spec_value": exp.startswith("V")}))
        else:
            ctx.branch("name:outside-judged-domain")
        # (prop, every name) implementation against the exact algorithm AGL + (D1) + (D2)
        expx = reply_of_spec_text(agl_exact(s))
        if got != expx:
            cfail(ctx, C.Failure(
                "name2unicode differs from the exact glyph-name algorithm (AGL with either-case hexadecimal digits; "
                "a component without a value makes the name undefined)",
                {"op": "name", "name": name_arg(tok)}, expx, impl,
                {"op": "name", "kinds": kinds, "raised": impl.startswith("EXC"), "exact": True,
                 "impl_value": impl.startswith("V"), "spec_value": expx.startswith("V")}))
        lines.append("aglx " + name_arg(tok))
        meta.append(("aglx", tok, expx))
        lines.append("n2u " + name_arg(tok))
        meta.append(("n2u", tok, impl))
        lines.append("agl " + name_arg(tok))
        meta.append(("agl", tok, ("O " if not dom else "") + exp))
    if ctx.driver is not None:
        outs = ctx.driver.ask(lines)
        for (op, tok, mine), m_out in zip(meta, outs):
            if mine != m_out:
                ctx.disagree(op if op == "n2u" else "spec-twin:" + op, {"name": name_arg(tok)}, mine, m_out)


def run_names(ctx: C.Ctx) -> None:
    rng = ctx.rng
    names: List[Tuple[Any, List[str]]] = []
    # every kind at least a few times, then free sampling
    for k in NAME_KINDS:
        for _ in range(3):
            c, kk = gen_component(rng, k)
            if kk == "badutf8":
                continue
            names.append((("s", c), [kk]))
    for _ in range(ctx.n(6000, 150000)):
        names.append(gen_name(rng))
    # the whole glyph list (list names are the bulk of real fonts)
    step = 1 if ctx.tier == "thorough" else 7
    off = rng.randint(0, step - 1)
    for n in data()["glnames"][off::step]:
        names.append((("s", n), ["list"]))
    check_names(ctx, names)


def check_encodings(ctx: C.Ctx, cases: List[Tuple[str, List[Any], List[str]]]) -> None:
    lines: List[str] = []
    meta: List[Any] = []
    for encname, diff, kinds in cases:
        impl = impl_get_encoding(encname, diff)
        HISTORY.append({"op": "enc", "base": encname, "differences": diff_to_json(diff)})
        ctx.case(("enc", encname, diff), bool(diff), sample={"base": encname, "differences": diff_to_json(diff)[:12]},
                 branch="enc:" + (encname if encname in ENC_COL else "other-name"))
        for k in kinds:
            ctx.branch(k)
        # (prop) per code: last Differences assignment, else base table, through AGL
        exp_cells = []
        judged_all = True
        for code in range(256):
            nm, from_diff = spec_code_name(encname, diff, code)
            if nm is None:
                exp_cells.append("~")
                continue
            s = name_of_tok(nm)
            if not agl_domain(s):
                exp_cells.append("?")
                judged_all = False
                continue
            t = agl_spec(s)
            exp_cells.append(cps(t) if t != "" else "~")
        if impl.startswith("EXC"):
            cfail(ctx, C.Failure("EncodingDB.get_encoding raised", {"op": "enc", "base": encname,
                                                                  "differences": diff_to_json(diff)},
                               "a table", impl, {"op": "enc", "raised": True}))
        else:
            got_cells = impl.split(" ")
            bad = [c for c in range(256) if exp_cells[c] != "?" and exp_cells[c] != got_cells[c]]
            if bad:
                report_enc_failure(ctx, encname, diff, bad[0], exp_cells[bad[0]], got_cells[bad[0]])
        lines.append("enc %s %s" % (name_arg(("s", encname)), diff_args(diff)))
        meta.append(("enc", encname, diff, impl))
        lines.append("encspec %s %s" % (name_arg(("s", encname)), diff_args(diff)))
        meta.append(("encspec", encname, diff, " ".join(exp_cells)))
    if ctx.driver is not None:
        outs = ctx.driver.ask(lines)
        for (op, encname, diff, mine), m_out in zip(meta, outs):
            if mine != m_out:
                a, b = mine.split(" "), m_out.split(" ")
                first = next((i for i in range(min(len(a), len(b))) if a[i] != b[i]), -1)
                ctx.disagree(op if op == "enc" else "spec-twin:enc",
                             {"base": encname, "differences": diff_to_json(diff), "first_code": first},
                             a[first] if first >= 0 else mine[:80], b[first] if first >= 0 else m_out[:80])


def enc_cell_ok(encname: str, diff: List[Any], code: int) -> bool:
    impl = impl_get_encoding(encname, diff)
    if impl.startswith("EXC"):
        return False
    nm, _ = spec_code_name(encname, diff, code)
    if nm is None:
        exp = "~"
    else:
        s = name_of_tok(nm)
        if not agl_domain(s):
            return True
        t = agl_spec(s)
        exp = cps(t) if t != "" else "~"
    return impl.split(" ")[code] == exp


def report_enc_failure(ctx: C.Ctx, encname: str, diff: List[Any], code: int, exp: str, got: str) -> None:
    small = C.ddmin(list(diff), lambda sub: not enc_cell_ok(encname, sub, code)) if len(diff) > 1 else list(diff)
    if enc_cell_ok(encname, small, code):
        small = list(diff)
    nm, from_diff = spec_code_name(encname, small, code)
    s = name_of_tok(nm) if nm is not None else None
    tags = {"op": "enc", "code": code, "from_differences": from_diff,
            "spec_undefined": nm is None or agl_spec(s) == "", "got_defined": got != "~"}
    cfail(ctx, C.Failure("EncodingDB.get_encoding: a code does not get the character of its glyph name "
                       "(last Differences assignment, else base encoding)",
                       {"op": "enc", "base": encname, "differences": diff_to_json(small), "code": code},
                       exp, got, tags))


def run_encodings(ctx: C.Ctx) -> None:
    rng = ctx.rng
    cases: List[Tuple[str, List[Any], List[str]]] = []
    for e in ENC_NAMES + ["Foo"]:
        cases.append((e, [], ["enc:exhaustive-base"]))      # all 256 codes of every base table, every run
    for _ in range(ctx.n(800, 20000)):
        diff, kinds = gen_diff(rng)
        cases.append((rng.choice(ENC_CHOICES), diff, kinds))
    for _ in range(ctx.n(60, 1500)):
        # Differences written as RUNS (theorem differences_runs): several runs, runs that cross 255 or start below 0 or
        # beyond 255, runs that re-assign codes of earlier runs
        diff = []
        kinds = ["diff:runs"]
        for _ in range(rng.randint(1, 5)):
            first = rng.choice([rng.randint(0, 255), rng.randint(248, 262), rng.randint(-4, 2), 255, 256])
            k = rng.randint(0, 9)
            if first + k > 256:
                kinds.append("diff:run-crosses-255")
            if first < 0:
                kinds.append("diff:run-negative-start")
            diff.append(first)
            for _ in range(k):
                diff.append(("s", gen_component(rng, "list")[0]) if rng.random() < 0.7 else gen_name(rng)[0])
        cases.append((rng.choice(ENC_CHOICES), diff, sorted(set(kinds))))
    check_encodings(ctx, cases)


def close(a: float, b: F) -> bool:
    fb = float(b)
    return abs(a - fb) <= 1e-9 * (1.0 + abs(fb))


def parse_font_reply(line: str) -> Any:
    if line.startswith("E ") or line in ("O", "bad-op"):
        return line
    cells = []
    for c in line.split(" "):
        if c == "?":
            cells.append((None, None))
            continue
        if c.startswith("!"):                 # a cell outside the property's AGL domain: judged by the exact algorithm
            c = c[1:]
        t, w = c.split("|")
        cells.append(("" if t == "-" else "".join(chr(int(x, 16)) for x in t.split(",")), F(w)))
    return cells


def font_failure_tags(fs: Dict[str, Any], code: int, what: str, kinds: List[str]) -> Dict[str, Any]:
    d = data()
    bf = bytes.fromhex(fs["basefont"]).decode("utf-8", "replace") if fs.get("basefont") else None
    return {"op": "font", "code": code, "what": what, "subtype": fs["subtype"], "std14": bf in d["fm"],
            "has_widths": fs["widths"] is not None, "has_tounicode": fs["tu"] is not None,
            "has_fontfile": bool(fs["desc"] and fs["desc"].get("ff")), "has_encoding": fs["enc"] is not None,
            "skewed": bool(fs.get("fm")) and fs["fm"][2] != "0", "kinds": sorted(set(kinds))}


def font_tie_only(fs: Dict[str, Any]) -> bool:
    """Fonts whose embedded header is malformed on purpose and is actually read: no property oracle."""
    d = data()
    desc = fs.get("desc")
    if fs["subtype"] == "Type3" or fs["enc"] is not None or not desc or not desc.get("ff"):
        return False
    bf = bytes.fromhex(fs["basefont"]).decode("utf-8", "replace") if fs.get("basefont") is not None else "unknown"
    return bf not in d["fm"] and ff_tie_only(desc["ff"])


def font_first_bad(fs: Dict[str, Any], got: Any) -> Optional[Tuple[int, str, Any, Any]]:
    """First code where the implementation's (text, adv) breaks the property; None when fine."""
    if got == "DIFF:revisit":
        return (-1, "cache", "the same glyphs as at the first use", got)
    if isinstance(got, str):
        return None if font_tie_only(fs) else (-1, "exception", "256 glyphs", got)
    if len(got) != 256:
        return (-1, "count", 256, len(got))
    if font_tie_only(fs):
        return None
    exp = font_spec_eval(fs)
    for code in range(256):
        et, ew = exp[code]
        if et is None:
            continue
        gt, gw = got[code]
        if gt != et:
            return (code, "text", cps(et), cps(gt))
        if not close(gw, ew):
            return (code, "width", C.frac_str(ew), repr(gw))
    return None


def shrink_font(fs: Dict[str, Any], kind: str) -> Dict[str, Any]:
    """Greedy structural shrinking that keeps a failure of the same kind."""
    def fails(cand) -> bool:
        try:
            r = font_first_bad(cand, impl_fonts([cand])[0])
        except Exception:  # noqa: BLE001
            return False
        return r is not None and r[1] == kind

    cur = json.loads(json.dumps(fs))
    for key, val in (("tu", None), ("widths", None), ("fc", None), ("desc", None), ("enc", None),
                     ("lastchar_off", 0), ("enc_indirect", False)):
        if cur.get(key) not in (None, 0, False):
            cand = dict(cur)
            cand[key] = val
            if fails(cand):
                cur = cand
    if cur.get("desc"):
        for key in ("ff", "mw"):
            if cur["desc"].get(key) is not None:
                cand = json.loads(json.dumps(cur))
                cand["desc"][key] = None
                if fails(cand):
                    cur = cand
        if cur["desc"].get("ff"):
            def f_ff(sub):
                cand = json.loads(json.dumps(cur))
                cand["desc"]["ff"]["puts"] = sub
                return fails(cand)
            if len(cur["desc"]["ff"]["puts"]) > 1:
                cur["desc"]["ff"]["puts"] = C.ddmin(cur["desc"]["ff"]["puts"], f_ff, 60)
    if cur.get("enc") and cur["enc"][0] == "dict" and len(cur["enc"][2]) > 1:
        def f_diff(sub):
            cand = json.loads(json.dumps(cur))
            cand["enc"][2] = sub
            return fails(cand)
        cur["enc"][2] = C.ddmin(cur["enc"][2], f_diff, 80)
    if cur.get("tu") and len(cur["tu"]) > 1:
        def f_tu(sub):
            cand = json.loads(json.dumps(cur))
            cand["tu"] = sub
            return fails(cand)
        cur["tu"] = C.ddmin(cur["tu"], f_tu, 60)
    if cur.get("widths") and len(cur["widths"]) > 1:
        for keep in (1, 2, 4, 16):
            cand = json.loads(json.dumps(cur))
            cand["widths"] = cand["widths"][:keep]
            if fails(cand):
                cur = cand
                break
    return cur


WHAT = {"text": "simple font: text of a code is not ToUnicode entry / AGL value of its glyph name / (cid:N)",
        "width": "simple font: advance of a code is not Widths entry / standard-14 metric / MissingWidth (x scale)",
        "exception": "simple font: building or using the font raised",
        "count": "simple font: not one glyph per shown code",
        "cache": "simple font: the same font object gives different glyphs when it is used again (font cache)"}


def check_fonts(ctx: C.Ctx, fonts: List[Tuple[Dict[str, Any], List[str]]], chunk: int = 40) -> None:
    lines: List[str] = []
    meta: List[Any] = []
    for i in range(0, len(fonts), chunk):
        if not ctx.time_left():
            ctx.notes.append("font cases cut short by the time budget")
            break
        part = fonts[i:i + chunk]
        for fs, _ in part:
            HISTORY.append({"op": "font", "font": fs})
        try:
            res = impl_fonts([fs for fs, _ in part])
        except Exception as e:  # noqa: BLE001  - the document as a whole failed: evaluate one by one
            res = []
            for fs, _ in part:
                try:
                    res.append(impl_fonts([fs])[0])
                except Exception as e2:  # noqa: BLE001
                    res.append("EXC:" + type(e2).__name__)
        for (fs, kinds), got in zip(part, res):
            nontriv = bool(fs["tu"] or fs["widths"] or (fs["enc"] and fs["enc"][0] == "dict" and fs["enc"][2]) or
                           (fs["desc"] and fs["desc"].get("ff")))
            ctx.case(("font", json.dumps(fs, sort_keys=True)), nontriv, sample=font_line(fs)[:400],
                     branch="font:" + fs["subtype"])
            for k in set(kinds):
                ctx.branch(k)
            bad = font_first_bad(fs, got)
            if bad is not None:
                code, kind, exp, g = bad
                inp: Dict[str, Any]
                alone = font_first_bad(fs, impl_fonts([fs])[0])
                if alone is not None and alone[1] == kind:
                    small = shrink_font(fs, kind)
                    b2 = font_first_bad(small, impl_fonts([small])[0])
                    if b2 is None or b2[1] != kind:
                        small, b2 = fs, bad
                    inp = {"op": "font", "font": small, "code": b2[0]}
                else:
                    # fails only together with other fonts of the same document (shared resource manager):
                    # keep the smallest set of the document's other fonts that reproduces it
                    others = [f2 for f2, _ in part if f2 is not fs]

                    def with_doc(sub):
                        try:
                            r = font_first_bad(fs, impl_fonts(list(sub) + [fs])[-1])
                        except Exception:  # noqa: BLE001
                            return False
                        return r is not None and r[1] == kind
                    small, b2 = fs, bad
                    inp = {"op": "font", "font": fs, "code": bad[0]}
                    suffix = " [seen only inside this run]"
                    if others and with_doc(others):
                        inp["doc"] = C.ddmin(others, with_doc, 60) if len(others) > 1 else others
                        suffix = " [together with other fonts of the document]"
                cfail(ctx, C.Failure(WHAT[kind] + (suffix if alone is None or alone[1] != kind else ""),
                                     inp, b2[2], b2[3], font_failure_tags(small, b2[0], kind, kinds)))
            lines.append("font " + font_line(fs))
            meta.append(("font", fs, got))
            lines.append("fontspec " + font_line(fs))
            meta.append(("fontspec", fs, None))
        if len(lines) >= 800:
            compare_fonts_with_driver(ctx, lines, meta)
            lines, meta = [], []
    compare_fonts_with_driver(ctx, lines, meta)


def compare_fonts_with_driver(ctx: C.Ctx, lines: List[str], meta: List[Any]) -> None:
    if ctx.driver is not None and lines:
        outs = ctx.driver.ask(lines)
        for (op, fs, got), m_out in zip(meta, outs):
            model = parse_font_reply(m_out)
            if op == "font":
                if isinstance(got, str) or isinstance(model, str):
                    if not (isinstance(got, str) and isinstance(model, str) and model.startswith("E ")
                            and got == "EXC:" + model[2:]):
                        ctx.disagree("font", {"font": fs}, got if isinstance(got, str) else "256 glyphs", m_out[:120])
                    else:
                        ctx.branch("font:exception-agreed:" + model[2:])
                    continue
                for code in range(min(len(got), 256)):
                    gt, gw = got[code]
                    mt, mw = model[code]
                    if gt != mt or not close(gw, mw):
                        ctx.disagree("font", {"font": fs, "code": code}, "%s|%r" % (cps(gt), gw),
                                     "%s|%s" % (cps(mt), C.frac_str(mw)))
                        break
            else:
                if font_tie_only(fs):
                    continue
                mine = font_spec_eval(fs)
                if isinstance(model, str):
                    ctx.disagree("spec-twin:font", {"font": fs}, "256 cells", m_out[:120])
                    continue
                for code in range(256):
                    if mine[code] != model[code]:
                        ctx.disagree("spec-twin:font", {"font": fs, "code": code},
                                     repr(mine[code]), repr(model[code]))
                        break


def run_fonts(ctx: C.Ctx) -> None:
    rng = ctx.rng
    fonts: List[Tuple[Dict[str, Any], List[str]]] = []
    # plain fonts: every base encoding x every subtype, all 256 codes (exhaustive part of the bound)
    for sub in ("Type1", "TrueType", "Type3", "MMType1"):
        for e in ENC_NAMES:
            fs = {"subtype": sub, "basefont": None if sub == "Type3" else b"Helvetica".hex(), "enc": ["name", e.encode().hex()],
                  "tu": None, "fc": None, "widths": None, "desc": None,
                  "fm": ["1/1000", "0", "0", "1/1000", "0", "0"] if sub == "Type3" else None}
            fonts.append((fs, ["font:plain"]))
    for _ in range(ctx.n(750, 10000)):
        fonts.append(gen_font(rng))
    # Type3 fonts with every kind of unusable FontMatrix entry (model `type3Matrix`, theorems type3_matrix_*)
    for bm in ([1, 0, 0], "Foo", [1, 0, 0, "x", 0, 0], [], [2, 0, 0, 2, 0, 0, 0], [2, 0, 0, 2, 0], ["x", 0, 0, 1, 0, 0],
               [1, 0, 0, 1, 0, "x"], [0, 0, 0, 0, 0, 0]):
        for _ in range(ctx.n(2, 20)):
            fs, kinds = gen_font(rng, force="Type3")
            fs["fm"] = None
            fs["t3_badmatrix"] = bm
            tag = "notlist" if not isinstance(bm, list) else "len%d%s" % (len(bm), "+nonnumber" if "x" in bm else "")
            if bm == [0, 0, 0, 0, 0, 0]:
                fs["fm"] = ["0", "0", "0", "0", "0", "0"]
                fs.pop("t3_badmatrix")
                tag = "zero-matrix-usable"
            fonts.append((fs, [k for k in kinds if not k.startswith("t3:")] + ["t3:matrix-entry:" + tag]))
    # fonts whose built-in encoding (the bytes of the embedded Type 1 header) is what decides the text
    n_builtin = 0
    while n_builtin < ctx.n(200, 3000):
        fs, kinds = gen_font(rng, force=rng.choice(["Type1", "TrueType", "MMType1", "absent"]))
        if not (fs["desc"] and fs["desc"].get("ff")):
            continue
        fs["enc"] = None
        fs.pop("emptydiff", None)
        fs.pop("enc_indirect", None)
        if fs["basefont"] is not None and bytes.fromhex(fs["basefont"]).decode() in data()["fm"]:
            fs["basefont"] = rng.choice(OTHER_BASEFONTS).encode().hex()
        kinds = [k for k in kinds if not k.startswith(("enc:", "diff:", "font:std14"))] + ["ff:builtin-batch"]
        fonts.append((fs, kinds))
        n_builtin += 1
    check_fonts(ctx, fonts)


def impl_t1puts(data_: bytes) -> str:
    """The (cid, name) results of Type1FontHeaderParser's `put` keywords, before the name lookup."""
    from pdfminer.pdffont import Type1FontHeaderParser
    from pdfminer.psparser import PSEOF
    p = Type1FontHeaderParser(io.BytesIO(data_))
    res = []
    try:
        while True:
            try:
                (cid, name) = p.nextobject()
            except PSEOF:
                break
            res.append((int(cid), name))
    except Exception as e:  # noqa: BLE001
        return "E " + type(e).__name__
    out = []
    for cid, name in res:
        try:
            name.encode("utf-8")
            ok = True
            if name.startswith("b'") or name.startswith('b"'):
                # `literal_name` returns str(bytes) - the repr - for a name that is not UTF-8; a genuine name may also
                # begin with b' (e.g. /b'd): it is the repr only if it reads back as bytes that are NOT valid UTF-8
                import ast as _ast
                try:
                    raw = _ast.literal_eval(name)
                    if isinstance(raw, bytes):
                        try:
                            raw.decode("utf-8")
                        except UnicodeDecodeError:
                            ok = False
                except (ValueError, SyntaxError):
                    pass
        except UnicodeEncodeError:
            ok = False
        out.append("%d:%s" % (cid, name_arg(("s", name)) if ok else "b"))
    return " ".join(out) or "-"


def run_t1puts(ctx: C.Ctx) -> None:
    """Tokeniser + stack-machine path over header BYTES: generated headers and byte-level damage of them."""
    rng = ctx.rng
    lines, mine = [], []
    for i in range(ctx.n(300, 6000)):
        fs, _ = gen_font(rng, force="Type1")
        while not (fs["desc"] and fs["desc"].get("ff")):
            fs, _ = gen_font(rng, force="Type1")
        ff = fs["desc"]["ff"]
        data_, l1 = type1_header(ff)
        data_ = data_ if l1 is None else data_[:l1]
        kind = "asis"
        if i % 3 == 1 and data_:
            # damage: drop / duplicate / replace a few bytes (unbalanced brackets, split tokens, stray `put`s)
            b = bytearray(data_)
            for _ in range(rng.randint(1, 4)):
                pos = rng.randrange(len(b))
                r = rng.random()
                if r < 0.4:
                    del b[pos]
                elif r < 0.7:
                    b[pos:pos] = rng.choice([b"}", b"{", b"]", b"[", b">>", b"<<", b" put ", b"(", b")", b"%", b"/", b"<", b">"])
                else:
                    b[pos] = rng.choice(b" \n{}[]()<>/%#0aZ")
                if not b:
                    break
            data_ = bytes(b)
            kind = "damaged"
        elif i % 3 == 2:
            kind = "names-with-bytes"
            data_ = data_.replace(b"/Synth", rng.choice([b"/\xff\xfe", b"/A#FFB", b"/caf\xc3\xa9", b"/#41#42"]))
            data_ += b"dup 7 " + rng.choice([b"/\xff", b"/x#C3#A9", b"/#e9", b"/\xf0\x9f\x98\x80", b"/\xed\xa0\x80"]) + b" put\n"
        impl = impl_t1puts(data_)
        ctx.case(("t1puts", data_), True, branch="t1puts:" + kind)
        ctx.branch("t1puts->" + (impl if impl.startswith("E ") else "ok"))
        lines.append("t1puts " + C.hx(data_))
        mine.append(impl)
    if ctx.driver is not None:
        for ln, a, b in zip(lines, mine, ctx.driver.ask(lines)):
            if a != b:
                ctx.disagree("t1puts", {"header": ln[7:][:400]}, a[:200], b[:200])


# ---------------------------------------------------------------------------------------------
# round trip of WRITTEN Type 1 headers (theorem t1_roundtrip): a spelling -> bytes (Lean `writeHeader`, and
# independently here) -> the real Type1FontHeaderParser must return exactly the written pairs

_NAME_RAW = [c for c in range(33, 127) if c not in b"#()<>[]{}/%"]
_T1_WORDS = [b"dict", b"begin", b"readonly", b"def", b"array", b"for", b"currentdict", b"end", b"currentfile",
             b"eexec", b"index", b"exch", b"dup", b"FontDirectory", b"known", b"pop", b"ifelse", b"putt", b"truee",
             b"pu", b"False", b"True", b"PUT"]


def gen_sep(rng, nonempty: bool) -> List[Any]:
    n = rng.choice([0, 1, 1, 1, 2, 3]) if not nonempty else rng.choice([1, 1, 1, 2, 3])
    out = []
    for _ in range(n):
        if rng.random() < 0.8:
            out.append(("w", rng.choice([32, 32, 32, 10, 13, 9, 12, 0])))
        else:
            body = bytes(rng.choice([32, 37, 47, 40, 41, 60, 62, 91, 123, 125, 0, 255, 112, 117, 116, 35, 65, 48])
                         for _ in range(rng.randint(0, 6)))
            if rng.random() < 0.3:
                body = b" dup 9 /X put"
            out.append(("c", body, rng.choice([10, 13])))
    return out


def sep_bytes(g) -> bytes:
    return b"".join(bytes([it[1]]) if it[0] == "w" else b"%" + it[1] + bytes([it[2]]) for it in g)


def sep_word(g) -> str:
    if not g:
        return "-"
    return ",".join("w%02x" % it[1] if it[0] == "w" else "c%s:%02x" % (C.hx(it[1]), it[2]) for it in g)


def gen_spelled_name(rng) -> List[Any]:
    kind = rng.random()
    items: List[Any] = []
    if kind < 0.1:
        return items
    for _ in range(rng.randint(1, 8)):
        r = rng.random()
        if r < 0.7:
            items.append(("r", rng.choice(_NAME_RAW)))
        elif r < 0.85:
            v = rng.choice([0x5F, 0x2E, 0x20, 0x23, 0x2F, 0x28, 0x00, 0x7F, 0x41, 0x80, 0xFF, rng.randrange(256)])
            h = "%02X" % v if rng.random() < 0.5 else "%02x" % v
            items.append(("e", ord(h[0]), ord(h[1])))
        else:
            # a UTF-8 sequence (valid or not) through escapes
            seq = rng.choice([b"\xc3\xa9", b"\xe2\x82\xac", b"\xf0\x9f\x98\x80", b"\xc3", b"\xed\xa0\x80", b"\xc0\x80",
                              b"\xf4\x90\x80\x80", b"\xe0\x9f\xbf"])
            for v in seq:
                h = "%02X" % v
                items.append(("e", ord(h[0]), ord(h[1])))
    return items


def gen_name_string(rng) -> str:
    """A glyph name as a character string: every UTF-8 form, the boundaries of the forms, both sides of the surrogate gap."""
    out = []
    for _ in range(rng.randint(0, 7)):
        r = rng.random()
        if r < 0.4:
            out.append(chr(rng.choice(_NAME_RAW)))
        elif r < 0.6:
            out.append(chr(rng.choice([0x7F, 0x80, 0x7FF, 0x800, 0xD7FF, 0xE000, 0xFFFF, 0x10000, 0x10FFFF, 0, 0x20, 0x23,
                                       0x2F, 0x28, 0xA0, 0xFFFD, 0xFEFF])))
        else:
            v = rng.choice([rng.randrange(0x80), rng.randrange(0x80, 0x800), rng.randrange(0x800, 0x10000),
                            rng.randrange(0x10000, 0x110000)])
            if 0xD800 <= v <= 0xDFFF:
                v = 0xE9
            out.append(chr(v))
    return "".join(out)


def spell_name_string(sname: str) -> List[Any]:
    """The spelling of a glyph name (Lean `spellName`, written independently): UTF-8 bytes, raw when regular else #XX."""
    items: List[Any] = []
    for b in sname.encode("utf-8"):
        if b in _NAME_RAW:
            items.append(("r", b))
        else:
            h = "%02X" % b
            items.append(("e", ord(h[0]), ord(h[1])))
    return items


def cps_word(sname: str) -> str:
    return ",".join("%x" % ord(ch) for ch in sname) or "-"


def name_bytes(items) -> bytes:
    return b"".join(bytes([it[1]]) if it[0] == "r" else b"#" + bytes([it[1], it[2]]) for it in items)


def name_value(items) -> bytes:
    return bytes(it[1] if it[0] == "r" else int(chr(it[1]) + chr(it[2]), 16) for it in items)


def name_word(items) -> str:
    if not items:
        return "-"
    return ",".join("r%02x" % it[1] if it[0] == "r" else "e%02x%02x" % (it[1], it[2]) for it in items)


def gen_digits(rng) -> Tuple[str, str]:
    sign = rng.choice(["n", "n", "n", "p", "m"])
    r = rng.random()
    if r < 0.6:
        ds = str(rng.randrange(256))
    elif r < 0.8:
        ds = "0" * rng.randint(1, 3) + str(rng.randrange(300))
    elif r < 0.95:
        ds = str(rng.randrange(10 ** rng.randint(3, 12)))
    else:
        ds = "".join(rng.choice("0123456789") for _ in range(rng.randint(20, 60)))
    return sign, ds


_SIGN = {"n": b"", "p": b"+", "m": b"-"}


def gen_header_items(rng) -> List[Any]:
    items: List[Any] = []
    for _ in range(rng.randint(0, 10)):
        r = rng.random()
        if r < 0.6:
            sign, ds = gen_digits(rng)
            if rng.random() < 0.4:
                sname = gen_name_string(rng)
                items.append(("P", sign, ds, spell_name_string(sname), gen_sep(rng, True), gen_sep(rng, False),
                              gen_sep(rng, True), gen_sep(rng, True), sname))
            else:
                items.append(("P", sign, ds, gen_spelled_name(rng), gen_sep(rng, True), gen_sep(rng, False),
                              gen_sep(rng, True), gen_sep(rng, True)))
        elif r < 0.85:
            w = rng.choice(_T1_WORDS) if rng.random() < 0.8 else \
                bytes(rng.choice(b"abcdefghijklmnopqrstuvwxyzABCDEFGHIJKLMNOPQRSTUVWXYZ") for _ in range(rng.randint(1, 6)))
            if w in (b"put", b"true", b"false"):
                w = b"dup"
            items.append(("W", w, gen_sep(rng, True)))
        else:
            sign, ds = gen_digits(rng)
            items.append(("N", sign, ds, gen_sep(rng, True)))
    return items


def header_item_bytes(it) -> bytes:
    if it[0] == "P":
        return (b"dup" + sep_bytes(it[4]) + _SIGN[it[1]] + it[2].encode() + sep_bytes(it[5]) + b"/" + name_bytes(it[3])
                + sep_bytes(it[6]) + b"put" + sep_bytes(it[7]))
    if it[0] == "W":
        return it[1] + sep_bytes(it[2])
    return _SIGN[it[1]] + it[2].encode() + sep_bytes(it[3])


def header_item_word(it) -> str:
    if it[0] == "P":
        nw = name_word(it[3]) if len(it) < 9 else "N" + cps_word(it[8])      # by characters: the driver spells it (spellName)
        return "|".join(["P", it[1], it[2], nw, sep_word(it[4]), sep_word(it[5]), sep_word(it[6]),
                         sep_word(it[7])])
    if it[0] == "W":
        return "|".join(["W", C.hx(it[1]), sep_word(it[2])])
    return "|".join(["N", it[1], it[2], sep_word(it[3])])


def header_intent(items) -> str:
    out = []
    for it in items:
        if it[0] != "P":
            continue
        k = int(it[2]) * (-1 if it[1] == "m" else 1)
        v = name_value(it[3])
        if len(it) >= 9:
            out.append("%d:%s" % (k, name_arg(("s", it[8]))))         # theorem t1_roundtrip_names: the name itself
            continue
        try:
            nm = v.decode("utf-8")
            out.append("%d:%s" % (k, name_arg(("s", nm))))
        except UnicodeDecodeError:
            out.append("%d:b" % k)
    return " ".join(out) or "-"


def written_header(pad, items) -> bytes:
    return sep_bytes(pad) + b"".join(header_item_bytes(it) for it in items)


def t1write_ok(pad, items) -> bool:
    return impl_t1puts(written_header(pad, items)) == header_intent(items)


def t1write_json(pad, items) -> Dict[str, Any]:
    return {"op": "t1write", "pad": sep_word(pad), "items": [header_item_word(it) for it in items],
            "header": C.hx(written_header(pad, items))[:2000]}


def _sep_from_word(w: str):
    if w == "-":
        return []
    out = []
    for it in w.split(","):
        if it[0] == "w":
            out.append(("w", int(it[1:], 16)))
        else:
            b, e = it[1:].split(":")
            out.append(("c", bytes.fromhex(b if b != "-" else ""), int(e, 16)))
    return out


def _item_from_word(w: str):
    f = w.split("|")
    if f[0] == "P":
        if f[3].startswith("N"):
            sname = "" if f[3] == "N-" else "".join(chr(int(x, 16)) for x in f[3][1:].split(","))
            return ("P", f[1], f[2], spell_name_string(sname), _sep_from_word(f[4]), _sep_from_word(f[5]),
                    _sep_from_word(f[6]), _sep_from_word(f[7]), sname)
        nm = [] if f[3] == "-" else [("r", int(x[1:], 16)) if x[0] == "r" else ("e", int(x[1:3], 16), int(x[3:5], 16))
                                     for x in f[3].split(",")]
        return ("P", f[1], f[2], nm, _sep_from_word(f[4]), _sep_from_word(f[5]), _sep_from_word(f[6]), _sep_from_word(f[7]))
    if f[0] == "W":
        return ("W", bytes.fromhex(f[1]), _sep_from_word(f[2]))
    return ("N", f[1], f[2], _sep_from_word(f[3]))


def check_t1write(ctx: C.Ctx, cases: List[Tuple[Any, Any]], label: str = "") -> None:
    lines, meta = [], []
    for pad, items in cases:
        data_ = written_header(pad, items)
        intent = header_intent(items)
        impl = impl_t1puts(data_)
        kinds = sorted(set(it[0] for it in items))
        ctx.case(("t1write", data_), any(it[0] == "P" for it in items),
                 branch="t1write:" + (label or "+".join(kinds) or "empty"))
        for it in items:
            if it[0] == "P":
                if len(it) >= 9:
                    ctx.branch("t1write.put:name-by-characters")
                    for ch in it[8]:
                        ctx.branch("t1write.name-char:%d-byte" % len(ch.encode("utf-8")))
                ctx.branch("t1write.put:" + ("g2-empty" if not it[5] else "g2") + ("/esc" if any(x[0] == "e" for x in it[3]) else "")
                           + ("/sign" if it[1] != "n" else ""))
            for g in ([it[4], it[5], it[6], it[7]] if it[0] == "P" else [it[-1]]):
                for x in g:
                    ctx.branch("t1write.sep:" + ("comment" if x[0] == "c" else "ws%d" % x[1]))
        if impl != intent:
            small = C.ddmin(list(items), lambda sub: not t1write_ok(pad, sub)) if len(items) > 1 else list(items)
            if t1write_ok(pad, small):
                small = list(items)
            cfail(ctx, C.Failure("Type1FontHeaderParser: a written header (dup <key> /<name> put lines between inert "
                                 "keywords, any white space / comments) is not read back as the written (key, name) pairs",
                                 t1write_json(pad, small), header_intent(small),
                                 impl_t1puts(written_header(pad, small)), {"op": "t1write"}))
        lines.append("t1write " + sep_word(pad) + "".join(" " + header_item_word(it) for it in items))
        meta.append((data_, impl, pad, items))
    if ctx.driver is not None and lines:
        for ln, (data_, impl, pad, items), rep in zip(lines, meta, ctx.driver.ask(lines)):
            parts = rep.split(" ", 1)
            if parts[0] != C.hx(data_):
                ctx.disagree("t1write.bytes", t1write_json(pad, items), C.hx(data_)[:300], parts[0][:300])
            elif len(parts) < 2 or parts[1] != impl:
                ctx.disagree("t1write.roundtrip-rhs", t1write_json(pad, items), impl[:300], rep[-300:])


def run_utf8(ctx: C.Ctx) -> None:
    """utf8Encode / utf8Chars (model) against str.encode / bytes.decode('utf-8') (what literal_name uses)."""
    rng = ctx.rng
    lines, mine = [], []
    edge = [0, 0x7F, 0x80, 0x7FF, 0x800, 0xD7FF, 0xE000, 0xFFFF, 0x10000, 0x10FFFF]
    for i in range(ctx.n(600, 20000)):
        if i < len(edge):
            sname = chr(edge[i])
        else:
            sname = gen_name_string(rng)
        enc = sname.encode("utf-8")
        ctx.case(("utf8enc", sname), bool(sname), branch="utf8:encode")
        for ch in sname:
            ctx.branch("utf8:encode:%d-byte" % len(ch.encode("utf-8")))
        lines.append("utf8enc " + cps_word(sname))
        mine.append(C.hx(enc))
        if enc.decode("utf-8") != sname:
            cfail(ctx, C.Failure("UTF-8: decode(encode(s)) differs from s", {"op": "utf8", "s": cps_word(sname)},
                                 cps_word(sname), cps_word(enc.decode("utf-8", "replace")), {"op": "utf8"}))
        # decoding: the encoding as it is, and damaged (truncated, over-long forms, surrogates, bytes above F4, stray
        # continuation bytes)
        b = bytearray(enc)
        kind = "asis"
        if i % 2 == 1:
            kind = "damaged"
            for _ in range(rng.randint(1, 3)):
                r = rng.random()
                if r < 0.3 and b:
                    del b[rng.randrange(len(b))]
                elif r < 0.7:
                    pos = rng.randrange(len(b) + 1)
                    b[pos:pos] = rng.choice([b"\xc0\x80", b"\xc1\xbf", b"\xe0\x80\x80", b"\xe0\x9f\xbf", b"\xed\xa0\x80",
                                             b"\xed\xbf\xbf", b"\xf0\x80\x80\x80", b"\xf0\x8f\xbf\xbf", b"\xf4\x90\x80\x80",
                                             b"\xf5\x80\x80\x80", b"\xff", b"\x80", b"\xbf", b"\xc2", b"\xe2\x82", b"\xf0\x9f\x98",
                                             b"\xc2\x80", b"\xef\xbf\xbf", b"\xf4\x8f\xbf\xbf", b"\xee\x80\x80"])
                elif b:
                    b[rng.randrange(len(b))] = rng.randrange(256)
        data_ = bytes(b)
        try:
            dec = "V " + (",".join("%x" % ord(ch) for ch in data_.decode("utf-8")) or "-")
        except UnicodeDecodeError:
            dec = "E"
        ctx.case(("utf8dec", data_), True, branch="utf8:decode:" + kind)
        ctx.branch("utf8:decode->" + dec[0])
        lines.append("utf8dec " + C.hx(data_))
        mine.append(dec)
    if ctx.driver is not None:
        for ln, a, bb in zip(lines, mine, ctx.driver.ask(lines)):
            if a != bb:
                ctx.disagree(ln.split(" ")[0], {"arg": ln.split(" ", 1)[1][:300]}, a[:200], bb[:200])


def run_t1write(ctx: C.Ctx) -> None:
    rng = ctx.rng
    cases = []
    for _ in range(ctx.n(400, 8000)):
        cases.append((gen_sep(rng, False), gen_header_items(rng)))
    check_t1write(ctx, cases)


def run_utf16(ctx: C.Ctx) -> None:
    rng = ctx.rng
    lines, mine = [], []
    for _ in range(ctx.n(1000, 40000)):
        n = rng.choice([0, 1, 2, 3, 4, 5, 6, 8])
        b = bytes(rng.choice([0xD8, 0xDB, 0xDC, 0xDF, 0x00, 0x41, 0xFF, rng.randint(0, 255)]) for _ in range(n))
        ref = b.decode("utf-16-be", "ignore")
        if utf16be_ignore(b) != ref:
            ctx.disagree("spec-twin:utf16", {"bytes": b.hex()}, cps(ref), cps(utf16be_ignore(b)))
        ctx.case(("utf16", b), n >= 2, branch="utf16")
        lines.append("utf16 " + C.hx(b))
        mine.append(cps(ref))
    if ctx.driver is not None:
        for ln, a, b in zip(lines, mine, ctx.driver.ask(lines)):
            if a != b:
                ctx.disagree("utf16", ln, a, b)


def run_refdata(ctx: C.Ctx, only: Optional[Tuple[str, str]] = None) -> None:
    """The three data tables of the implementation against the reference copies of the external documents they
    transcribe (Adobe Glyph List 2.0, PDF Reference Annex D, Adobe core-14 AFM widths): tools/harness/props/c06_refdata.json."""
    with open(os.path.join(os.path.dirname(os.path.abspath(__file__)), "c06_refdata.json")) as fp:
        ref = json.load(fp)
    d = data()

    def bad(table, key, exp, got):
        cfail(ctx, C.Failure("font data table differs from the reference copy of the document it transcribes",
                           {"op": "table", "table": table, "key": key}, exp, got, {"op": "table", "table": table}))

    gl = {k: [ord(c) for c in v] for k, v in d["gl"].items()}
    for k in sorted(set(gl) | set(ref["glyphlist"])):
        if only and only != ("glyphlist", k):
            continue
        ctx.case(("ref", "glyphlist", k), True, branch="refdata:glyphlist")
        if gl.get(k) != ref["glyphlist"].get(k):
            bad("glyphlist", k, ref["glyphlist"].get(k), gl.get(k))
    rows = {r[0] + "#%d" % i: list(r) for i, r in enumerate(d["enc"])}
    rrows = {r[0] + "#%d" % i: list(r) for i, r in enumerate(ref["encoding"])}
    for k in sorted(set(rows) | set(rrows)):
        if only and only != ("encoding", k):
            continue
        ctx.case(("ref", "encoding", k), True, branch="refdata:encoding")
        if rows.get(k) != rrows.get(k):
            bad("encoding", k, rrows.get(k), rows.get(k))
    for f in sorted(set(d["fm"]) | set(ref["metrics"])):
        a = {("%x" % ord(c)): w for c, w in d["fm"].get(f, {}).items()}
        b = ref["metrics"].get(f, {})
        for k in sorted(set(a) | set(b)):
            if only and only != ("metrics", f + "/" + k):
                continue
            ctx.case(("ref", "metrics", f, k), True, branch="refdata:metrics")
            if a.get(k) != b.get(k):
                bad("metrics", f + "/" + k, b.get(k), a.get(k))


# --- independent validation of the data tables (no copy of pdfminer's data involved) -----------------------------

# codes where ISO 32000-1 Annex D deliberately differs from the platform codec (footnotes of Table D.2)
CODEC_EXCEPTIONS = {
    ("WinAnsiEncoding", 0xA0): " ",      # "SPACE shall also be encoded as 240 (octal) in WinAnsiEncoding"
    ("WinAnsiEncoding", 0xAD): "-",      # "HYPHEN shall also be encoded as 255 (octal) in WinAnsiEncoding"
    ("MacRomanEncoding", 0xCA): " ",     # "SPACE shall also be encoded as 312 (octal) in MacRomanEncoding"
    ("MacRomanEncoding", 0xDB): "\u00a4",  # currency (Python's mac_roman is the post-1998 table with the Euro sign)
    ("StandardEncoding", 0x27): "\u2019",  # quoteright
    ("StandardEncoding", 0x60): "\u2018",  # quoteleft
}
# characters of Mac OS Roman that are not in the PDF Latin character set (absent from PDF's MacRomanEncoding)
MAC_ABSENT = {0xAD, 0xB0, 0xB2, 0xB3, 0xB6, 0xB7, 0xB8, 0xB9, 0xBA, 0xBD, 0xC3, 0xC5, 0xC6, 0xD7, 0xF0}
CODEC_OF = {"WinAnsiEncoding": ("cp1252", range(32, 256)), "MacRomanEncoding": ("mac_roman", range(32, 256)),
            "PDFDocEncoding": ("latin-1", list(range(32, 127)) + [c for c in range(0xA1, 0x100) if c != 0xAD]),
            "StandardEncoding": ("ascii", range(32, 127))}
ACCENTS = {"acute": "\u0301", "grave": "\u0300", "circumflex": "\u0302", "dieresis": "\u0308", "tilde": "\u0303",
           "ring": "\u030a", "caron": "\u030c", "cedilla": "\u0327", "macron": "\u0304", "breve": "\u0306",
           "ogonek": "\u0328", "dotaccent": "\u0307", "hungarumlaut": "\u030b",
           "commaaccent": "\u0327"}   # AGL names the Unicode 1.x "cedilla" letters "commaaccent"
ACCENT_EXCEPTIONS = {"dmacron": "\u0111", "ldotaccent": "\u0140", "Ldotaccent": "\u013f",   # AGL: d with stroke, L with middle dot
                     "Scommaaccent": "\u0218", "scommaaccent": "\u0219"}                  # the one real comma-below pair
GREEK = ["Alpha", "Beta", "Gamma", "Epsilon", "Zeta", "Eta", "Theta", "Iota", "Kappa", "Nu", "Xi", "Omicron", "Pi",
         "Rho", "Sigma", "Tau", "Upsilon", "Phi", "Chi", "Psi"]   # Delta/Omega/mu are the symbol code points in AGL


def independent_checks(only: Optional[Tuple[str, str]] = None):
    """Yields (table, key, expected, got) for every entry checked; expected comes from Python's codecs /
    unicodedata / the AGL rules, never from pdfminer's tables."""
    import string
    import unicodedata
    from pdfminer.encodingdb import EncodingDB, name2unicode
    d = data()
    for enc, (codec, codes) in CODEC_OF.items():
        col = ENC_COL[enc]
        table: Dict[int, str] = {}
        for row in d["enc"]:
            if row[col]:
                table[row[col]] = d["gl"].get(row[0])      # through the glyph list only (not via name2unicode)
        for c in codes:
            key = "%s/%d" % (enc, c)
            if only and only != ("codec", key):
                continue
            try:
                e = bytes([c]).decode(codec)
            except UnicodeDecodeError:
                e = None
            if e is not None and not e.isprintable() and e != "\xa0" and e != "\xad":
                e = None
            e = CODEC_EXCEPTIONS.get((enc, c), e)
            if enc == "MacRomanEncoding" and c in MAC_ABSENT:
                e = None
            g = table.get(c)
            yield ("codec", key, e, g)
            # the table the implementation actually serves must be the same thing
            yield ("codec-impl", key, g, EncodingDB.get_encoding(enc).get(c))
    gl = d["gl"]
    for L in string.ascii_letters + string.digits:
        nm = L if L.isalpha() else ["zero", "one", "two", "three", "four", "five", "six", "seven", "eight", "nine"][int(L)]
        if not only or only == ("unicodedata", nm):
            yield ("unicodedata", nm, L, gl.get(nm))
        if L.isalpha():
            for a, cm in ACCENTS.items():
                nm = L + a
                if nm in gl and (not only or only == ("unicodedata", nm)):
                    exp = ACCENT_EXCEPTIONS.get(nm, unicodedata.normalize("NFC", L + cm))
                    yield ("unicodedata", nm, exp, gl[nm])
    for gname in GREEK:
        for nm, un in ((gname, "GREEK CAPITAL LETTER " + gname.upper()), (gname.lower(), "GREEK SMALL LETTER " + gname.upper())):
            if nm in gl and (not only or only == ("unicodedata", nm)):
                yield ("unicodedata", nm, unicodedata.lookup(un), gl[nm])
    # self-consistency of list and uniXXXX rule: spelling the value of an entry as uniXXXX.. gives the value back,
    # values are 1-4 scalar values, names are non-empty printable ASCII without '.', '_' or '/'
    for nm, v in gl.items():
        if only and only != ("selfconsistency", nm):
            continue
        ok_shape = (1 <= len(v) <= 4 and all(_scalar(ord(ch)) for ch in v) and nm != "" and
                    all(33 <= ord(ch) < 127 and ch not in "._/" for ch in nm))
        yield ("selfconsistency", nm, True, ok_shape)
        if all(ord(ch) <= 0xFFFF for ch in v):
            uni = "uni" + "".join("%04X" % ord(ch) for ch in v)
            try:
                back = name2unicode(uni)
            except Exception as e:  # noqa: BLE001
                back = "EXC:" + type(e).__name__
            yield ("selfconsistency", nm, v, back)


def run_independent(ctx: C.Ctx, only: Optional[Tuple[str, str]] = None) -> None:
    for table, key, exp, got in independent_checks(only):
        ctx.case(("indep", table, key, repr(exp)), True, branch="independent:" + table)
        if exp != got:
            cfail(ctx, C.Failure("font data table differs from an independent source (platform codec / unicodedata / "
                               "AGL rule)", {"op": "table-indep", "table": table, "key": key},
                               None if exp is None else (cps(exp) if isinstance(exp, str) else exp),
                               None if got is None else (cps(got) if isinstance(got, str) else got),
                               {"op": "table-indep", "table": table}))


def run_tables(ctx: C.Ctx) -> None:
    """The regenerated Lean tables equal the Python objects (data tie)."""
    if ctx.driver is None:
        return
    d = data()
    lines = ["tab.glyphcount", "tab.enccount", "tab.facts"]
    exp = [str(len(d["gl"])), str(len(d["enc"])),
           "glyph-values-nonempty=true rows-resolve=true rows-judged=true"]
    for k in sorted(d["fm"]):
        lines.append("tab.metrics " + name_arg(("s", k)))
        exp.append(" ".join("%x:%d" % (ord(ch), w) for ch, w in sorted(d["fm"][k].items())) or "-")
    lines.append("tab.metrics " + name_arg(("s", "NoSuchFont")))
    exp.append("none")
    for i, row in enumerate(d["enc"]):
        lines.append("tab.encrow %d" % i)
        exp.append("%s %s" % (name_arg(("s", row[0])), " ".join("-" if v is None else str(v) for v in row[1:])))
    outs = ctx.driver.ask(lines)
    for ln, a, b in zip(lines, exp, outs):
        ctx.case(("tab", ln), True, branch="table-row")
        if a != b:
            ctx.disagree("table", ln, a[:100], b[:100])


# ---------------------------------------------------------------------------------------------

def run_corpus(ctx: C.Ctx) -> None:
    for path in sorted(glob.glob(os.path.join(C.VERIF, "corpus", "C06", "*.json"))):
        with open(path) as fp:
            doc = json.load(fp)
        replay(ctx, doc, from_corpus=True)


def replay(ctx: C.Ctx, doc, from_corpus: bool = False) -> None:
    inp = doc.get("input", {})
    label = "corpus" if from_corpus else "replay"
    op = inp.get("op")
    for pre in inp.get("prelude", []):        # state carried across calls: what the implementation was asked before
        try:
            if pre.get("op") == "enc":
                impl_get_encoding(pre["base"], diff_from_json(pre["differences"]))
            elif pre.get("op") == "font":
                impl_fonts([pre["font"]])
        except Exception:  # noqa: BLE001
            pass
    if op == "name":
        a = inp["name"]
        tok = ("s", bytes.fromhex(a[1:] if a[1:] != "-" else "").decode("utf-8")) if a[0] == "s" \
            else ("b", bytes.fromhex(a[1:]))
        check_names(ctx, [(tok, [label])], label)
    elif op == "enc":
        check_encodings(ctx, [(inp["base"], diff_from_json(inp["differences"]), [label])])
    elif op == "font":
        check_fonts(ctx, [(f2, [label + ":context"]) for f2 in inp.get("doc", [])] + [(inp["font"], [label])])
    elif op == "fontres":
        check_fontres(ctx, [(inp["doc"], [label])], label)
    elif op == "t1write":
        check_t1write(ctx, [(_sep_from_word(inp["pad"]), [_item_from_word(w) for w in inp["items"]])], label)
    elif op == "table":
        run_refdata(ctx, (inp["table"], inp["key"]))
    elif op == "table-indep":
        run_independent(ctx, (inp["table"].replace("codec-impl", "codec"), inp["key"]))


def run(ctx: C.Ctx) -> None:
    run_corpus(ctx)
    run_independent(ctx)
    run_refdata(ctx)
    run_tables(ctx)
    run_utf16(ctx)
    run_t1puts(ctx)
    run_utf8(ctx)
    run_t1write(ctx)
    run_names(ctx)
    run_encodings(ctx)
    run_fontres(ctx)
    run_fonts(ctx)
