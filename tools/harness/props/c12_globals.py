"""C12 — tie of Model/ProcGlobals.lean (explicit process-wide state + per-page interpreter state) to the code.

A *page* is a `/ColorSpace` resource dictionary plus a content stream of text-state, colour-space and
`q`/`Q` operators, stray names and unknown operators.  A *call* renders a list of pages with ONE
`PDFPageInterpreter` (`render_contents` per page, as `process_page` does); a *history* is a list of calls in
this process — which has usually already run the document histories of c12.py.

Checked after every call
  (model == impl)  csmap (keys, names, component counts, in order), current colour spaces, text state,
                   len(gstack), raised-or-not of every page; the names / operators the call ADDED to
                   `PSLiteralTable.dict` / `PSKeywordTable.dict` (in order); PREDEFINED_COLORSPACE, FONT_METRICS
                   digests and settings.STRICT as the model's (regenerated) globals say;
  (property)       the state of a page inside any call / after any history equals the state of the same page
                   rendered alone by a fresh interpreter at the start; interned symbols keep their identity.
"""
from __future__ import annotations

import io
from typing import Any, Dict, List, Optional, Tuple

from harness import common as C

OPS = ["Tc", "Tw", "Tz", "TL", "Ts", "Tr", "Tf", "q", "Q", "cs", "CS"]      # keyword ids 0..10
DEV = ["G", "g", "RG", "rg", "K", "k"]                                        # keyword ids 11..16
ICCBASED, DEVICEN = 100, 101


class Names:
    """numbering of literal names and operator keywords shared with the driver"""

    def __init__(self) -> None:
        from pdfminer.pdfcolor import PREDEFINED_COLORSPACE
        self.lit: Dict[str, int] = {k: i for i, k in enumerate(PREDEFINED_COLORSPACE)}
        self.lit["ICCBased"] = ICCBASED
        self.lit["DeviceN"] = DEVICEN
        self.kw: Dict[bytes, int] = {k.encode(): i for i, k in enumerate(OPS + DEV)}

    def lit_id(self, name: str) -> int:
        if name not in self.lit:
            self.lit[name] = 2000 + len(self.lit)
        return self.lit[name]

    def kw_id(self, name: bytes) -> int:
        if name not in self.kw:
            self.kw[name] = 1000 + len(self.kw)
        return self.kw[name]


def gen_page(rng, tag: str, serial: List[int]) -> Dict[str, Any]:
    """{"cs": [(key, kind, arg)], "ops": [(op, name|None, value|None)]} — plain data, JSON-able"""
    from pdfminer.pdfcolor import PREDEFINED_COLORSPACE
    pre = list(PREDEFINED_COLORSPACE)

    def fresh(prefix: str) -> str:
        serial[0] += 1
        return "%s%s%d" % (prefix, tag, serial[0])
    keys = ["CS0", "CS1", "CS2", rng.choice(pre), "DeviceGray", fresh("Cs")]
    cs: List[Tuple[str, str, Any]] = []
    for _ in range(rng.choice([0, 1, 2, 3, 4])):
        key = rng.choice(keys)
        if any(e[0] == key for e in cs):
            continue                  # a dictionary has every key once
        kind = rng.choice(["name", "name", "array", "icc", "devicen", "unknown", "bareicc"])
        if kind in ("name", "array"):
            cs.append((key, kind, rng.choice(pre)))
        elif kind == "icc":
            cs.append((key, "icc", rng.choice([1, 3, 4])))
        elif kind == "devicen":
            cs.append((key, "devicen", rng.randint(1, 5)))
        elif kind == "unknown":
            cs.append((key, "name", rng.choice(["NoSuchSpace", fresh("Sp")])))
        else:
            cs.append((key, "name", "ICCBased"))
    ops: List[Tuple[str, Optional[str], Optional[int]]] = []
    for _ in range(rng.randint(2, 9)):
        k = rng.choice(["Tc", "Tw", "Tz", "TL", "Ts", "Tr", "Tf", "q", "q", "Q", "Q", "cs", "CS", "cs", "lit", "unknown", "dev", "dev"])
        if k in ("Tc", "Tw", "Tz", "TL", "Ts"):
            ops.append((k, None, rng.randint(-9, 120)))
        elif k == "Tr":
            ops.append((k, None, rng.randint(0, 7)))
        elif k == "Tf":
            ops.append((k, rng.choice(["F1", "F2", fresh("F")]), rng.randint(1, 40)))
        elif k in ("cs", "CS"):
            ops.append((k, rng.choice(keys + pre[:5] + ["Undefined", fresh("U")]), None))
        elif k == "lit":
            ops.append((k, rng.choice(["Stray", fresh("N")]), None))
        elif k == "unknown":
            ops.append((k, rng.choice(["zq1", fresh("zq")]), None))
        elif k == "dev":
            ops.append((rng.choice(DEV), None, None))
        else:
            ops.append((k, None, None))
    return {"cs": [list(e) for e in cs], "ops": [list(e) for e in ops]}


def page_content(pg: Dict[str, Any]) -> bytes:
    out = []
    for k, name, v in pg["ops"]:
        if k in ("Tc", "Tw", "Tz", "TL", "Ts", "Tr"):
            out.append(b"%d %s" % (v, k.encode()))
        elif k == "Tf":
            out.append(b"/%s %d Tf" % (name.encode(), v))
        elif k in ("cs", "CS"):
            out.append(b"/%s %s" % (name.encode(), k.encode()))
        elif k == "lit":
            out.append(b"/%s" % name.encode())
        elif k == "unknown":
            out.append(name.encode())
        elif k in DEV:
            out.append(b" ".join([b"0.5"] * [1, 3, 4][DEV.index(k) // 2]) + b" " + k.encode())
        else:
            out.append(k.encode())
    return b" ".join(out) + b"\n"


def page_resources(pg: Dict[str, Any]) -> Dict[str, Any]:
    """the resource dictionary as a parse would hand it over (names are interned literals)"""
    from pdfminer.pdftypes import PDFStream
    from pdfminer.psparser import LIT
    if not pg["cs"]:
        return {}
    d: Dict[str, Any] = {}
    for key, kind, arg in pg["cs"]:
        if kind == "name":
            d[key] = LIT(arg)
        elif kind == "array":
            d[key] = [LIT(arg), {"Gamma": 2}]
        elif kind == "icc":
            d[key] = [LIT("ICCBased"), PDFStream({"N": arg}, b"")]
        else:
            d[key] = [LIT("DeviceN"), [LIT("c%d" % i) for i in range(arg)], LIT("DeviceCMYK")]
    return {"ColorSpace": d}


def page_tokens(pg: Dict[str, Any], nm: Names) -> List[int]:
    toks: List[int] = [len(pg["cs"])]
    for key, kind, arg in pg["cs"]:
        if kind in ("name", "array"):
            toks += [nm.lit_id(key), 0, nm.lit_id(arg)]
        elif kind == "icc":
            toks += [nm.lit_id(key), 1, arg]
        else:
            toks += [nm.lit_id(key), 2, arg]
    toks.append(len(pg["ops"]))
    for k, name, v in pg["ops"]:
        if k in OPS:
            toks += [OPS.index(k), nm.lit_id(name) if name is not None else 0, (v + 1000) if v is not None else 0]
        elif k in DEV:
            toks += [13, DEV.index(k) // 2, 1 if DEV.index(k) % 2 == 0 else 0]
        elif k == "lit":
            toks += [11, nm.lit_id(name), 0]
        else:
            toks += [12, nm.kw_id(name.encode()), 0]
    return toks


def _num(x) -> Any:
    return int(x) if isinstance(x, (int, float)) and x == int(x) else repr(x)


def impl_state(interp, raised: bool, nm: Names) -> str:
    def cs(c) -> str:
        return "none" if c is None else "%d:%d" % (nm.lit_id(c.name), c.ncomponents)
    t = interp.textstate
    return "csmap=%s scs=%s ncs=%s ts=%s gs=%d err=%d" % (
        ",".join("%d:%d:%d" % (nm.lit_id(k), nm.lit_id(v.name), v.ncomponents) for k, v in interp.csmap.items()),
        cs(interp.scs), cs(interp.ncs),
        ",".join(str(_num(x)) for x in (t.fontsize, t.charspace, t.wordspace, t.scaling, t.leading, t.render, t.rise)),
        len(interp.gstack), 1 if raised else 0)


def render_call(pages: List[Dict[str, Any]], nm: Names, resources: Optional[List[Any]] = None) -> List[str]:
    """one interpreter, the pages in order: exactly the per-page part of `process_page`"""
    from pdfminer.pdfdevice import PDFDevice
    from pdfminer.pdfinterp import PDFInterpreterError, PDFPageInterpreter, PDFResourceManager
    from pdfminer.pdftypes import PDFStream
    rsrcmgr = PDFResourceManager()
    interp = PDFPageInterpreter(rsrcmgr, PDFDevice(rsrcmgr))
    out = []
    for i, pg in enumerate(pages):
        res = resources[i] if resources is not None else page_resources(pg)
        raised = False
        try:
            interp.render_contents(res, [PDFStream({}, page_content(pg))])
        except PDFInterpreterError:
            raised = True
        out.append(impl_state(interp, raised, nm))
    return out


def static_line(nm: Names) -> str:
    from pdfminer import settings
    from pdfminer.fontmetrics import FONT_METRICS
    from pdfminer.pdfcolor import PREDEFINED_COLORSPACE
    fm = 0
    for i, (_k, v) in enumerate(FONT_METRICS.items()):
        fm += (i + 1) * (len(v[1]) * 1000003 + int(round(sum(v[1].values()))))
    return "cs=%s fm=%d nfm=%d strict=%d" % (
        ",".join("%d:%d:%d" % (nm.lit_id(k), nm.lit_id(v.name), v.ncomponents) for k, v in PREDEFINED_COLORSPACE.items()),
        fm % 2305843009213693951, len(FONT_METRICS), 1 if settings.STRICT else 0)


def new_keys(table: Dict[Any, Any], n0: int) -> List[Any]:
    import itertools
    return list(itertools.islice(table, n0, None))


def run_one(ctx: C.Ctx, hist: List[List[int]], pool: List[Dict[str, Any]], record: bool = True,
            strict_calls: Tuple[int, ...] = (), fresh: Optional[List[str]] = None) -> Optional[Tuple[str, Any, Any]]:
    """run a history (lists of pool indices) on pdfminer and on the model; returns the first property failure"""
    from pdfminer import settings
    from pdfminer.fontmetrics import FONT_METRICS
    from pdfminer.psparser import KWD, LIT, PSKeywordTable, PSLiteralTable
    nm = Names()
    for pg in pool:
        page_tokens(pg, nm)                       # number every name of the universe first
    # resources are built before the tables are marked: what a call adds is what its CONTENT names
    resources = [page_resources(pg) for pg in pool]
    failure: Optional[Tuple[str, Any, Any]] = None
    held = {k: LIT(k) for k in list(nm.lit)[:6] + list(nm.lit)[-2:]}
    held_kw = {k: KWD(k) for k in list(nm.kw)[:4] + list(nm.kw)[-1:]}
    # the first calls of every history: each page alone (a fresh interpreter per call)
    hist = [[i] for i in range(len(pool))] + [list(c) for c in hist]
    strict_calls = tuple(c + len(pool) for c in strict_calls)
    alone: List[Optional[str]] = [None] * len(pool)
    lits0 = [nm.lit[k] for k in PSLiteralTable.dict if isinstance(k, str) and k in nm.lit]
    kws0 = [nm.kw[k] for k in PSKeywordTable.dict if isinstance(k, bytes) and k in nm.kw]
    lines = ["ginit %d %s %d %s" % (len(lits0), " ".join(map(str, lits0)), len(kws0), " ".join(map(str, kws0)))]
    marks: List[Tuple[Any, ...]] = []
    impl: List[Any] = []
    for cno, call in enumerate(hist):
        strict = cno in strict_calls
        n_l, n_k = len(PSLiteralTable.dict), len(PSKeywordTable.dict)
        if strict:
            lines.append("gstrict 1")
        saved = settings.STRICT
        try:
            if strict:
                settings.STRICT = True            # the option "strict parsing", restored right after the call
            states = render_call([pool[i] for i in call], nm, [resources[i] for i in call])
            stat = static_line(nm)
        finally:
            settings.STRICT = saved
        add_l = [nm.lit.get(k, -1) if isinstance(k, str) else -2 for k in new_keys(PSLiteralTable.dict, n_l)]
        add_k = [nm.kw.get(k, -1) if isinstance(k, bytes) else -2 for k in new_keys(PSKeywordTable.dict, n_k)]
        toks: List[int] = [len(call)]
        for i in call:
            toks += page_tokens(pool[i], nm)
        lines.append("gcall " + " ".join(map(str, toks)))
        if strict:
            lines.append("gstrict 0")
        impl.append((states, add_l, add_k, stat, strict))
        # property on the implementation
        if cno < len(pool):
            alone[cno] = states[0]
            if fresh is not None and failure is None and states[0] != fresh[cno]:
                failure = ("a page rendered in this process (after its history) differs from the same page rendered "
                           "in a FRESH python process", fresh[cno], states[0])
        elif failure is None and not strict:
            for i, st in zip(call, states):
                if st != alone[i]:
                    failure = ("a page rendered after other pages / calls differs from the same page rendered alone "
                               "by a fresh interpreter (per-page state or process-wide table leaked)", alone[i], st)
                    break
        if failure is None:
            if any(LIT(k) is not v for k, v in held.items()) or any(KWD(k) is not v for k, v in held_kw.items()):
                failure = ("an interned name lost its identity", "LIT(name) is LIT(name)", "a new object")
            elif any(LIT(k).name != k for k in held):
                failure = ("an interned name has another name than the one asked for", None, None)
    keys = list(FONT_METRICS)
    probe = [ctx.rng.randrange(len(keys) + 3) for _ in range(3)]
    for i in probe:
        lines.append("gmetrics %d" % i)
    if ctx.driver is None or not record:
        return failure
    replies = ctx.driver.ask(lines)
    if replies is None or len(replies) != len(lines):
        ctx.disagree("c12.globals.driver", {"lines": lines[:3]}, "driver gave no answer", None)
        return failure
    it = iter(zip(lines, replies))
    first = next(it)[1]
    from pdfminer.pdfinterp import PDFTextState
    t0 = PDFTextState()
    ts0 = ",".join(str(_num(x)) for x in (t0.fontsize, t0.charspace, t0.wordspace, t0.scaling, t0.leading, t0.render, t0.rise))
    want0 = "ok # " + static_line(nm) + " ts0=csmap= scs=none ncs=none ts=" + ts0 + " gs=0 err=0"
    if first != want0:
        ctx.disagree("c12.globals.init", {"what": "PREDEFINED_COLORSPACE / FONT_METRICS / STRICT / PDFTextState()"}, want0, first)
    cno = 0
    for line, rep in it:
        if line.startswith("gstrict"):
            continue
        if line.startswith("gmetrics"):
            i = int(line.split()[1])
            want = "metrics none"
            if i < len(keys):
                w = FONT_METRICS[keys[i]][1]
                want = "metrics %d,%d" % (len(w), int(round(sum(w.values()))))
            ctx.case(("gmetrics", i), True, branch="globals:metrics-" + ("hit" if i < len(keys) else "miss"))
            if rep != want:
                ctx.disagree("c12.globals.metrics", {"key": i}, want, rep)
            continue
        states, add_l, add_k, stat, strict = impl[cno]
        want = "states " + ";".join(states) + " # alone=1 newlits=" + ",".join(map(str, add_l)) + \
            " newkw=" + ",".join(map(str, add_k)) + " " + stat
        key = ("gcall", tuple(tuple(map(repr, (pool[i]["cs"], pool[i]["ops"]))) for i in hist[cno]), strict)
        ctx.case(key, True, sample={"pages": [pool[i] for i in hist[cno]][:1]} if cno == 0 else None,
                 branch="globals:call-strict" if strict else "globals:call")
        if rep != want:
            ctx.disagree("c12.globals.call", {"call": cno, "pages": [pool[i] for i in hist[cno]], "strict": strict}, want, rep)
        else:
            for st in states:
                if "err=1" in st:
                    ctx.branch("globals:strict-error")
            if add_l:
                ctx.branch("globals:literal-table-grew")
            if add_k:
                ctx.branch("globals:keyword-table-grew")
            for i in hist[cno]:
                for k, _n, _v in pool[i]["ops"]:
                    ctx.branch("globals:op-" + k)
                for _key, kind, _a in pool[i]["cs"]:
                    ctx.branch("globals:cs-" + kind)
        cno += 1
    return failure


def fresh_worker_main() -> None:
    """in a FRESH python process: every page of the pool alone, numbering as in run_one"""
    import json
    import logging
    import sys
    logging.getLogger("pdfminer").setLevel(logging.ERROR)
    pool = json.load(sys.stdin)
    nm = Names()
    for pg in pool:
        page_tokens(pg, nm)
    json.dump([render_call([pg], nm)[0] for pg in pool], sys.stdout)


def fresh_process_states(pool: List[Dict[str, Any]]) -> Optional[List[str]]:
    import json
    import os
    import subprocess
    import sys
    code = "import sys; sys.path.insert(0, %r); from harness.props import c12_globals as G; G.fresh_worker_main()" % C.TOOLS
    env = dict(os.environ)
    env["VERIF_REPO"] = C.REPO
    env["PYTHONHASHSEED"] = str(len(pool) * 37 % 1000)
    try:
        p = subprocess.run([sys.executable, "-c", code], input=json.dumps(pool).encode(), capture_output=True,
                           env=env, timeout=60)
        return json.loads(p.stdout.decode())
    except Exception:  # noqa: BLE001
        return None


def gen_case(rng, tag: str) -> Tuple[List[Dict[str, Any]], List[List[int]], Tuple[int, ...]]:
    serial = [0]
    pool = [gen_page(rng, tag, serial) for _ in range(rng.randint(4, 7))]
    hist = []
    for _ in range(rng.randint(3, 6)):
        hist.append([rng.randrange(len(pool)) for _ in range(rng.randint(1, 4))])
    # every page right after every other page at least once
    hist.append(list(range(len(pool))) + list(reversed(range(len(pool)))))
    strict_calls = tuple(i for i in range(len(hist)) if rng.random() < 0.25)
    return pool, hist, strict_calls


def run_globals(ctx: C.Ctx, n: int) -> None:
    for k in range(n):
        tag = "s%sb%sk%d" % (ctx.seed, ctx.boost, k)
        pool, hist, strict_calls = gen_case(ctx.rng, tag + "x")
        fresh = fresh_process_states(pool) if k < 2 else None
        if k < 2:
            if fresh is None or len(fresh) != len(pool):
                ctx.disagree("c12.globals.fresh-process", {"pool": pool[:1]}, "no answer from the fresh process", None)
                fresh = None
            else:
                ctx.branch("globals:fresh-process-baseline")
        f = run_one(ctx, hist, pool, strict_calls=strict_calls, fresh=fresh)
        if f is not None:
            what, exp, got = f

            def still(sub):
                r = run_one(ctx, sub, pool, record=False, fresh=fresh)
                return r is not None and r[0] == what
            small = C.ddmin(hist, still, max_tests=25) if len(hist) > 1 else hist
            if not small or not still(small):
                small = hist
            ctx.fail(C.Failure(what, {"gpool": pool, "ghist": small, "gfresh": fresh is not None}, exp, got, {"op": "globals"}))
            return


def replay_globals(ctx: C.Ctx, inp: Dict[str, Any]) -> None:
    fresh = fresh_process_states(inp["gpool"]) if inp.get("gfresh") else None
    f = run_one(ctx, inp["ghist"], inp["gpool"], fresh=fresh)
    if f is not None:
        ctx.fail(C.Failure(f[0], inp, f[1], f[2], {"op": "globals"}))
