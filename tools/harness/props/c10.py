"""C10 - decryption: either password opens the document to exactly the original content.

Relations exercised on every run:
  (writer)  tools/harness/c10_ref.py, an encrypting writer written from ISO 32000-1/-2, is validated on
            the shipped samples/encryption/*.pdf (its key recovery opens them, its per-object
            decryption agrees with pdfminer on every string and stream);
  (prop)    pdfminer opens documents produced by that writer with the user and the owner password and
            returns exactly the plaintext strings / streams / text / permission flags; every other
            password raises PDFPasswordIncorrect (implementation vs the plaintext original);
  (tie)     the compiled Lean model (Model/Crypt.lean, hash/cipher primitives supplied as a table of
            the values hashlib/cryptography computed) == pdfminer on the same stored bytes: RC4,
            handler selection, file key, permission flags, every deciphered object;
  (twin)    the Lean writer (Spec/CryptWriter.lean) produces the same O/U/keys/ciphertexts as the
            Python writer, so the round-trip theorems speak about the bytes fed to pdfminer;
  (proof)   lean/PdfVerif/Props/C10.lean.
"""

from __future__ import annotations

import glob
import io
import json
import logging
import os
import random
import warnings
from typing import Any, Dict, List, Optional, Tuple

from harness import common as C
from harness import c10_ref as R
from harness import pdfwriter as W

LEVEL = "proof"
RULE = ("a case = one (encryption configuration, document, layout, password) tuple: configurations cover V1/R2, "
        "V2/R3 with Length 40..128, V4/R4 with V2/AESV2/Identity crypt filters, V5/R5, V5/R6, EncryptMetadata on/off, "
        "random P (signed/unsigned spelling), ID present/empty/absent, Encrypt direct/indirect; documents carry "
        "strings of block-boundary lengths, nested containers, streams (plain/Flate, with strings in their "
        "dictionaries, Metadata), generation numbers != 0, object ids up to 2^24-1, object streams + xref streams; "
        "passwords: user, owner, and wrong ones (near misses, > 32 bytes, non-Latin-1, SASLprep-relevant). "
        "Non-trivial = the document has >= 1 non-empty encrypted string or stream and the case is distinct")
TRUSTED_BASE = [
    "tools/harness/c10_ref.py: encrypting writer + reference key recovery written from ISO 32000-1 Alg. 1-7, Adobe "
    "ext. level 3 and ISO 32000-2 Alg. 2.A/2.B/8-10 (validated each run against the 8 shipped encrypted samples)",
    "hashlib MD5/SHA-256/384/512 and cryptography AES-CBC: abstract functions in Lean (AES-CBC an inverse pair); the "
    "driver evaluates the model with a table of the values these libraries returned",
    "stringprep/unicodedata tables for SASLprep (R6); PDF object syntax, xref and filters are C01-C03's subject",
    "hand model lean/PdfVerif/Model/Crypt.lean (correspondence is sampling); PASSWORD_PADDING is regenerated from "
    "pdfdocument.py on every run",
]
ASSUMPTIONS = [
    "documents are produced by a conforming writer: passwords have a key-derivation form (Latin-1 bytes for R<=4, "
    "SASLprep-valid for R6), 40 <= Length <= 128 and a multiple of 8, AES data is IV + whole PKCS#7-padded blocks, "
    "StmF = StrF (pdfminer documents this limit by raising PDFEncryptionError otherwise)",
    "wrong passwords are rejected up to collisions of the validation hash (cryptographic assumption; the Lean "
    "statement C10_rejects_partial carries it as an explicit hypothesis)",
    "MD5/SHA-2/AES are the functions hashlib/cryptography compute; AES-CBC decrypt inverts encrypt for equal key/IV; "
    "digests have 16 / 32 / 48 / 64 bytes (PrimsOK.md5_len, ShaLen - checked on every value handed to the driver)",
    "the /Length entry of a V >= 4 Encrypt dictionary is not the key length (ISO 32000-1 Table 20: only if V is 2 or 3): "
    "such documents are generated with /Length absent, 40, 64, 128 or 256 and must open like any other",
]
STATEMENT_STATUS: Dict[str, str] = {
    "C10_main": "proved: for every configuration (V1/V2 RC4 any length, V4 RC4/AESV2/Identity, V5 R5/R6 AESV3; any P, ID, "
                "EncryptMetadata, crypt-filter name, passwords, IVs) opening with the user password selects the registry's "
                "handler class, recovers the writer's file key, reports perms = bits 3/4/5 of P and getobj returns every "
                "direct object as before encryption; assumptions: PrimsOK, and for V5 the one no-collision clause below",
    "C10_open": "proved (handler selection + init_params checks + authenticate, all configurations)",
    "rc4_involution": "proved (every key, every data); rc4_involution_except for Arcfour's own API",
    "objkey_agree": "proved; objkey_agree_aes needs key >= 11 bytes; v4_file_key_length proves every V4 file key has 16 bytes, "
                    "so the deviation min(len(key)+9,16) vs min(n+5,16) is unreachable (also tested for lengths 1..32)",
    "computeKey_is_alg2": "proved: compute_encryption_key (constants regenerated from pdfdocument.py) = ISO Algorithm 2",
    "user_pw_accepts / owner_pw_accepts / authenticate_user_accepts": "proved for R2-R4 (owner_recovers_user: 20 RC4 layers)",
    "authenticate_owner_accepts_partial": "partial: authenticate() tries the user path first; remaining assumption: the owner "
                                          "password does not pass the U check unless it pads to the user's 32 bytes (H1)",
    "r56_user_accepts / r56_owner_accepts / r56_authenticate_owner / r56_authenticate_user_same_pw": "proved",
    "r56_authenticate_user_partial": "partial: exactly one assumption left - up != op -> H(up, ov, U) != H(op, ov, U) "
                                     "(the owner validation hash of this document does not collide between its two passwords)",
    "r6_password_is_algorithm_2B": "proved: _r6_password (while condition, repeat count translated from the source on every "
                                   "run; _bytes_mod_3 = big-endian integer mod 3) = ISO 32000-2 Algorithm 2.B for 8-byte salts",
    "r6_fuel_suffices": "proved unconditionally (the loop of _r6_password ends by round 288)",
    "C10_roundtrip_bytes / C10_roundtrip": "proved for RC4/AESV2/AESV3/Identity, whole objects, every objid/genno/IV, padding "
                                           "removed; encryptBytes_ne_nil removes the former non-emptiness hypothesis",
    "once_only_trace": "proved: the instrumented traversal (decipherAllT) makes exactly expectedCalls o - every non-empty string "
                       "once at any depth, the payload once, nothing for XRef streams - and projects to the pure model; "
                       "once_only_trace_elsewhere (objstm / trailer / Encrypt: zero calls); once_only_second_read_cached / "
                       "_uncached (cache state machine); tied to pdfminer by comparing real decipher calls each run",
    "getobj_two_phase / C10_stream_dict_before_decode / once_only_phases": "proved: strings (also of a stream dictionary) are "
        "deciphered by getobj itself, the payload by get_data(); getData(getobjLazy o) = getobj o for every well-formed object; the "
        "dictionary getobj hands out for an encrypted stream is the plaintext dictionary before any get_data(); tied to pdfminer "
        "by comparing the real cipher calls per phase (getobj | get_data | second getobj)",
    "perms_bits": "proved (bits 3/4/5 of the stored P); perms_of_signed_P relates signed and unsigned P",
    "C10_rejects_writer_partial": "partial (R2-R4): exactly two assumptions - H1 second-preimage resistance of the U check, "
                                  "H2 no other password yields an RC4 key decrypting O to the padded user password; "
                                  "C10_rejects_generic is assumption-free",
    "r56_rejects_writer_partial": "partial (R5/R6): the wrong password's two validation hashes do not collide with the owner's / user's",
    "rejects_non_latin1 / r6_rejects_saslprep_refused": "proved",
    "saslprep_model_eq_spec": "proved: control flow of _saslprep.saslprep = RFC 4013 / RFC 3454 section 6 for every table content; "
                              "sasl_tables_are_rfc4013 pins the regenerated table list; trusted: stringprep table contents, NFKC 3.2",
    "C10_aes_padding_cex": "proved counter-example for the pinned (pre-fix) AES decryption",
    "C10_either_password / C10_open_owner / C10_main_owner": "proved (round 6): for every configuration the owner password "
        "opens the document too and yields the very same handler (class, file key, P, crypt-filter map) as the user password, "
        "hence the same permissions and the same round trip; assumptions: those of C10_main plus Config.ownerValid (R2-R4: "
        "clause H1 - the code tries the user path first; R5/R6: none). C10_open_of_authenticate: handler selection, init_params "
        "and revision check succeed for every well-formed configuration whatever the password",
    "passwordHash_length / salts8_of_sha / C10_v5_valid_of_sha": "proved: _password_hash returns exactly 32 bytes for every "
        "revision/password/salt/vector from the SHA-2 digest lengths (ShaLen) - Salts8.hash_len is no longer a hypothesis; the "
        "digest lengths are checked on every primitive value handed to the driver",
    "unpad_total / unpad_prefix / unpad_unique": "proved: unpad_aes (bounds regenerated from the source) on every input - "
        "well-formed padding (n bytes of value n, 1..16, after any data) is removed, everything else (empty, last byte 0 or > 16, "
        "too short, differing byte) is returned unchanged; exclusive and exhaustive; tied by the driver op `unpad`",
    "objKeyRc4_length / objKeyAes_length / objKey_low_order_bytes": "proved: per-object keys have min(n+5,16) resp. min(n+9,16) "
        "bytes and depend only on objid mod 2^24 and genno mod 2^16; tied by the driver op `objkey` (key observed at the cipher)",
    "openHandler_method / decrypt_eq_table / selectMethod_is_spec": "proved: the crypt-filter decision of decrypt as a table "
        "(class x EncryptMetadata x Metadata stream x StrF's method) - exhaustive: every handler _initialize_password returns has "
        "class 1/4/5 and StrF names a method get_cfm of that class can return or Identity (no KeyError, the `none` row is "
        "unreachable); the table equals ISO 32000-1 7.6.5 (specSelect) for strings, streams and Metadata streams; tied by the "
        "driver ops `select` (model vs handler.decrypt with recording ciphers) and `spec.select` (Lean spec vs Python twin)",
    "get_cfm_is_standard / crypt_filter_constants": "proved over tables regenerated from pdfdocument.py on every run (get_cfm "
        "if/elif chains of V4 and V5, the built-in Identity filter, forced lengths 128/256, the Metadata bypass type, "
        "unpad bounds): an edit of the source breaks these proofs",
    "C10_open_error_of_authenticate": "proved: an error of authenticate is the error of the whole _initialize_password for "
        "every well-formed configuration",
    "C10_wrong_password_rejected_partial": "partial: document-level rejection for every configuration; the assumptions are "
        "exactly Config.wrongPassword = H1 + H2 (R2-R4) resp. the two no-collision clauses (R5/R6)",
    "C10_file_key_length": "proved: 5 bytes for R2, min(Length/8, 16) for R3/R4",
    "MD5, SHA-2, AES": "abstract parameters (Prims); not modelled",
}

CLASSIFIERS = {
    "c10_aes_padding_left": lambda f: f.tags.get("kind") == "aes-padding",
    "c10_non_latin1_password": lambda f: f.tags.get("kind") == "non-latin1-password",
    "c10_stream_dict_strings": lambda f: f.tags.get("kind") == "stream-dict-string",
    "c10_saslprep_error": lambda f: f.tags.get("kind") == "saslprep-error",
}

logging.getLogger("pdfminer").setLevel(logging.ERROR)


# ----------------------------------------------------------------------------- value trees <-> JSON / canonical text

def tree_to_json(v: Any) -> Any:
    if isinstance(v, bytes):
        return {"s": v.hex()}
    if isinstance(v, str):
        return {"n": v}
    if isinstance(v, W.Ref):
        return {"r": [v.n, v.gen]}
    if isinstance(v, R.PStream):
        return {"stream": tree_to_json(v.d), "data": v.data.hex(), "flate": v.flate}
    if isinstance(v, list):
        return [tree_to_json(x) for x in v]
    if isinstance(v, dict):
        return {"d": [[k, tree_to_json(x)] for k, x in v.items()]}
    return v


def tree_from_json(j: Any) -> Any:
    if isinstance(j, list):
        return [tree_from_json(x) for x in j]
    if isinstance(j, dict):
        if "s" in j:
            return bytes.fromhex(j["s"])
        if "n" in j:
            return j["n"]
        if "r" in j:
            return W.Ref(j["r"][0], j["r"][1])
        if "stream" in j:
            return R.PStream(tree_from_json(j["stream"]), bytes.fromhex(j["data"]), j["flate"])
        return {k: tree_from_json(x) for k, x in j["d"]}
    return j


def hx(b: bytes) -> str:
    return b.hex() if b else "-"


def atom(text: str) -> str:
    return "x:" + text.encode("latin-1").hex()


def canon_ref(v: Any, skip_length: bool = False) -> List[str]:
    """Canonical token list of a writer-side value tree (plaintext or stored form)."""
    if isinstance(v, bytes):
        return ["s:" + hx(v)]
    if v is None:
        return [atom("null")]
    if isinstance(v, bool):
        return [atom("true" if v else "false")]
    if isinstance(v, int):
        return [atom(str(v))]
    if isinstance(v, float):
        return [atom(repr(float(v)))]
    if isinstance(v, str):
        return [atom("/" + v)]
    if isinstance(v, W.Ref):
        return [atom("R%d" % v.n)]
    if isinstance(v, W.HexStr):
        return ["s:" + hx(v.b)]
    if isinstance(v, list):
        out = ["a:%d" % len(v)]
        for x in v:
            out += canon_ref(x)
        return out
    if isinstance(v, dict):
        items = sorted((k, x) for k, x in v.items() if not (skip_length and k == "Length"))
        out = ["d:%d" % len(items)]
        for k, x in items:
            out.append("k:" + k.encode("latin-1").hex())
            out += canon_ref(x)
        return out
    if isinstance(v, R.PStream):
        return ["t:" + hx(v.data)] + canon_ref({k: x for k, x in v.d.items()}, True)
    if isinstance(v, R.EStream):
        return ["t:" + hx(v.raw)] + canon_ref(v.d, True)
    raise TypeError(repr(v))


def canon_impl(v: Any, flate_ok: bool = True) -> List[str]:
    """Canonical token list of an object returned by pdfminer (streams: decoded data)."""
    from pdfminer.pdftypes import PDFObjRef, PDFStream
    from pdfminer.psparser import PSLiteral, PSKeyword
    if isinstance(v, bytes):
        return ["s:" + hx(v)]
    if v is None:
        return [atom("null")]
    if isinstance(v, bool):
        return [atom("true" if v else "false")]
    if isinstance(v, int):
        return [atom(str(v))]
    if isinstance(v, float):
        return [atom(repr(v))]
    if isinstance(v, PSLiteral):
        n = v.name
        return [atom("/" + (n if isinstance(n, str) else n.decode("latin-1")))]
    if isinstance(v, PSKeyword):
        return [atom("kw")]
    if isinstance(v, PDFObjRef):
        return [atom("R%d" % v.objid)]
    if isinstance(v, (list, tuple)):
        out = ["a:%d" % len(v)]
        for x in v:
            out += canon_impl(x)
        return out
    if isinstance(v, dict):
        items = sorted((k, x) for k, x in v.items())
        out = ["d:%d" % len(items)]
        for k, x in items:
            out.append("k:" + k.encode("latin-1").hex())
            out += canon_impl(x)
        return out
    if isinstance(v, PDFStream):
        # the dictionary is read BEFORE the data is decoded: what a caller sees right after getobj()
        before = canon_impl({k: x for k, x in v.attrs.items() if k not in ("Length", "Filter")})
        return ["t:" + hx(v.get_data())] + before
    raise TypeError(repr(v))


def stream_dict_views(doc, n: int) -> Dict[str, List[str]]:
    """The dictionary of stream object `n` as seen through different, equally legitimate call orders."""
    from pdfminer.pdftypes import PDFObjRef, PDFStream, resolve1

    def view(st) -> List[str]:
        return canon_impl({k: x for k, x in st.attrs.items() if k not in ("Length", "Filter")})
    out: Dict[str, List[str]] = {}
    st = doc.getobj(n)
    if not isinstance(st, PDFStream):
        return out
    out["after getobj"] = view(st)
    out["item access before decode"] = canon_impl({k: st[k] for k in st.attrs if k not in ("Length", "Filter")})
    st.get_data()
    out["after get_data"] = view(st)
    st2 = resolve1(PDFObjRef(doc, n))
    out["through a reference"] = view(st2)
    st2.get_rawdata()
    out["after get_rawdata"] = view(st2)
    return out


def canon_plain(v: Any) -> List[str]:
    """Expected canonical form of the plaintext original as pdfminer should return it."""
    if isinstance(v, R.PStream):
        return ["t:" + hx(v.data)] + canon_ref({k: x for k, x in v.d.items() if k not in ("Length", "Filter")})
    return canon_ref(v)


# ----------------------------------------------------------------------------- generators

ASCII_PW = ["", "a", "foo", "secret", "Pa55 w0rd!", "x" * 31, "y" * 32, "z" * 33, "0123456789" * 5, "(\\)", "\x00", " "]
LATIN_PW = ["caf\xe9", "\xff\xfe\xfd", "\x80\x9f\xa0", "\xe4\xf6\xfc" * 12, "(\xbfN^Nu", "(\xbfN^Nu\x8aAd\x00NV\xff\xfa\x01\x08"]
UNI_PW = ["p\u00e4ssw\u00f6rd", "\u5bc6\u7801", "\u043f\u0430\u0440\u043e\u043b\u044c", "\U0001F511key",
          "\ufb01le", "\u2168", "a\u00adb", "a\u00a0b", "\u00e9" * 70, "e\u0301", "\u212b",
          "\u0627\u0644\u0633\u0631", "\u05d0\u05d1\u05d2"]
# strings SASLprep rejects (prohibited / bidi) or maps to the empty string
BAD_SASL = ["\u00ad", "\u200b\u00ad", "a\x07b", "\x7f", "\u0627a", "a\u0627", "\ue000", "\u0378", "\ufffe",
            "\u0627\u0644a"]


def gen_doc_password(rng, R_: int) -> str:
    r = rng.random()
    if R_ <= 4:
        if r < 0.5:
            return rng.choice(ASCII_PW)
        if r < 0.75:
            return rng.choice(LATIN_PW)
        return "".join(chr(rng.randrange(256)) for _ in range(rng.choice([1, 3, 8, 31, 32, 33, 40])))
    pool = ASCII_PW + UNI_PW if R_ == 5 else [p for p in ASCII_PW + UNI_PW if R.prep_password_ok(p)]
    if r < 0.8:
        return rng.choice(pool)
    if R_ == 5 and r < 0.9:
        return rng.choice(BAD_SASL)          # R5 does no SASLprep: these are ordinary passwords
    return "".join(rng.choice("abcXYZ019 -_\u00e9\u00fc\u4e2d\u044f") for _ in range(rng.choice([1, 5, 20, 64, 130])))


def gen_cfg(rng, force: Optional[str] = None) -> R.Cfg:
    kind = force or rng.choice(["r2", "r3", "r3", "r4rc4", "r4aes", "r4aes", "r4id", "r5", "r5", "r6", "r6"])
    perms = rng.randrange(16) << 2 | rng.randrange(16) << 8
    P = (0xFFFFF0C0 | perms) - (1 << 32)
    if rng.random() < 0.15:
        P = rng.randrange(1, 1 << 32) - (1 << 32) if rng.random() < 0.5 else rng.randrange(1, 1 << 31)
        if rng.random() < 0.15:
            P = 0
    idr = rng.random()
    id0 = bytes(rng.randrange(256) for _ in range(16 if idr < 0.8 else rng.choice([0, 1, 7, 32])))
    have_id = rng.random() < 0.93
    em = rng.random() < 0.6
    length_key = True
    if kind == "r2":
        V, R_, length, method = 1, 2, 40, "RC4"
        length_key = rng.random() < 0.5
    elif kind == "r3":
        V, R_, length, method = rng.choice([1, 2, 2, 2]), 3, rng.choice([40, 48, 56, 64, 72, 80, 96, 104, 120, 128, 128]), "RC4"
        if V == 1:
            length = 40
            length_key = rng.random() < 0.5
    elif kind == "r4rc4":
        V, R_, length, method = 4, 4, 128, "RC4"
    elif kind == "r4aes":
        V, R_, length, method = 4, 4, 128, "AESV2"
    elif kind == "r4id":
        V, R_, length, method = 4, 4, 128, "Identity"
    elif kind == "r5":
        V, R_, length, method = 5, 5, 256, "AESV3"
    else:
        V, R_, length, method = 5, 6, 256, "AESV3"
    user = gen_doc_password(rng, R_)
    owner = gen_doc_password(rng, R_)
    if rng.random() < 0.1:
        owner = user
    if rng.random() < 0.3:
        user = ""
    cfg = R.Cfg(V, R_, length, method, P, id0, user, owner, em, have_id, length_key,
                rng.choice(["StdCF", "StdCF", "MyFilter"]), rng.random() < 0.15 and P < 0)
    if V >= 4 and rng.random() < 0.35:
        # round 6: the /Length entry of a V >= 4 Encrypt dictionary is not the key length (Table 20: "only if V is 2
        # or 3"); absent, or any multiple of 8 - the file key stays 16 / 32 bytes
        if rng.random() < 0.3:
            cfg.length_key = False
        else:
            cfg.dict_length = rng.choice([40, 64, 128, 256])
    return cfg


def gen_string(rng) -> bytes:
    n = rng.choice([0, 1, 2, 5, 15, 16, 17, 31, 32, 33, 47, 48, 64, rng.randrange(200)])
    r = rng.random()
    if r < 0.4:
        return bytes(rng.randrange(256) for _ in range(n))
    if r < 0.7:
        return bytes(rng.choice(b"abcdefghij XYZ()\\\r\n\t0123") for _ in range(n))
    # plaintexts that themselves look like PKCS#7 padding / end in small bytes
    k = rng.randrange(1, 17)
    return bytes(rng.randrange(256) for _ in range(max(0, n - k))) + bytes([k]) * k


def gen_value(rng, depth: int = 0) -> Any:
    r = rng.random()
    if depth >= 3 or r < 0.45:
        return gen_string(rng)
    if r < 0.55:
        return rng.choice([True, False, 0, -7, 123456, 1.5, "Name", "A B", W.Ref(1)])
    if r < 0.78:
        return [gen_value(rng, depth + 1) for _ in range(rng.randrange(0, 4))]
    return {rng.choice(["K", "Title", "Contents", "T", "V", "Sub", "Type2"]) + str(i): gen_value(rng, depth + 1)
            for i in range(rng.randrange(0, 4))}


def content_stream(rng) -> bytes:
    words = ["Hello", "World", "secret", "(paren)", "pdfminer", "C10", "caf\xe9"]
    ops = [b"BT /F1 12 Tf 72 720 Td"]
    for _ in range(rng.randrange(1, 5)):
        w = " ".join(rng.choice(words) for _ in range(rng.randrange(1, 4))).encode("latin-1")
        ops.append(W.ser_string(w) + b" Tj 0 -14 Td")
    ops.append(b"ET")
    return b"\n".join(ops)


def gen_document(rng, layout: str) -> Tuple[Dict[int, Tuple[int, Any]], int, int, List[int]]:
    """Returns (objs, root, info, objstm_members).  Page tree objects keep generation 0."""
    objs: Dict[int, Tuple[int, Any]] = {}
    objs[1] = (0, {"Type": "Catalog", "Pages": W.Ref(2), "Lang": gen_string(rng)})
    objs[3] = (0, dict(W.HELVETICA))
    kids = []
    n = 4
    for _ in range(rng.choice([1, 1, 2])):
        objs[n] = (0, R.PStream({}, content_stream(rng), flate=rng.random() < 0.5))
        objs[n + 1] = (0, {"Type": "Page", "Parent": W.Ref(2), "Contents": W.Ref(n),
                           "Resources": {"Font": {"F1": W.Ref(3)}}, "MediaBox": [0, 0, 612, 792],
                           "PieceInfo": {"App": {"Private": gen_string(rng)}}})
        kids.append(W.Ref(n + 1))
        n += 2
    objs[2] = (0, {"Type": "Pages", "Kids": kids, "Count": len(kids)})
    info = n
    objs[info] = (0, {"Title": gen_string(rng), "Author": b"A. U. Thor", "Empty": b"",
                      "CreationDate": b"D:20240101000000Z", "Custom": gen_value(rng)})
    n += 1
    free_gen = True
    for _ in range(rng.randrange(1, 6)):
        oid = n
        if free_gen and rng.random() < 0.35:
            oid = rng.choice([255, 256, 65535, 65536, 70000, (1 << 24) - 1, rng.randrange(100, 1 << 24)])
            while oid in objs or oid - 1 in objs or oid - 2 in objs:
                oid += 7
        else:
            n += 1
        gen = 0
        if free_gen and rng.random() < 0.4:
            gen = rng.choice([1, 2, 255, 256, 65535, rng.randrange(1, 65536)])
        r = rng.random()
        if r < 0.45:
            v: Any = gen_value(rng)
            if not isinstance(v, (bytes, list, dict)):
                v = [v, gen_string(rng)]      # bare atoms / references as whole objects are C01/C02's subject
        elif r < 0.8:
            d: Dict[str, Any] = {}
            if rng.random() < 0.5:
                d = {"Type": "EmbeddedFile", "Params": {"CheckSum": gen_string(rng), "ModDate": b"D:2024"}}
            v = R.PStream(d, gen_string(rng) * rng.choice([1, 1, 3, 40]), flate=rng.random() < 0.4)
        else:
            v = R.PStream({"Type": "Metadata", "Subtype": "XML"},
                          b"<?xpacket begin=''?><x:xmpmeta>" + gen_string(rng).hex().encode() + b"</x:xmpmeta>",
                          flate=False)
        objs[oid] = (gen, v)
    members: List[int] = []
    if layout in ("xrefstm", "hybrid"):
        cand = [k for k, (g, v) in objs.items() if g == 0 and not isinstance(v, R.PStream)]
        members = sorted(k for k in cand if rng.random() < 0.7)
    return objs, 1, info, members


def wrong_passwords(rng, cfg: R.Cfg) -> List[str]:
    out = []
    for base in (cfg.user, cfg.effective_owner()):
        out.append(base + "x")
        if base:
            out.append(base[:-1])
            out.append(base.swapcase() if base.swapcase() != base else base + " ")
            out.append(base[::-1])
        if cfg.R <= 4 and len(base) >= 32:
            out.append(base[:31] + "?")
    out.append(rng.choice(ASCII_PW))
    out.append(rng.choice(UNI_PW))                 # non-Latin-1 for R<=4
    out.append(rng.choice(BAD_SASL))
    if cfg.R <= 4:
        out.append("\u20ac" + cfg.user)
        out.append(cfg.user + "\u0100")
    rng.shuffle(out)
    return out[:rng.choice([3, 4, 6])]


def same_password_variants(rng, cfg: R.Cfg) -> List[str]:
    """Spellings that the standard maps to the same key-derivation input as the user/owner password."""
    out = []
    for base in (cfg.user, cfg.effective_owner()):
        if cfg.R <= 4:
            if len(base) >= 32:
                out.append(base + "tail")          # only the first 32 bytes count
            b = (base.encode("latin-1") + R.PAD)[:32]
            out.append(b.decode("latin-1"))        # the padded form itself
        elif cfg.R == 6:
            out.append("\u00ad" + base)            # B.1: mapped to nothing
            out.append(base.replace(" ", "\u00a0"))  # C.1.2: mapped to SPACE
    return [p for p in out if p not in (cfg.user, cfg.effective_owner())][:2]


# ----------------------------------------------------------------------------- one case

class Case:
    def __init__(self, cfg: R.Cfg, objs, root, info, members, layout: str, indirect: bool, wseed: int,
                 passwords: List[str], eol: bytes = b"\n", old=None):
        self.cfg, self.objs, self.root, self.info, self.members = cfg, objs, root, info, members
        self.old: Dict[int, Tuple[int, Any]] = dict(old or {})    # first-revision versions (incremental update)
        self.layout, self.indirect, self.wseed, self.passwords, self.eol = layout, indirect, wseed, passwords, eol

    def to_json(self) -> Dict[str, Any]:
        return {"cfg": self.cfg.to_json(),
                "objs": [[n, g, tree_to_json(v)] for n, (g, v) in sorted(self.objs.items())],
                "root": self.root, "info": self.info, "members": self.members, "layout": self.layout,
                "indirect": self.indirect, "wseed": self.wseed,
                "passwords": [[ord(c) for c in p] for p in self.passwords], "eol": self.eol.hex(),
                "old": [[n, g, tree_to_json(v)] for n, (g, v) in sorted(self.old.items())]}

    @staticmethod
    def from_json(j: Dict[str, Any]) -> "Case":
        return Case(R.Cfg.from_json(j["cfg"]), {n: (g, tree_from_json(v)) for n, g, v in j["objs"]}, j["root"],
                    j["info"], j["members"], j["layout"], j["indirect"], j["wseed"],
                    ["".join(chr(c) for c in p) for p in j["passwords"]], bytes.fromhex(j.get("eol", "0a")),
                    {n: (g, tree_from_json(v)) for n, g, v in j.get("old", [])})

    def write(self, encrypted: bool = True) -> R.Written:
        rng = random.Random(self.wseed)
        cfg = self.cfg if encrypted else None
        if encrypted:
            R.derive(self.cfg, rng)
        return R.write_document(self.objs, self.root, cfg, rng, self.layout, self.indirect, self.info,
                                self.members, self.eol, self.old)


def gen_case(rng, force: Optional[str] = None) -> Case:
    cfg = gen_cfg(rng, force)
    layout = rng.choice(["table", "table", "xrefstm", "xrefstm", "hybrid"])
    objs, root, info, members = gen_document(rng, layout)
    old = {}
    if rng.random() < 0.3:
        # incremental update: some objects have an older version in a first revision
        cand = [n for n, (g, v) in objs.items() if n > info]
        for n in rng.sample(cand, min(len(cand), rng.choice([1, 2]))):
            g, v = objs[n]
            if n in members or not isinstance(v, R.PStream):
                ov: Any = [b"old version", gen_string(rng)]
            else:
                ov = R.PStream({}, b"old " + gen_string(rng), flate=False)
            old[n] = (g, ov)
    pws = [cfg.user, cfg.effective_owner()] + same_password_variants(rng, cfg) + wrong_passwords(rng, cfg)
    return Case(cfg, objs, root, info, members, layout, rng.random() < 0.5, rng.randrange(1 << 30), pws,
                rng.choice([b"\n", b"\n", b"\r\n"]), old)


WILD = ["V3", "V0", "R-mismatch", "filter", "stmf-strf", "cfm-unknown", "cfm-wrong-class", "strf-undefined",
        "P0", "length0", "length4", "identity-override"]


def gen_wild_case(rng, kind: str) -> Case:
    """Encrypt dictionaries outside the property's domain: exercised on the model/implementation tie only
    (handler selection, revision check, crypt-filter checks, P = 0, zero-length keys)."""
    force = {"stmf-strf": "r4aes", "cfm-unknown": rng.choice(["r4aes", "r5"]), "cfm-wrong-class": rng.choice(["r4aes", "r6"]),
             "strf-undefined": rng.choice(["r4rc4", "r5"]), "length0": "r3", "length4": "r3",
             "identity-override": "r4aes"}.get(kind)
    case = gen_case(rng, force)
    cfg = case.cfg
    if kind == "V3":
        cfg.overrides = {"V": 3}
    elif kind == "V0":
        cfg.overrides = {"V": None}
    elif kind == "R-mismatch":
        cfg.overrides = {"R": {2: 4, 3: 5, 4: 3, 5: 4, 6: 4}[cfg.R]}
    elif kind == "filter":
        cfg.overrides = {"Filter": "Adobe.PubSec"}
    elif kind == "stmf-strf":
        cfg.overrides = {"StmF": "Identity"}
    elif kind == "cfm-unknown":
        cfg.overrides = {"CF": {cfg.cf_name: {"CFM": "None"}}}
    elif kind == "cfm-wrong-class":
        cfg.overrides = {"CF": {cfg.cf_name: {"CFM": "AESV3" if cfg.V == 4 else "AESV2"}}}
    elif kind == "strf-undefined":
        cfg.overrides = {"StmF": "Nope", "StrF": "Nope"}
    elif kind == "P0":
        cfg.overrides = {"P": 0}
    elif kind == "length0":
        cfg.overrides = {"Length": 0}
    elif kind == "length4":
        cfg.overrides = {"Length": 4}
    elif kind == "identity-override":
        cfg.overrides = {"CF": {"Identity": {"CFM": "AESV2"}}, "StmF": "Identity", "StrF": "Identity"}
    case.passwords = [cfg.user, cfg.effective_owner() + "!"]
    return case


def open_impl(data: bytes, pw: str, caching: bool = True):
    from pdfminer.pdfdocument import PDFDocument
    from pdfminer.pdfparser import PDFParser
    return PDFDocument(PDFParser(io.BytesIO(data)), password=pw, caching=caching)


def text_impl(data: bytes, pw: str) -> str:
    from pdfminer.high_level import extract_text
    with warnings.catch_warnings():
        warnings.simplefilter("ignore")
        return extract_text(io.BytesIO(data), password=pw)


def first_diff(exp: List[str], got: List[str]) -> Tuple[str, str]:
    for a, b in zip(exp, got):
        if a != b:
            return a, b
    return ("<%d tokens>" % len(exp), "<%d tokens>" % len(got))


def classify_diff(cfg: R.Cfg, exp: List[str], got: List[str], is_stream: bool) -> str:
    """Tag for known-finding classifiers, from the first differing token."""
    a, b = first_diff(exp, got)
    if a.startswith(("s:", "t:")) and b.startswith(a[:2]) and cfg.method in ("AESV2", "AESV3"):
        pa = bytes.fromhex(a[2:]) if a[2:] != "-" else b""
        pb = bytes.fromhex(b[2:]) if b[2:] != "-" else b""
        if pb != pa and pb.startswith(pa) and 1 <= len(pb) - len(pa) <= 16 and pb[len(pa):] == bytes([len(pb) - len(pa)]) * (len(pb) - len(pa)):
            return "aes-padding"
    if is_stream and a.startswith("s:") and exp[0].startswith("t:") and got[0] == exp[0]:
        return "stream-dict-string"
    return "content"


def check_case(ctx: C.Ctx, case: Case, do_text: bool, quiet: bool = False) -> List[C.Failure]:
    """Property on the implementation.  Returns the failures found (not yet reported)."""
    from pdfminer.pdfdocument import PDFPasswordIncorrect
    cfg = case.cfg
    wr = case.write(True)
    fails: List[C.Failure] = []
    good = {R.prep_password(cfg, cfg.user), R.prep_password(cfg, cfg.effective_owner())}
    base_in = case.to_json()
    plain_text = None

    def fail(what, pw, exp, got, kind, extra=None):
        inp = dict(base_in)
        inp["passwords"] = [[ord(c) for c in pw]]
        tags = {"kind": kind, "R": cfg.R, "method": cfg.method, "layout": case.layout}
        tags.update(extra or {})
        fails.append(C.Failure(what, inp, exp, got, tags))

    for pi, pw in enumerate(case.passwords):
        prep = R.prep_password(cfg, pw)
        accept = prep is not None and prep in good
        role = "user" if prep == R.prep_password(cfg, cfg.user) else "owner" if accept else "wrong"
        if not quiet:
            ctx.branch("pw:%s:R%d" % (role, cfg.R))
        try:
            doc = open_impl(wr.data, pw, caching=(pi % 3 != 2))
        except PDFPasswordIncorrect:
            if accept:
                fail("correct %s password rejected" % role, pw, "document opens", "PDFPasswordIncorrect", "rejected-good")
            continue
        except Exception as e:  # noqa: BLE001
            kind = "exception"
            if isinstance(e, UnicodeEncodeError) and cfg.R <= 4:
                kind = "non-latin1-password"
            elif cfg.R == 6 and prep is None or (cfg.R == 6 and isinstance(e, IndexError)):
                kind = "saslprep-error"
            fail("opening with a %s password raised %s instead of %s" %
                 (role, type(e).__name__, "succeeding" if accept else "PDFPasswordIncorrect"), pw,
                 "document opens" if accept else "PDFPasswordIncorrect", type(e).__name__ + ": " + str(e)[:80], kind)
            continue
        if not accept:
            fail("a password that is neither the user nor the owner password was accepted", pw,
                 "PDFPasswordIncorrect", "opened", "accepted-wrong")
            continue
        klen = len(doc.decipher.__self__.key)
        want = 5 if cfg.R == 2 else 32 if cfg.R >= 5 else 16 if cfg.V == 4 else min(cfg.length // 8, 16)
        if klen != want:
            fail("file key has an unexpected length", pw, want, klen, "keylen")
        flags = (doc.is_printable, doc.is_modifiable, doc.is_extractable)
        expf = (bool(cfg.P & 4), bool(cfg.P & 8), bool(cfg.P & 16))
        if flags != expf:
            fail("permission flags differ from bits 3/4/5 of P", pw, list(expf), list(flags), "perms")
        order = sorted(case.objs.items())
        if pi % 3 == 1:
            order.reverse()                  # access order must not matter (objstm members before / after others)
        elif pi % 3 == 2:
            random.Random(case.wseed + pi).shuffle(order)
        for n, (g, v) in order:
            exp = canon_plain(v)
            if isinstance(v, R.PStream) and pi % 2 == 1:
                # call-order independence on a fresh, cache-less document: dictionary strings must be plaintext
                # whether or not (and whenever) the payload has been decoded
                try:
                    views = stream_dict_views(open_impl(wr.data, pw, caching=False), n)
                except Exception as e:  # noqa: BLE001
                    views = {"views": ["EXC:" + type(e).__name__]}
                for how, toks in views.items():
                    if toks != exp[1:]:
                        a, b = first_diff(exp[1:], toks)
                        fail("strings of a stream dictionary differ from the original when read %s" % how, pw, a, b,
                             "stream-dict-string", {"objid": n, "genno": g, "how": how})
                        break
            for attempt in range(2):          # second read: cache / repeated get_data must not decrypt again
                try:
                    got = canon_impl(doc.getobj(n))
                except Exception as e:  # noqa: BLE001
                    got = ["EXC:" + type(e).__name__ + ":" + str(e)[:60]]
                if got != exp:
                    a, b = first_diff(exp, got)
                    kind = classify_diff(cfg, exp, got, isinstance(v, R.PStream))
                    loc = wr.stored[n][1]
                    fail("object read with the %s password differs from the plaintext original (%s, %s%s)" %
                         (role, "stream" if isinstance(v, R.PStream) else "strings", loc,
                          ", second read" if attempt else ""), pw, a, b, kind,
                         {"objid": n, "genno": g, "loc": loc, "second_read": bool(attempt)})
                    break
        # objects that are never encrypted: the cross-reference stream and the Encrypt dictionary
        if wr.xref_id is not None:
            try:
                x = doc.getobj(wr.xref_id)
                got = ["t:" + hx(x.get_data())] + canon_impl(x.attrs.get("ID"))
            except Exception as e:  # noqa: BLE001
                got = ["EXC:" + type(e).__name__]
            exp = ["t:" + hx(wr.xref_rows)] + canon_ref([cfg.id0, cfg.id0[::-1]] if cfg.have_id and wr.xref_trailer else None)
            if got != exp:
                a, b = first_diff(exp, got)
                fail("the cross-reference stream read through getobj was decrypted (it is never encrypted)", pw,
                     a[:80], b[:80], "xref-stream-decrypted", {"objid": wr.xref_id})
        if wr.enc_id is not None:
            try:
                got = canon_impl(doc.getobj(wr.enc_id))
            except Exception as e:  # noqa: BLE001
                got = ["EXC:" + type(e).__name__]
            exp = canon_ref(R.encrypt_dict(cfg))
            if got != exp:
                a, b = first_diff(exp, got)
                fail("the Encrypt dictionary read through getobj was decrypted (its strings are never encrypted)",
                     pw, a[:80], b[:80], "encrypt-dict-decrypted", {"objid": wr.enc_id, "caching": pi % 3 != 2})
        if do_text and pi < 2:
            if plain_text is None:
                plain_text = text_impl(case.write(False).data, "")
            try:
                t = text_impl(wr.data, pw)
            except Exception as e:  # noqa: BLE001
                t = "EXC:" + type(e).__name__
            if t != plain_text:
                fail("extract_text with the %s password differs from the unencrypted original" % role, pw,
                     plain_text[:80], t[:80], "text")
    return fails


def check_interleaved(ctx: C.Ctx, a: "Case", b: "Case") -> None:
    """Two different encrypted documents open at the same time, read alternately (and document A once more
    after B was read completely): no state may leak between handlers / documents (class-level caches, module
    globals, the cipher objects)."""
    try:
        wa, wb = a.write(True), b.write(True)
        da, db = open_impl(wa.data, a.cfg.user), open_impl(wb.data, b.cfg.effective_owner(), caching=False)
    except Exception as e:  # noqa: BLE001
        ctx.fail(C.Failure("opening two documents side by side raised " + type(e).__name__,
                           {"interleaved": [a.to_json(), b.to_json()]}, "both open", str(e)[:80], {"kind": "interleaved"}))
        return
    ia, ib = sorted(a.objs.items()), sorted(b.objs.items())
    ctx.case(("interleaved", a.wseed, b.wseed), True, branch="interleaved")
    seq = []
    for k in range(max(len(ia), len(ib))):
        if k < len(ia):
            seq.append((da, "A") + ia[k])
        if k < len(ib):
            seq.append((db, "B") + ib[k])
    seq += [(da, "A") + x for x in ia]
    for doc, which, n, (g, v) in seq:
        try:
            got = canon_impl(doc.getobj(n))
        except Exception as e:  # noqa: BLE001
            got = ["EXC:" + type(e).__name__]
        exp = canon_plain(v)
        if got != exp:
            x, y = first_diff(exp, got)
            ctx.fail(C.Failure("object differs from the original when two encrypted documents are read alternately",
                               {"interleaved": [a.to_json(), b.to_json()], "document": which, "objid": n}, x[:80], y[:80],
                               {"kind": "interleaved", "objid": n}))
            return


def shrink_case(ctx: C.Ctx, case: Case, f: C.Failure) -> C.Failure:
    """Reduce the document to the objects needed for the failure (same kind/what)."""
    pw = "".join(chr(c) for c in f.input["passwords"][0])
    keep = {1, 2, 3} | {n for n, (g, v) in case.objs.items() if isinstance(v, dict) and v.get("Type") == "Page"}
    for n, (g, v) in case.objs.items():
        if isinstance(v, dict) and v.get("Type") == "Page":
            keep.add(v["Contents"].n)
    keep.add(case.info)
    extra = [n for n in case.objs if n not in keep]

    def build(sub: List[int]) -> Case:
        objs = {n: case.objs[n] for n in case.objs if n in keep or n in sub}
        return Case(case.cfg, objs, case.root, case.info, [m for m in case.members if m in objs], case.layout,
                    case.indirect, case.wseed, [pw], case.eol, {n: o for n, o in case.old.items() if n in objs})

    def still(sub: List[int]) -> bool:
        try:
            fs = check_case(ctx, build(sub), False, quiet=True)
        except Exception:  # noqa: BLE001
            return False
        return any(x.tags.get("kind") == f.tags.get("kind") and x.what == f.what for x in fs)

    target = f.tags.get("objid")
    if target in extra and still([target]):
        sub = [target]
    elif still([]):
        sub = []
    else:
        sub = C.ddmin(extra, still, max_tests=40) if len(extra) > 1 and still(extra) else extra
    small = build(sub)
    fs = [x for x in check_case(ctx, small, False, quiet=True)
          if x.tags.get("kind") == f.tags.get("kind") and x.what == f.what]
    return fs[0] if fs else f


def run_case(ctx: C.Ctx, case: Case, do_text: bool, branch: str, shrink: bool = True) -> None:
    cfg = case.cfg
    nontriv = any((isinstance(v, R.PStream) and v.data) or canon_plain(v) != [t for t in canon_plain(v) if t != "s:-"] or
                  any(t.startswith("s:") and t != "s:-" for t in canon_plain(v)) for g, v in case.objs.values())
    key = json.dumps(case.to_json(), sort_keys=True, default=str)
    ctx.case(key, nontriv, sample={"V": cfg.V, "R": cfg.R, "method": cfg.method, "length": cfg.length, "P": cfg.P,
                                   "layout": case.layout, "objects": len(case.objs),
                                   "user": cfg.user[:12], "owner": cfg.owner[:12]}, branch=branch)
    ctx.branch("cfg:V%d/R%d/%s/%d" % (cfg.V, cfg.R, cfg.method, cfg.length))
    ctx.branch("layout:" + case.layout + (":indirect-encrypt" if case.indirect else "") +
               (":incremental" if case.old else ""))
    ctx.branch("encmeta:" + str(cfg.encrypt_metadata))
    if not cfg.have_id:
        ctx.branch("id:absent")
    fails = check_case(ctx, case, do_text)
    seen = set()
    for f in fails:
        k = (f.what, f.tags.get("kind"))
        if k in seen:
            continue
        seen.add(k)
        ctx.fail(shrink_case(ctx, case, f) if shrink else f)


# ----------------------------------------------------------------------------- shipped samples: validate the writer

SAMPLES = [("rc4-40.pdf", ["foo"]), ("rc4-128.pdf", ["foo"]), ("aes-128.pdf", ["foo"]), ("aes-128-m.pdf", ["foo"]),
           ("aes-256.pdf", ["foo"]), ("aes-256-m.pdf", ["foo"]), ("aes-256-r6.pdf", ["usersecret", "ownersecret"]),
           ("encrypted_doc_no_id.pdf", [""])]


def cfg_from_param(param: Dict[str, Any], docid) -> R.Cfg:
    from pdfminer.pdftypes import resolve1
    V, R_ = param.get("V", 0), param["R"]
    method = "RC4"
    if V >= 4:
        cf = resolve1(param["CF"])
        name = param["StrF"].name
        method = {"V2": "RC4", "AESV2": "AESV2", "AESV3": "AESV3"}[resolve1(cf[name])["CFM"].name] if name != "Identity" else "Identity"
    length = 128 if V == 4 else 256 if V == 5 else param.get("Length", 40)
    cfg = R.Cfg(V, R_, length, method, param["P"], bytes(docid[0]) if docid else b"", "", "",
                bool(param.get("EncryptMetadata", True)))
    cfg.O, cfg.U = param["O"], param["U"]
    cfg.OE, cfg.UE = param.get("OE", b""), param.get("UE", b"")
    return cfg


def run_samples(ctx: C.Ctx) -> None:
    """The reference reader (standard's algorithms) opens every shipped sample and decrypts each string
    and stream to what pdfminer returns - validates c10_ref, and is a fixed corpus for pdfminer."""
    from pdfminer.pdfdocument import PDFDocument
    from pdfminer.pdfparser import PDFParser
    from pdfminer.pdftypes import PDFStream
    d = os.path.join(C.REPO, "samples", "encryption")
    base_text = text_impl(open(os.path.join(d, "base.pdf"), "rb").read(), "")
    for name, pws in SAMPLES:
        data = open(os.path.join(d, name), "rb").read()
        for pw in pws:
            ctx.case(("sample", name, pw), True, branch="sample:" + name)
            try:
                raw = PDFDocument(PDFParser(io.BytesIO(data)), password=pw)
            except Exception as e:  # noqa: BLE001
                ctx.fail(C.Failure("a shipped encrypted sample no longer opens with its password",
                                   {"sample": name, "password": pw}, "document opens", type(e).__name__,
                                   {"kind": "sample-open"}))
                continue
            docid, param = raw.encryption
            cfg = cfg_from_param(param, docid)
            key = R.reference_open(cfg, pw)
            handler = raw.decipher.__self__
            if key is None or key != handler.key:
                ctx.fail(C.Failure("reference key recovery and pdfminer disagree on a shipped sample",
                                   {"sample": name, "password": pw}, key.hex() if key else None,
                                   handler.key.hex() if handler.key else None, {"kind": "sample-key"}))
                continue
            cfg.key = key
            if R.reference_open(cfg, pw + "#") is not None:
                ctx.fail(C.Failure("reference reader accepts a wrong password on a shipped sample",
                                   {"sample": name}, None, "opened", {"kind": "sample-key"}))
            # every stream: reference decryption of the stored bytes == what pdfminer hands to the filters
            nstreams = 0
            for xref in raw.xrefs:
                for objid in xref.get_objids():
                    try:
                        obj = raw.getobj(objid)
                    except Exception:  # noqa: BLE001
                        continue
                    if isinstance(obj, PDFStream) and obj.get("Type") is None or isinstance(obj, PDFStream) and obj.get("Type").name not in ("XRef",):
                        stored = obj.rawdata
                        if stored is None:
                            continue
                        skip = (not cfg.encrypt_metadata and cfg.V >= 4 and obj.get("Type") is not None and
                                obj.get("Type").name == "Metadata")
                        try:
                            exp = stored if skip else R.decrypt_bytes(cfg, objid, obj.genno, stored)
                        except ValueError as e:
                            exp = b"<reference: %s>" % str(e).encode()
                        got = handler.decrypt(objid, obj.genno, stored, obj.attrs)
                        nstreams += 1
                        if got != exp:
                            kind = "aes-padding" if got.startswith(exp) and cfg.method.startswith("AES") else "sample-stream"
                            ctx.fail(C.Failure("stream of a shipped sample: pdfminer's decryption differs from the reference",
                                               {"sample": name, "password": pw, "objid": objid}, exp[-24:].hex(),
                                               got[-24:].hex(), {"kind": kind, "method": cfg.method, "R": cfg.R}))
                            break
            ctx.branch("sample-streams", nstreams)
            try:
                t = text_impl(data, pw)
            except Exception as e:  # noqa: BLE001
                t = "EXC:" + type(e).__name__
            if name not in ("encrypted_doc_no_id.pdf", "aes-256-r6.pdf") and t != base_text:
                ctx.fail(C.Failure("extract_text of a shipped encrypted sample differs from base.pdf",
                                   {"sample": name, "password": pw}, base_text[:60], t[:60], {"kind": "sample-text"}))


def run_aes_keylen(ctx: C.Ctx) -> None:
    """Documents the remark on decrypt_aes128's `min(len(key), 16)` (the 4 salt bytes are counted, Algorithm 1
    says min(n + 5, 16)): for every file-key length a V4 handler can hold (always 16, checked on every opened V4
    document below; here all lengths 11..32) pdfminer's per-object AES key equals Algorithm 1's, and for the
    unreachable lengths 1..10 the two differ (theorem objkey_agree_aes has `11 <= |key|` as hypothesis)."""
    from pdfminer.pdfdocument import PDFStandardSecurityHandlerV4
    rng = ctx.rng
    for L in range(1, 33):
        key = bytes(rng.randrange(256) for _ in range(L))
        objid, genno = rng.choice([1, 255, 65536, (1 << 24) - 1]), rng.choice([0, 1, 65535])
        plain = bytes(rng.randrange(256) for _ in range(rng.choice([0, 1, 15, 16, 17, 40])))
        cfg = R.Cfg(4, 4, 128, "AESV2", -4, b"", "", "")
        cfg.key = key
        k_std = hashlib_md5(key + objid.to_bytes(4, "little")[:3] + genno.to_bytes(4, "little")[:2] + b"sAlT")[:min(L + 5, 16)]
        iv = bytes(rng.randrange(256) for _ in range(16))
        if len(k_std) == 16:
            stored = iv + R.aes_cbc_enc(k_std, iv, R.pkcs7_pad(plain))
        else:
            stored = None
        h = object.__new__(PDFStandardSecurityHandlerV4)
        h.key = key
        ctx.case(("aeskey", L, key), True, branch="aeskey:reachable" if L >= 11 else "aeskey:unreachable")
        if stored is None:
            continue      # Algorithm 1 gives a key shorter than 16 bytes: not an AES-128 key at all
        try:
            got = h.decrypt_aes128(objid, genno, stored)
        except Exception as e:  # noqa: BLE001
            got = ("EXC:" + type(e).__name__).encode()
        if got != plain:
            ctx.fail(C.Failure("decrypt_aes128 does not use Algorithm 1's object key for a reachable key length",
                               {"keylen": L, "key": key.hex(), "objid": objid, "genno": genno}, plain.hex(),
                               got.hex()[:80], {"kind": "aes-objkey", "keylen": L}))


def check_r6_hash(ctx: C.Ctx, pw: bytes, salt: bytes, vector: Optional[bytes], r: int, branch: str) -> None:
    """_r5_password / _r6_password of the V5 handler against the reference (SHA-256 / Algorithm 2.B)."""
    from pdfminer.pdfdocument import PDFStandardSecurityHandlerV5
    h = object.__new__(PDFStandardSecurityHandlerV5)
    h.r = r
    exp = (R.hash_r5 if r == 5 else R.hash_2b)(pw, salt[:8] if r == 6 else salt, vector or b"")
    try:
        got = h._password_hash(pw, salt, vector)
    except Exception as e:  # noqa: BLE001
        got = ("EXC:" + type(e).__name__).encode()
    ctx.case(("pwhash", r, pw, salt, vector), True, branch=branch)
    if got != exp:
        ctx.fail(C.Failure("the revision %d password hash differs from %s" % (r, "SHA-256(pw+salt+udata)" if r == 5 else "ISO 32000-2 Algorithm 2.B"),
                           {"pwhash": {"r": r, "pw": pw.hex(), "salt": salt.hex(),
                                       "vector": None if vector is None else vector.hex()}},
                           exp.hex(), got.hex()[:64], {"kind": "r6-hash", "R": r}))


def run_r6_hashes(ctx: C.Ctx) -> None:
    """Many (password, salt, vector) triples straight through `_password_hash`: the data-dependent exit of
    Algorithm 2.B (last byte of E vs round number) is hit in every possible way, which whole documents
    (a few hashes each) do too rarely."""
    rng = ctx.rng
    for i in range(ctx.n(500, 12000)):
        if not ctx.time_left():
            break
        pw = bytes(rng.randrange(256) for _ in range(rng.choice([0, 1, 3, 8, 8, 16, 32, 127])))
        salt = bytes(rng.randrange(256) for _ in range(8))
        vector = None if i % 2 == 0 else bytes(rng.randrange(256) for _ in range(48))
        r = 5 if i % 10 == 9 else 6
        check_r6_hash(ctx, pw, salt, vector, r, "pwhash:R%d:%s" % (r, "user" if vector is None else "owner"))


def hashlib_md5(b: bytes) -> bytes:
    import hashlib
    return hashlib.md5(b).digest()


# ----------------------------------------------------------------------------- entry points

def run_corpus(ctx: C.Ctx) -> None:
    for path in sorted(glob.glob(os.path.join(C.VERIF, "corpus", "C10", "*.json"))):
        with open(path) as fp:
            doc = json.load(fp)
        replay(ctx, doc, from_corpus=True)


def replay(ctx: C.Ctx, doc: Dict[str, Any], from_corpus: bool = False) -> None:
    inp = doc.get("input", {})
    if "cfg" in inp:
        case = Case.from_json(inp)
        run_case(ctx, case, True, "corpus" if from_corpus else "replay", shrink=False)
        model_check(ctx, [case], with_rc4=False)
    elif "interleaved" in inp:
        check_interleaved(ctx, Case.from_json(inp["interleaved"][0]), Case.from_json(inp["interleaved"][1]))
    elif "pwhash" in inp:
        j = inp["pwhash"]
        check_r6_hash(ctx, bytes.fromhex(j["pw"]), bytes.fromhex(j["salt"]),
                      None if j["vector"] is None else bytes.fromhex(j["vector"]), j["r"],
                      "corpus" if from_corpus else "replay")
    elif "sample" in inp:
        run_samples(ctx)
    elif "unpad" in inp:
        from harness import c10_keys
        c10_keys.replay_unpad(ctx, bytes.fromhex(inp["unpad"]))
    elif "objkey" in inp:
        from harness import c10_keys
        c10_keys.replay_objkey(ctx, inp["objkey"])
    elif "kdf" in inp:
        from harness import c10_keys
        c10_keys.replay_kdf(ctx, inp)


def model_check(ctx: C.Ctx, cases: List[Case], with_rc4: bool = True) -> None:
    """Correspondence model vs implementation - filled in by c10_model (needs the compiled driver)."""
    if ctx.driver is None:
        return
    from harness import c10_model
    c10_model.check(ctx, cases, with_rc4)


def run(ctx: C.Ctx) -> None:
    rng = ctx.rng
    run_corpus(ctx)
    run_samples(ctx)
    run_aes_keylen(ctx)
    run_r6_hashes(ctx)
    kinds = ["r2", "r3", "r4rc4", "r4aes", "r4id", "r5", "r6"]
    cases: List[Case] = []
    prev: Optional[Case] = None
    n = ctx.n(120, 4000)
    for i in range(n):
        if not ctx.time_left():
            ctx.notes.append("time budget reached after %d document cases" % i)
            break
        case = gen_case(rng, kinds[i] if i < len(kinds) else None)
        run_case(ctx, case, do_text=(i % 4 == 0), branch="doc")
        if i % 5 == 4 and prev is not None:
            check_interleaved(ctx, prev, case)
        prev = case
        if i < min(ctx.n(24, 200), 48 if ctx.tier == "quick" else 400):
            cases.append(case)
    for i in range(ctx.n(len(WILD), 10 * len(WILD))):
        w = gen_wild_case(rng, WILD[i % len(WILD)])
        ctx.branch("wild:" + WILD[i % len(WILD)])
        cases.append(w)
    model_check(ctx, cases)
