"""C17 - page labels, outlines and named destinations follow their tree definitions.

Relations exercised on every run (DESIGN section 3):
  (tie)   Lean model (drv_c17: labels / roman / alpha / outline / dest / text)  ==  pdfminer on the same
          generated catalogs (real PDF files written with the shared pdfwriter) and byte strings
  (prop)  pdfminer == executable specification (ISO 32000-1 12.4.2, 12.3.3, 7.9.6-7, 7.9.2.2); the
          specification exists twice, in Lean (`spec.*` ops of the driver, the one the theorems speak
          about) and as a Python twin here (usable without a driver); the twins are compared as well
  (proof) lean/PdfVerif/Props/C17.lean
"""

from __future__ import annotations

import glob
import itertools
import json
import os
from io import BytesIO
from typing import Any, Dict, List, Optional, Tuple

import logging

from harness import common as C
from harness.pdfwriter import HexStr, Name, Ref, build_pdf

logging.getLogger("pdfminer").setLevel(logging.ERROR)

LEVEL = "proof"
RULE = ("labels: random number trees (leaf-only, balanced, degenerate chains, combs, random splits; direct and "
        "indirect nodes and label dictionaries) over random label dictionaries (styles D R r A a, none, prefixes in "
        "PDFDocEncoding and UTF-16BE, St present/absent) and page counts; outlines: random forests incl. long sibling "
        "chains (>= 1500 in every run) and deep nesting, titles in both encodings, Dest / A / both, plus outlines whose "
        "First/Next links were rewired into cycles / shared / dangling links (tie and termination only); names: random name "
        "trees (same shapes, Limits tight) with present and absent keys (below, between, above, prefixes/extensions of "
        "keys, str names against the PDF-1.1 Dests dictionary); text: random strings in both encodings incl. surrogate "
        "pairs, every PDFDocEncoding byte; every labels / outline / names case is also observed repeatedly on ONE "
        "PDFDocument (second pass, interleaved generators, reverse order), with nested page trees, page selection, "
        "indirect scalar values and caching=False; formatters: roman exhaustively 1..3999 and sampled up to 200000, alpha 1..N; "
        "_format_page_label directly on random (style, value) incl. unknown styles; get_dest soundness (a returned value is associated "
        "with the key) is judged on non-conforming name trees too.  A case is non-trivial when it is a distinct input with >= 2 ranges / >= 2 outline items / a tree with Kids / a non-ASCII string.")
TRUSTED_BASE = [
    "tools/translate/gen_c17.py (Python ast -> Lean) for ROMAN_ONES, ROMAN_FIVES, PDFDocEncoding and, since round 6, the "
    "straight-line code of format_int_roman / format_int_alpha (assert, prologue, while test, loop body, epilogue), the "
    "if/elif chain of PageLabels._format_page_label and the St/P defaults, range_length and range(...) of PageLabels.labels "
    "(Gen/LabelCode.lean) - everything translated is run against the Python original (gen.roman exhaustively 1..3999 and "
    "sampled to 200000, gen.alpha, gen.label against the static method, all 256 bytes) and proved equal to the hand models",
    "lean/PdfVerif/Model/LabelsPy.lean: the reading of the Python primitives the translated code is written in (list/str "
    "indexing with negative indices and IndexError, list.insert clipping, str * int) and the hand-written `while` glue of "
    "Model/LabelsGen.lean (pass budget)",
    "hand models lean/PdfVerif/Model/Labels.lean (NumberTree._parse/values incl. settings.STRICT, PageLabels.labels, "
    "_format_page_label, format_int_roman/alpha, decode_text), Model/Outline.lean (get_outlines.search on unfolded "
    "entries), Model/OutlineGraph.lean (the same walk on an object graph with the visited set), Model/NameTree.lean "
    "(lookup_name, get_dest) - correspondence-checked on generated catalogs",
    "the harness's PDF writer and its conversion of a generated case into (a) a PDF file and (b) the model's term "
    "(object resolution, dict_value/list_value/str_value glue and the xref layer are exercised, not modelled)",
]
ASSUMPTIONS = [
    "trees and outlines are finite and acyclic (cycles are C13's subject); nesting depth of outlines/trees stays "
    "below Python's recursion limit (generated depth <= 60)",
    "domain of the property oracle = conforming structures: keys strictly ascending in order, first page-label key 0, "
    "St >= 1, every non-root node carries Limits bounding its keys with siblings separated, destinations are non-empty "
    "arrays/dictionaries, roman values in 0 < v < 1000000, text strings use defined PDFDocEncoding codes or well-formed UTF-16BE",
    "PDFDocEncoding code 0x16 maps to U+0017 as printed in ISO 32000-1 Table D.2",
    "settings.STRICT False (default) for everything; label extraction additionally under settings.STRICT = True",
]
STATEMENT_STATUS = {
    "pdfdoc_table_total": "proved (regenerated table has 256 entries)",
    "pdfdoc_table_spec": "proved: every defined code of ISO 32000-1 Table D.2 (kernel sweep over 256 bytes)",
    "decode_text_spec": "proved for all strings in the domain (well-formed UTF-16BE with BOM, defined PDFDocEncoding codes)",
    "roman_correct_all": "proved for EVERY 0 < n < ROMAN_MAX (bound translated from utils.py; low three digits: kernel sweep against "
                         "the regenerated ROMAN_* tables; thousands: any number of m, 4000 -> mmmm) - full statement since the round-6 fixes",
    "roman_max_spec": "proved: the translated ROMAN_MAX is the bound of the specification's domain (one million)",
    "roman_length_bound": "proved: inside the asserted range a numeral has fewer than 1000 leading m",
    "roman_correct": "proved (the n < 4000 instance of roman_correct_all, kept for its users)",
    "roman_value": "proved (sanity of the specification: numeral reads back as n)",
    "roman_outside": "proved (AssertionError for n <= 0 or n >= ROMAN_MAX is modelled: nothing else happens there)",
    "alpha_statement": "full statement for styles A/a; proved FALSE on the pinned code: alpha_cex (28 -> 'ab', ISO 'bb'); "
                       "open finding alpha-repeat",
    "alpha_partial": "partial: values 1..26 only",
    "roman_body_translated": "proved for every state: one pass of the TRANSLATED while body of format_int_roman = the hand "
                             "model's step (IndexError included)",
    "roman_translated": "proved for every integer: format_int_roman assembled from the translated assert/test/body/tail = hand model",
    "roman_translated_correct": "proved for EVERY 0 < n < ROMAN_MAX: the translated code writes the subtractive-notation numeral",
    "roman_translated_outside": "proved: the translated assert raises for n <= 0 and n >= ROMAN_MAX",
    "format_page_label_translated": "proved for every value and style: the TRANSLATED if/elif chain of _format_page_label over the "
                                    "translated numeral functions = hand model",
    "labels_range_translated": "proved: a non-final range of PageLabels.labels from the TRANSLATED St/P defaults, range_length and "
                               "range(...) = the hand model's generator",
    "alpha_body_translated": "proved for every positive value and partial result: one pass of the TRANSLATED while body of "
                             "format_int_alpha (never IndexError)",
    "alpha_translated": "proved for every integer: format_int_alpha assembled from the translated pieces = hand model",
    "alpha_translated_bijective": "proved for every n > 0 about the translated code: numeral read in bijective base 26 is n",
    "alpha_translated_cex": "proved: the translated code maps 28 to 'ab' (open finding alpha-repeat)",
    "alpha_characterised": "proved for every n > 0 and every string t: format_int_alpha(n) = t iff t is lowercase letters reading n in "
                           "bijective base 26 (complete characterisation of the pinned letters numeral)",
    "bijNumeral_unique": "proved: a value has at most one bijective base-26 letters numeral",
    "numeral_full": "proved FULL (no value bound): wherever ISO defines a numeral the code returns normally - Table 159 for D/R/r/none, "
                    "the unique bijective base-26 numeral for A/a (open finding alpha-repeat, nothing else)",
    "C17_label_full": "proved FULL for every conforming tree and every page with a defined label, all styles, all values: "
                      "prefix ++ numeral of numeral_full",
    "alpha_fuel_suffices": "proved (the loop bound of the letters model is never hit)",
    "numtree_flatten": "proved for every tree shape (mutual induction)",
    "numtree_values": "proved: values = in-order flattening when keys ascend",
    "C17_label_range": "proved for all conforming trees / pages: right range, prefix, style, value St + (i - start), St default 1",
    "numeral_partial": "partial: letters styles only for values <= 26",
    "C17_label_statement": "full statement; proved FALSE on the pinned code (C17_label_cex) because of the letters numeral",
    "C17_label_partial": "partial: letter-style values <= 26 (everything else of the full statement)",
    "C17_outline_forest": "proved for every forest and level (mutual induction over the forest)",
    "C17_outline": "proved: get_outlines on the Outlines dictionary of any forest = preorder with levels from 1",
    "utf16_roundtrip": "proved: decode_text(BOM ++ UTF-16BE encoding of any list of Unicode scalar values) = that list",
    "alpha_bijective": "proved for every n > 0: the code's letters numeral read in bijective base 26 is n (what the code "
                       "does instead of Table 159)",
    "C17_label_strict": "proved: with settings.STRICT = True a conforming tree gives exactly the default-mode labels",
    "C17_nametree_sound": "proved for EVERY name tree (unsorted, duplicates, wrong/missing Limits, Names+Kids): a returned "
                          "value is associated with the key in the tree",
    "C17_nametree_last_wins": "proved: in a Names array the LAST duplicate of a key wins (dict semantics), any order",
    "C17_dest_sound": "proved for every catalog: string results come from the name tree, name results from /Dests",
    "C17_nametree_sorted": "proved: flattening of a conforming name tree is strictly ascending (keys unique)",
    "C17_outline_terminates": "proved for every finite object graph incl. cycles, shared and dangling links: budget "
                              "|store|+1 never exhausted, no object visited twice",
    "C17_outline_graph_eq": "proved for EVERY store and every entry stored in it under distinct object ids: the graph walk with its "
                            "visited set (the repaired code) = the term model",
    "C17_outline_graph": "proved FULL: every forest in the domain stored as indirect objects anywhere in an object graph: "
                         "get_outlines (graph walk) = preorder with levels",
    "roman_value_all": "proved for every n (sanity of the specification: leading m are never subtracted)",
    "C17_outline_graph_total": "proved (get_outlines on a graph always returns)",
    "C17_nametree": "proved for every conforming name tree and every key (found value / KeyError)",
    "C17_dest": "proved: get_dest = specification for strings (name tree) and names (Dests dictionary)",
}


# ----------------------------------------------------------------------------- canonical forms

def cps(s: str) -> str:
    return ".".join("%x" % ord(c) for c in s) if s else "-"


def cps_list(xs: List[int]) -> str:
    return ".".join("%x" % c for c in xs) if xs else "-"


def h(b: bytes) -> str:
    return b.hex()


def unh(s: str) -> bytes:
    return bytes.fromhex(s)


# ----------------------------------------------------------------------------- Python twin of the specification

# ISO 32000-1 Annex D.2, written as ranges (independent of pdfminer's table)
_DOC_HI = [0x2022, 0x2020, 0x2021, 0x2026, 0x2014, 0x2013, 0x0192, 0x2044, 0x2039, 0x203A, 0x2212, 0x2030, 0x201E,
           0x201C, 0x201D, 0x2018, 0x2019, 0x201A, 0x2122, 0xFB01, 0xFB02, 0x0141, 0x0152, 0x0160, 0x0178, 0x017D,
           0x0131, 0x0142, 0x0153, 0x0161, 0x017E]           # 0x80 .. 0x9E
_DOC_LO = [0x02D8, 0x02C7, 0x02C6, 0x02D9, 0x02DD, 0x02DB, 0x02DA, 0x02DC]   # 0x18 .. 0x1F


def spec_pdfdoc(c: int) -> Optional[int]:
    if c == 0x16:
        return 0x17
    if 0x18 <= c <= 0x1F:
        return _DOC_LO[c - 0x18]
    if c in (0x7F, 0x9F, 0xAD):
        return None
    if 0x80 <= c <= 0x9E:
        return _DOC_HI[c - 0x80]
    if c == 0xA0:
        return 0x20AC
    return c


def spec_text(b: bytes) -> Optional[List[int]]:
    """Code points of a text string, None when outside the domain (undefined code, malformed UTF-16)."""
    if b[:2] == b"\xfe\xff":
        r = b[2:]
        if len(r) % 2:
            return None
        units = [r[i] * 256 + r[i + 1] for i in range(0, len(r), 2)]
        out = []
        i = 0
        while i < len(units):
            u = units[i]
            if 0xD800 <= u <= 0xDBFF:
                if i + 1 < len(units) and 0xDC00 <= units[i + 1] <= 0xDFFF:
                    out.append(0x10000 + ((u - 0xD800) << 10) + (units[i + 1] - 0xDC00))
                    i += 2
                    continue
                return None
            if 0xDC00 <= u <= 0xDFFF:
                return None
            out.append(u)
            i += 1
        return out
    out = []
    for c in b:
        u = spec_pdfdoc(c)
        if u is None:
            return None
        out.append(u)
    return out


_ROMAN = [(1000, "m"), (900, "cm"), (500, "d"), (400, "cd"), (100, "c"), (90, "xc"), (50, "l"), (40, "xl"),
          (10, "x"), (9, "ix"), (5, "v"), (4, "iv"), (1, "i")]


ROMAN_MAX_SPEC = 1000000


def spec_roman(n: int) -> Optional[str]:
    """Greedy subtractive notation for every 0 < n < 1000000 (no numeral above m: 4000 -> mmmm; the domain is
    bounded because the numeral grows with the value - Spec.Labels.romanMax)."""
    if not 0 < n < ROMAN_MAX_SPEC:
        return None
    out = []
    for v, s in _ROMAN:
        out.append(s * (n // v))
        n %= v
    return "".join(out)


def spec_alpha(n: int) -> Optional[str]:
    """ISO 32000-1 Table 159: a..z for the first 26 pages, aa..zz for the next 26, and so on."""
    if n < 1:
        return None
    return chr(97 + (n - 1) % 26) * ((n - 1) // 26 + 1)


def bij_alpha(n: int) -> str:
    """What the pinned code computes: bijective base 26 (spreadsheet columns)."""
    out = []
    while n > 0:
        n, r = divmod(n - 1, 26)
        out.append(chr(97 + r))
    return "".join(reversed(out))


def spec_numeral(style: Optional[str], v: int, alpha=spec_alpha) -> Optional[str]:
    if style is None:
        return ""
    if style == "D":
        return str(v)
    if style in ("R", "r"):
        s = spec_roman(v)
        return None if s is None else (s.upper() if style == "R" else s)
    if style in ("A", "a"):
        s = alpha(v) if v >= 1 else None
        return None if s is None else (s.upper() if style == "A" else s)
    return None


def flatten_num(node) -> List[Tuple[int, Any]]:
    out = []
    if node.get("nums"):
        out += [(k, v) for k, v in node["nums"]]
    if node.get("kids"):
        for c in node["kids"]:
            out += flatten_num(c)
    return out


def num_shape_ok(node) -> bool:
    """No node carries both Nums and Kids (mirror of Spec.Labels.shapeOk)."""
    if node.get("nums") and node.get("kids"):
        return False
    return all(num_shape_ok(c) for c in node.get("kids") or [])


def labels_domain(case) -> bool:
    """Mirror of Spec.Labels.domain: conforming shape, keys ascending, first key 0, St >= 1."""
    tree = case["tree"]
    if not num_shape_ok(tree):
        return False
    flat = flatten_num(tree)
    keys = [k for k, _ in flat]
    if not keys or keys[0] != 0 or any(a >= b for a, b in zip(keys, keys[1:])):
        return False
    return all((ld.get("St") if ld.get("St") is not None else 1) >= 1 for _, ld in flat)


def spec_labels(case, count: int, alpha=spec_alpha) -> Optional[List[str]]:
    """Labels of pages 0..count-1 as canonical code point strings; None outside the domain."""
    if not labels_domain(case):
        return None
    flat = flatten_num(case["tree"])
    out = []
    for i in range(count):
        start, ld = [r for r in flat if r[0] <= i][-1]
        v = (ld["St"] if ld.get("St") is not None else 1) + (i - start)
        num = spec_numeral(ld.get("S"), v, alpha)
        if num is None:
            return None
        pre = spec_text(unh(ld["P"])) if ld.get("P") is not None else []
        if pre is None:
            return None
        out.append(cps_list(pre + [ord(c) for c in num]))
    return out


def spec_outline(forest, level: int = 1) -> List[Tuple[int, Any]]:
    out = []
    for it in forest:
        out.append((level, it))
        out += spec_outline(it["kids"], level + 1)
    return out


def flatten_names(node) -> List[Tuple[bytes, Any]]:
    out = []
    if node.get("names"):
        out += [(unh(k), v) for k, v in node["names"]]
    if node.get("kids"):
        for c in node["kids"]:
            out += flatten_names(c)
    return out


def name_wf(node, root: bool) -> bool:
    """Mirror of Spec.NameTree.wf."""
    lim = node.get("limits")
    names = node.get("names")
    kids = node.get("kids") or []
    if not root and lim is None:
        return False
    if lim is not None:
        lo, hi = unh(lim[0]), unh(lim[1])
        if any(k < lo or hi < k for k, _ in flatten_names(node)):
            return False
    if names is not None and not kids:
        ks = [unh(k) for k, _ in names]
        return (all(a < b for a, b in zip(ks, ks[1:])) and all(val_truthy(v) for _, v in names)
                and (root or bool(names)))
    if names is None and kids:
        for i, c in enumerate(kids):
            if not name_wf(c, False):
                return False
            hi = unh(c["limits"][1])
            for c2 in kids[i + 1:]:
                if c2.get("limits") is None or not hi < unh(c2["limits"][0]):
                    return False
        return True
    return False


def names_domain(case) -> bool:
    """Mirror of Spec.NameTree.domain."""
    tree = case.get("tree")
    if tree is not None and not case.get("names_cat_missing") and not name_wf(tree, True):
        return False
    return all(val_truthy(v) for v in (case.get("dict") or {}).values())


# ----------------------------------------------------------------------------- PDF construction

class Builder:
    def __init__(self, npages: int, pgroups: Optional[List[int]] = None):
        """Page i is object 3 + i.  `pgroups` shapes the page tree: k > 0 = an intermediate /Pages node holding the
        next k pages, 0 = the next page directly under the root (document order = page index in every shape)."""
        self.objs: Dict[int, Any] = {}
        self.npages = npages
        self.catalog: Dict[str, Any] = {"Type": "Catalog", "Pages": Ref(2)}
        self.objs[1] = self.catalog
        self.objs[2] = {"Type": "Pages", "Kids": [Ref(3 + i) for i in range(npages)], "Count": npages}
        for i in range(npages):
            self.objs[3 + i] = {"Type": "Page", "Parent": Ref(2), "MediaBox": [0, 0, 10, 10]}
        self.next = 3 + npages
        if pgroups and sum(max(1, g) for g in pgroups) == npages:
            kids: List[Any] = []
            i = 0
            for g in pgroups:
                if g <= 0:
                    kids.append(Ref(3 + i))
                    i += 1
                else:
                    nid = self.alloc()
                    self.objs[nid] = {"Type": "Pages", "Parent": Ref(2), "Count": g,
                                      "Kids": [Ref(3 + j) for j in range(i, i + g)]}
                    for j in range(i, i + g):
                        self.objs[3 + j]["Parent"] = Ref(nid)
                    kids.append(Ref(nid))
                    i += g
            self.objs[2]["Kids"] = kids

    def alloc(self) -> int:
        n = self.next
        self.next += 1
        return n

    def add(self, o) -> Ref:
        n = self.alloc()
        self.objs[n] = o
        return Ref(n)

    def page(self, i: int) -> Ref:
        return Ref(3 + (i % max(1, self.npages)))

    def pdf(self) -> bytes:
        return build_pdf(self.objs, 1)


def pdf_string(hexs: str, as_hex: bool = False):
    b = unh(hexs)
    return HexStr(b) if as_hex else b


def emit_label_dict(b: Builder, ld) -> Any:
    d: Dict[str, Any] = {}
    if ld.get("type"):
        d["Type"] = "PageLabel"
    vind = ld.get("vind", "")     # which values are written as indirect objects (7.3.10: any object may be)
    if ld.get("junk"):
        return 7      # not a dictionary at all (wild)
    if ld.get("S") is not None:
        d["S"] = Name(ld["S"].encode("latin-1"))
    if ld.get("P") is not None:
        d["P"] = pdf_string(ld["P"], ld.get("hexstr", False))
    if ld.get("St") is not None:
        d["St"] = ld["St"]
    for key, flag in (("S", "s"), ("P", "p"), ("St", "n")):
        if key in d and flag in vind:
            d[key] = b.add(d[key])
    return b.add(d) if ld.get("ind") else d


def emit_numtree(b: Builder, node) -> Any:
    d: Dict[str, Any] = {}
    if node.get("nums") is not None:
        arr: List[Any] = []
        for k, v in node["nums"]:
            arr += [b.add(k) if node.get("kind") else k, emit_label_dict(b, v)]
        if node.get("dangling") is not None:
            arr.append(node["dangling"])
        d["Nums"] = b.add(arr) if node.get("aind") else arr
    if node.get("kids") is not None:
        kids = [emit_numtree(b, c) for c in node["kids"]]
        d["Kids"] = b.add(kids) if node.get("aind") else kids
    if node.get("limits"):
        ks = [k for k, _ in flatten_num(node)]
        if ks:
            d["Limits"] = [min(ks), max(ks)]
    return b.add(d) if node.get("ind") else d


def emit_dest_value(b: Builder, v) -> Any:
    kind = v[0]
    if kind == "arr":       # ["arr", pageidx, fit, tag]
        o: Any = [b.page(v[1]), Name(v[2].encode()), v[3]]
    elif kind == "dict":    # ["dict", pageidx, fit, tag]
        o = {"D": [b.page(v[1]), Name(v[2].encode()), v[3]]}
    elif kind == "empty":
        o = []
    elif kind == "zero":
        o = 0
    else:
        raise ValueError(kind)
    if len(v) > 4 and v[4]:
        return b.add(o)
    return o


def val_truthy(v) -> bool:
    return v[0] in ("arr", "dict")


def val_canon(b: Optional[Builder], v, npages: int) -> str:
    """Canonical text of the value as pdfminer returns it (references are not followed by get_dest)."""
    return json.dumps(v[:4])


def emit_nametree(b: Builder, node) -> Any:
    d: Dict[str, Any] = {}
    kind = node.get("kind")       # key strings (and Limits entries) written as indirect objects
    if node.get("limits") is not None:
        lim = [unh(node["limits"][0]), unh(node["limits"][1])]
        d["Limits"] = [b.add(x) for x in lim] if kind else lim
        if node.get("aind"):
            d["Limits"] = b.add(d["Limits"])
    if node.get("names") is not None:
        arr: List[Any] = []
        for k, v in node["names"]:
            ks = pdf_string(k, node.get("hexstr", False))
            arr += [b.add(ks) if kind else ks, emit_dest_value(b, v)]
        d["Names"] = b.add(arr) if node.get("aind") else arr
    if node.get("kids") is not None:
        kids = [emit_nametree(b, c) for c in node["kids"]]
        d["Kids"] = b.add(kids) if node.get("aind") else kids
    return b.add(d) if node.get("ind") else d


def emit_outline_dest(b: Builder, d) -> Any:
    if d[0] == "arr":
        return [b.page(d[1]), Name(d[2].encode()), d[3]]
    if d[0] == "str":
        return unh(d[1])
    if d[0] == "name":
        return Name(d[1].encode())
    raise ValueError(d[0])


def emit_outlines(b: Builder, case) -> None:
    """First/Next/Prev/Last/Parent/Count encoding of the forest (ISO 32000-1 12.3.3)."""
    forest = case["forest"]
    root_ref = Ref(b.alloc())
    b.outline_ids = [root_ref.n]

    def emit_level(items, parent: Ref) -> Tuple[Optional[Any], Optional[Any]]:
        refs = [Ref(b.alloc()) for _ in items]
        b.outline_ids += [r.n for r in refs]
        for i, it in enumerate(items):
            d: Dict[str, Any] = {"Parent": parent}
            vind = it.get("vind", "")
            if it.get("t") is not None:
                d["Title"] = pdf_string(it["t"], it.get("hexstr", False))
                if "t" in vind:
                    d["Title"] = b.add(d["Title"])
            if it.get("d") is not None:
                d["Dest"] = emit_outline_dest(b, it["d"])
                if "d" in vind:
                    d["Dest"] = b.add(d["Dest"])
            if it.get("a") is not None:
                d["A"] = {"S": "GoTo", "D": emit_outline_dest(b, it["a"])}
                if "a" in vind:
                    d["A"] = b.add(d["A"])
            if it.get("se"):
                d["SE"] = {"Type": "StructElem", "S": "H1", "K": it["se"]}
            if i > 0:
                d["Prev"] = refs[i - 1]
            if i + 1 < len(items):
                d["Next"] = refs[i + 1]
            if it["kids"]:
                f, l = emit_level(it["kids"], refs[i])
                d["First"] = f
                if not it.get("nolast"):
                    d["Last"] = l
                d["Count"] = len(it["kids"]) if not it.get("closed") else -len(it["kids"])
            b.objs[refs[i].n] = d
        return (refs[0], refs[-1]) if refs else (None, None)

    rd: Dict[str, Any] = {"Type": "Outlines"}
    if forest:
        f, l = emit_level(forest, root_ref)
        rd["First"] = f
        rd["Last"] = l
        rd["Count"] = len(forest)
    b.objs[root_ref.n] = rd
    b.catalog["Outlines"] = root_ref


# ----------------------------------------------------------------------------- implementation adapters

def open_doc(pdf: bytes, case=None):
    """`case["nocache"]`: the rarely used PDFDocument(caching=False) - every reference is parsed again on each use."""
    from pdfminer.pdfdocument import PDFDocument
    from pdfminer.pdfparser import PDFParser
    return PDFDocument(PDFParser(BytesIO(pdf)), caching=not (case or {}).get("nocache", False))


def labels_pdf(case) -> bytes:
    b = Builder(case["npages"], case.get("pgroups"))
    if case.get("tree") is not None:
        b.catalog["PageLabels"] = emit_numtree(b, case["tree"])
    return b.pdf()


def _take(make_iter, k: int) -> List[str]:
    from pdfminer.pdfdocument import PDFNoPageLabels
    out: List[str] = []
    try:
        it = make_iter()
        for _ in range(k):
            out.append(cps(next(it)))
    except PDFNoPageLabels:
        out.append("E:PDFNoPageLabels")
    except Exception as e:  # noqa: BLE001
        out.append("E:" + type(e).__name__)
    return out


def _page_labels(doc) -> List[str]:
    from pdfminer.pdfpage import PDFPage
    pl: List[str] = []
    try:
        for p in PDFPage.create_pages(doc):
            pl.append("none" if p.label is None else cps(p.label))
    except Exception as e:  # noqa: BLE001
        pl.append("E:" + type(e).__name__)
    return pl


def impl_labels(case, count: int) -> Tuple[List[str], List[str]]:
    """(first `count` results of get_page_labels(), PDFPage.label of every page) observed on ONE PDFDocument,
    canonical; an exception ends the list with E:<type>."""
    doc = open_doc(labels_pdf(case), case)
    out = _take(doc.get_page_labels, count)
    return out, _page_labels(doc)


def labels_history(case, count: int) -> Optional[Tuple[str, List[str], List[str]]]:
    """State carried across calls: the labels are requested several times, in different ways, on ONE PDFDocument
    (and once on a page selection).  Returns (what, expected, got) for the first observation that differs from the
    first pass, None when all agree."""
    from pdfminer.pdfpage import PDFPage
    pdf = labels_pdf(case)
    doc = open_doc(pdf, case)
    npages = case["npages"]
    first = _take(doc.get_page_labels, count)
    if first == ["E:PDFNoPageLabels"]:
        exp_pages = ["none"] * npages
    else:
        exp_pages = first[:npages]
    p1 = _page_labels(doc)
    if not (exp_pages and exp_pages[-1].startswith("E:")) and p1 != exp_pages:
        return ("PDFPage.create_pages after get_page_labels on the same document", exp_pages, p1)
    p2 = _page_labels(doc)
    if p2 != p1:
        return ("second PDFPage.create_pages pass over the same document", p1, p2)
    again = _take(doc.get_page_labels, count)
    if again != first:
        return ("second get_page_labels() on the same document", first, again)
    if first and not first[-1].startswith("E:") and count >= 2:
        # two generators alive at the same time, consumed alternately
        k = case.get("split", count // 2) % count
        try:
            it1 = doc.get_page_labels()
            x1 = [cps(next(it1)) for _ in range(k)]
            it2 = doc.get_page_labels()
            y = [cps(next(it2)) for _ in range(count)]
            x2 = [cps(next(it1)) for _ in range(count - k)]
        except Exception as e:  # noqa: BLE001
            return ("two get_page_labels() generators consumed alternately", first, ["E:" + type(e).__name__])
        if y != first or x1 + x2 != first:
            return ("two get_page_labels() generators consumed alternately", first, x1 + x2 if y == first else y)
    subset = sorted(set(i for i in case.get("subset", []) if 0 <= i < npages))
    if subset and not (exp_pages and exp_pages[-1].startswith("E:")):
        try:
            got = ["none" if p.label is None else cps(p.label)
                   for p in PDFPage.get_pages(BytesIO(pdf), pagenos=set(subset))]
        except Exception as e:  # noqa: BLE001
            got = ["E:" + type(e).__name__]
        exp = [exp_pages[i] for i in subset]
        if got != exp:
            return ("PDFPage.get_pages(pagenos=%r): labels of the selected pages" % subset, exp, got)
    return None


def impl_labels_strict(case, count: int) -> Tuple[List[str], List[str]]:
    """impl_labels with settings.STRICT = True (restored afterwards)."""
    from pdfminer import settings
    old = settings.STRICT
    settings.STRICT = True
    try:
        return impl_labels(case, count)
    finally:
        settings.STRICT = old


def canon_obj(o) -> str:
    from pdfminer.pdftypes import PDFObjRef
    from pdfminer.psparser import PSLiteral
    if o is None:
        return "null"
    if isinstance(o, bool):
        return "true" if o else "false"
    if isinstance(o, int):
        return "i%d" % o
    if isinstance(o, float):
        return "r%r" % o
    if isinstance(o, bytes):
        return "s" + o.hex()
    if isinstance(o, PSLiteral):
        n = o.name
        return "/" + (n if isinstance(n, str) else n.decode("latin-1"))
    if isinstance(o, PDFObjRef):
        return "R%d" % o.objid
    if isinstance(o, (list, tuple)):
        return "[" + " ".join(canon_obj(x) for x in o) + "]"
    if isinstance(o, dict):
        return "<<" + " ".join(str(k) + " " + canon_obj(v) for k, v in sorted(o.items(), key=lambda kv: str(kv[0]))) + ">>"
    return "?" + type(o).__name__


def expected_dest_canon(d, npages: int) -> str:
    """canon_obj of what emit_outline_dest / emit_dest_value wrote (direct form)."""
    pg = lambda i: "R%d" % (3 + (i % max(1, npages)))   # noqa: E731
    if d[0] == "arr":
        return "[%s /%s i%d]" % (pg(d[1]), d[2], d[3])
    if d[0] == "dict":
        return "<<D [%s /%s i%d]>>" % (pg(d[1]), d[2], d[3])
    if d[0] == "str":
        return "s" + d[1]
    if d[0] == "name":
        return "/" + d[1]
    if d[0] == "empty":
        return "[]"
    if d[0] == "zero":
        return "i0"
    raise ValueError(d[0])


def outline_builder(case) -> Builder:
    b = Builder(case.get("npages", 2))
    b.outline_ids = []
    if not case.get("no_outlines"):
        emit_outlines(b, case)
        ids = b.outline_ids
        # damage: links rewired after the conforming encoding was written (cycles, shared or dangling links)
        for kind, src, dst in case.get("damage", []):
            d = b.objs[ids[src % len(ids)]]
            target = Ref(99999) if dst < 0 else Ref(ids[dst % len(ids)])
            if kind == "next":
                d["Next"] = target
            else:
                d["First"] = target
                d["Last"] = target
    return b


def outline_pdf(case) -> bytes:
    return outline_builder(case).pdf()


def canon_w(o) -> str:
    """canon_obj for objects of the PDF writer (same text as pdfminer's view of them)."""
    if isinstance(o, Ref):
        return "R%d" % o.n
    if isinstance(o, Name):
        return "/" + o.b.decode("latin-1")
    if isinstance(o, str):
        return "/" + o
    if isinstance(o, HexStr):
        return "s" + o.b.hex()
    if isinstance(o, bytes):
        return "s" + o.hex()
    if isinstance(o, bool):
        return "true" if o else "false"
    if isinstance(o, int):
        return "i%d" % o
    if isinstance(o, (list, tuple)):
        return "[" + " ".join(canon_w(x) for x in o) + "]"
    raise ValueError(o)


def sx_outline_graph(b: Builder, it: "Intern") -> Tuple[int, str]:
    """The outline dictionaries as an object graph (id, Title, Dest, A.D, SE, First, Last?, Next)."""
    parts = []
    def deref(o):
        return b.objs[o.n] if isinstance(o, Ref) else o
    for n in b.outline_ids:
        d = {k: (deref(v) if k in ("Title", "Dest", "A") else v) for k, v in b.objs[n].items()}
        t = d.get("Title")
        tb = None if t is None else (t.b if isinstance(t, HexStr) else t)
        parts.append("(%d %s %s %s %s %s %s %s)" % (
            n, "-" if tb is None else "s:" + tb.hex(),
            "-" if "Dest" not in d else str(it.get(canon_w(d["Dest"]))),
            "-" if "A" not in d else str(it.get(canon_w(d["A"]["D"]))),
            "1" if "SE" in d else "-",
            str(d["First"].n) if "First" in d else "-",
            "+" if "Last" in d else "-",
            str(d["Next"].n) if "Next" in d else "-"))
    return b.outline_ids[0], "(G " + " ".join(parts) + ")"


def _fmt_outline_item(t) -> str:
    from pdfminer.pdftypes import resolve1
    (level, title, dest, a, se) = t
    a1 = resolve1(a)
    return "%d:%s:%s:%s:%s" % (
        level, cps(title),
        "-" if dest is None else canon_obj(resolve1(dest)),
        "-" if a is None else canon_obj(a1.get("D") if isinstance(a1, dict) else a1),
        "-" if se is None else "se")


def _outline_list(doc, cap: int) -> List[str]:
    from pdfminer.pdfdocument import PDFNoOutlines
    out: List[str] = []
    try:
        for t in itertools.islice(doc.get_outlines(), cap + 1):
            if len(out) >= cap:
                out.append("E:unbounded")
                break
            out.append(_fmt_outline_item(t))
    except PDFNoOutlines:
        out.append("E:PDFNoOutlines")
    except Exception as e:  # noqa: BLE001
        out.append("E:" + type(e).__name__)
    return out


def impl_outline(case) -> List[str]:
    b = outline_builder(case)
    doc = open_doc(b.pdf(), case)
    return _outline_list(doc, len(b.outline_ids) + 2)      # every dictionary yields at most one item


def outline_history(case) -> Optional[Tuple[str, List[str], List[str]]]:
    """get_outlines() several times on ONE PDFDocument: again after a full pass, after an abandoned partial pass,
    and two generators consumed alternately.  (what, expected, got) for the first difference, else None."""
    b = outline_builder(case)
    doc = open_doc(b.pdf(), case)
    cap = len(b.outline_ids) + 2
    first = _outline_list(doc, cap)
    second = _outline_list(doc, cap)
    if second != first:
        return ("second get_outlines() on the same document", first, second)
    if first and first[-1].startswith("E:"):
        return None
    try:
        g0 = doc.get_outlines()
        for _ in range(len(first) // 2):
            next(g0)                       # abandoned half-way
        g1, g2 = doc.get_outlines(), doc.get_outlines()
        a: List[str] = []
        c: List[str] = []
        for _ in range(cap):
            x = next(g1, None)
            y = next(g2, None)
            if x is None and y is None:
                break
            if x is not None:
                a.append(_fmt_outline_item(x))
            if y is not None:
                c.append(_fmt_outline_item(y))
    except Exception as e:  # noqa: BLE001
        return ("two get_outlines() generators consumed alternately", first, ["E:" + type(e).__name__])
    if a != first or c != first:
        return ("two get_outlines() generators consumed alternately", first, a if a != first else c)
    return None


def names_pdf(case) -> bytes:
    b = Builder(case.get("npages", 3))
    if case.get("tree") is not None:
        t = emit_nametree(b, case["tree"])
        names: Dict[str, Any] = {"JavaScript": {"Names": []}}
        if not case.get("names_cat_missing"):
            names["Dests"] = t
        b.catalog["Names"] = b.add(names) if case.get("names_ind") else names
    if case.get("dict") is not None:
        dd = {k: emit_dest_value(b, v) for k, v in case["dict"].items()}
        b.catalog["Dests"] = b.add(dd) if case.get("dict_ind") else dd
    return b.pdf()


def query_key(q):
    return unh(q[1]) if q[0] == "b" else q[1]


def impl_dests(case) -> List[str]:
    from pdfminer.pdfdocument import PDFDestinationNotFound
    from pdfminer.pdftypes import resolve1
    doc = open_doc(names_pdf(case), case)
    out = []
    for q in case["queries"]:
        key = query_key(q)
        try:
            v = doc.get_dest(key)
            out.append("V:" + canon_obj(resolve1(v)) if v is not None else "None")
        except PDFDestinationNotFound:
            out.append("E:notfound")
        except Exception as e:  # noqa: BLE001
            out.append("E:" + type(e).__name__)
    return out


def dests_history(case) -> Optional[Tuple[str, List[str], List[str]]]:
    """The same queries again, in reverse order, on the SAME PDFDocument: a lookup must not depend on earlier ones."""
    from pdfminer.pdfdocument import PDFDestinationNotFound
    from pdfminer.pdftypes import resolve1
    doc = open_doc(names_pdf(case), case)

    def ask(q) -> str:
        try:
            v = doc.get_dest(query_key(q))
            return "V:" + canon_obj(resolve1(v)) if v is not None else "None"
        except PDFDestinationNotFound:
            return "E:notfound"
        except Exception as e:  # noqa: BLE001
            return "E:" + type(e).__name__
    first = [ask(q) for q in case["queries"]]
    back = [ask(q) for q in reversed(case["queries"])][::-1]
    if back != first:
        return ("get_dest asked again on the same document (reverse order)", first, back)
    return None


def spec_dests(case) -> Optional[List[str]]:
    if not names_domain(case):
        return None
    npages = case.get("npages", 3)
    tree = case.get("tree")
    flat = dict(flatten_names(tree)) if (tree is not None and not case.get("names_cat_missing")) else {}
    dd = case.get("dict") or {}
    out = []
    for q in case["queries"]:
        key = query_key(q)
        if isinstance(key, bytes):
            # a string destination is looked up in the name tree (7.9.6 / 12.3.2.3)
            out.append("V:" + expected_dest_canon(flat[key], npages) if key in flat else "E:notfound")
        else:
            # a name-object destination is looked up in the catalog's Dests dictionary (PDF 1.1)
            out.append("V:" + expected_dest_canon(dd[key], npages) if key in dd else "E:notfound")
    return out


def impl_text(b: bytes) -> str:
    from pdfminer.utils import decode_text
    try:
        return cps(decode_text(b))
    except Exception as e:  # noqa: BLE001
        return "E:" + type(e).__name__


# ----------------------------------------------------------------------------- model lines (driver protocol)

def sx_text(hexs: Optional[str]) -> str:
    return "-" if hexs is None else "s:" + hexs


def sx_label_dict(ld) -> str:
    if ld.get("junk"):
        return "(L - - -)"     # dict_value(non-dict) == {}
    return "(L %s %s %s)" % ("-" if ld.get("S") is None else "n:" + ld["S"].encode("latin-1").hex(),
                              sx_text(ld.get("P")), "-" if ld.get("St") is None else str(ld["St"]))


def sx_numtree(node) -> str:
    nums = "-" if node.get("nums") is None else "(N" + "".join(
        " (%d %s)" % (k, sx_label_dict(v)) for k, v in node["nums"]) + ")"
    kids = "-" if node.get("kids") is None else "(K" + "".join(" " + sx_numtree(c) for c in node["kids"]) + ")"
    return "(T %s %s)" % (nums, kids)


class Intern:
    """canonical value text -> small positive integer (0 is reserved for falsy values)."""

    def __init__(self):
        self.ids: Dict[str, int] = {}

    def get(self, canon: str, truthy: bool = True) -> int:
        if not truthy:
            return 0
        if canon not in self.ids:
            self.ids[canon] = len(self.ids) + 1
        return self.ids[canon]


def sx_nametree(node, it: Intern, npages: int) -> str:
    lim = "-" if node.get("limits") is None else "(s:%s s:%s)" % (node["limits"][0], node["limits"][1])
    names = "-" if node.get("names") is None else "(N" + "".join(
        " (s:%s %d)" % (k, it.get(expected_dest_canon(v, npages), val_truthy(v))) for k, v in node["names"]) + ")"
    kids = "-" if node.get("kids") is None else "(K" + "".join(
        " " + sx_nametree(c, it, npages) for c in node["kids"]) + ")"
    return "(T %s %s %s)" % (lim, names, kids)


def sx_entry(items, i: int, it: Intern, npages: int) -> str:
    """Entry term of the i-th sibling (First / Next unfolded)."""
    # iterative construction: long sibling chains must not recurse in Python
    parts_open: List[str] = []
    for j in range(i, len(items)):
        x = items[j]
        first = "-"
        if x["kids"]:
            first = sx_entry(x["kids"], 0, it, npages)
        parts_open.append("(E %s %s %s %s %s %s " % (
            sx_text(x.get("t")),
            "-" if x.get("d") is None else str(it.get(expected_dest_canon(x["d"], npages))),
            "-" if x.get("a") is None else str(it.get(expected_dest_canon(x["a"], npages))),
            "-" if not x.get("se") else "1",
            first,
            "+" if (x["kids"] and not x.get("nolast")) else "-"))
    return "".join(parts_open) + "-" + ")" * len(parts_open)


def sx_outline_root(case, it: Intern) -> str:
    forest = case["forest"]
    npages = case.get("npages", 2)
    if not forest:
        return "(E - - - - - - -)"
    return "(E - - - - %s + -)" % sx_entry(forest, 0, it, npages)


def sx_forest(items, it: Intern, npages: int) -> str:
    return "(F" + "".join(" (I %s %s %s %s %s)" % (
        sx_text(x.get("t")),
        "-" if x.get("d") is None else str(it.get(expected_dest_canon(x["d"], npages))),
        "-" if x.get("a") is None else str(it.get(expected_dest_canon(x["a"], npages))),
        "-" if not x.get("se") else "1",
        sx_forest(x["kids"], it, npages)) for x in items) + ")"


# ----------------------------------------------------------------------------- generators

def gen_text(rng, mode: Optional[str] = None) -> bytes:
    mode = mode or rng.choice(["ascii", "ascii", "doc", "doc_all", "u16", "u16", "u16_astral", "u16_bad", "empty",
                               "bom_only", "doc_undef"])
    if mode == "empty":
        return b""
    if mode == "ascii":
        return bytes(rng.randint(32, 126) for _ in range(rng.randint(1, 8)))
    if mode == "doc":
        pool = list(range(0x18, 0x20)) + list(range(0x80, 0xAF)) + [0x16, 0x17, 9, 10, 13, 0xFF, 0xFE, 0x41]
        pool = [c for c in pool if c not in (0x7F, 0x9F, 0xAD)]
        s = bytes(rng.choice(pool) for _ in range(rng.randint(1, 8)))
        return s if s[:2] != b"\xfe\xff" else b"A" + s
    if mode == "doc_all":
        s = bytes(rng.randint(0, 255) for _ in range(rng.randint(1, 8)))
        return s if s[:2] != b"\xfe\xff" else b"A" + s
    if mode == "doc_undef":
        return bytes(rng.choice([0x7F, 0x9F, 0xAD, 0x41]) for _ in range(rng.randint(1, 4)))
    if mode == "bom_only":
        return b"\xfe\xff"
    units: List[int] = []
    for _ in range(rng.randint(1, 7)):
        r = rng.random()
        if mode == "u16_astral" and r < 0.5:
            cp = rng.choice([0x10000, 0x10FFFF, 0x1F600, rng.randint(0x10000, 0x10FFFF)]) - 0x10000
            units += [0xD800 + (cp >> 10), 0xDC00 + (cp & 0x3FF)]
        elif mode == "u16_bad" and r < 0.4:
            units.append(rng.choice([0xD800, 0xDBFF, 0xDC00, 0xDFFF, rng.randint(0xD800, 0xDFFF)]))
        elif r < 0.5:
            units.append(rng.randint(0x20, 0x7E))
        else:
            units.append(rng.choice([0, 0xFFFF, 0xFEFF, 0xFFFE, 0xD7FF, 0xE000, 0x2022, 0x00E9, 0x4E2D,
                                     rng.randint(0, 0xD7FF), rng.randint(0xE000, 0xFFFF)]))
    b = b"\xfe\xff" + b"".join(bytes([u >> 8, u & 255]) for u in units)
    if mode == "u16_bad" and rng.random() < 0.4:
        b += bytes([rng.randint(0, 255)])
    return b


def gen_label_dict(rng, wild: bool) -> Dict[str, Any]:
    ld: Dict[str, Any] = {}
    s = rng.choice(["D", "D", "R", "r", "A", "a", None])
    if wild and rng.random() < 0.15:
        s = rng.choice(["X", "d", "Roman", ""])
    ld["S"] = s
    r = rng.random()
    if r < 0.45:
        ld["P"] = None
    elif r < 0.5:
        ld["P"] = ""
    else:
        ld["P"] = h(gen_text(rng, rng.choice(["ascii", "ascii", "doc", "u16", "u16_astral"]) if not wild else None))
    r = rng.random()
    if r < 0.35:
        ld["St"] = None
    elif r < 0.5:
        ld["St"] = 1
    else:
        top = {"R": 30000, "r": 30000}.get(s, 100000)
        ld["St"] = rng.choice([2, 3, 4, 5, 9, 14, 25, 26, 27, 28, 40, 52, 53, 99, 400, 676, 702, 703, 1987, 3888,
                               3998, 4000, 4999, rng.randint(1, 60), rng.randint(1, top)])
        if ld["St"] > top:
            ld["St"] = rng.randint(1, top)
    if wild and rng.random() < 0.2:
        ld["St"] = rng.choice([0, -1, -5, 3999, 4000, 4001, 5000, 999999, 1000000])   # 10**12: see corpus (style r only; the ISO letters numeral of such a value has 4e10 characters)
    if wild and rng.random() < 0.03:
        ld = {"junk": True, "S": None, "P": None, "St": None}     # the value is not a dictionary
    ld["ind"] = rng.random() < 0.3
    if rng.random() < 0.25:
        ld["vind"] = "".join(c for c in "spn" if rng.random() < 0.6)
    ld["type"] = rng.random() < 0.3
    ld["hexstr"] = rng.random() < 0.3
    return ld


def shape_tree(rng, entries: List[Any], field: str, mode: Optional[str] = None, depth: int = 0) -> Dict[str, Any]:
    """Distribute `entries` (in order) over a tree of the requested shape.  field = 'nums' | 'names'."""
    mode = mode or rng.choice(["leaf", "balanced", "balanced", "chain", "comb", "random", "random", "wide"])

    def leaf(es):
        return {field: list(es), "kids": None, "ind": rng.random() < 0.6, "kind": rng.random() < 0.15,
                "aind": rng.random() < 0.15}

    def inner(kids):
        return {field: None, "kids": kids, "ind": rng.random() < 0.6, "kind": rng.random() < 0.15,
                "aind": rng.random() < 0.15}

    if mode == "leaf" or depth > 40:
        return leaf(entries)
    if mode == "chain":
        # root -> single kid -> ... -> leaf
        node = leaf(entries)
        for _ in range(rng.randint(1, 6)):
            node = inner([node])
        return node
    if mode == "comb":
        if len(entries) <= 1:
            return inner([leaf(entries)]) if depth == 0 else leaf(entries)
        k = rng.randint(1, max(1, min(3, len(entries) - 1)))
        left = rng.random() < 0.5
        if left:
            return inner([leaf(entries[:k]), shape_tree(rng, entries[k:], field, "comb", depth + 1)])
        return inner([shape_tree(rng, entries[:-k], field, "comb", depth + 1), leaf(entries[-k:])])
    if mode == "wide":
        if not entries:
            return leaf(entries)
        return inner([leaf([e]) for e in entries])
    if mode == "balanced":
        fan = rng.choice([2, 2, 3, 4])
        if len(entries) <= fan:
            return leaf(entries) if depth > 0 or rng.random() < 0.5 else inner([leaf(entries)]) if entries else leaf(entries)
        size = -(-len(entries) // fan)
        return inner([shape_tree(rng, entries[i:i + size], field, "balanced", depth + 1)
                      for i in range(0, len(entries), size)])
    # random
    if len(entries) <= 1 or rng.random() < 0.25:
        return leaf(entries)
    ncuts = rng.randint(1, min(4, len(entries) - 1))
    cuts = sorted(rng.sample(range(1, len(entries)), ncuts))
    parts = [entries[a:b] for a, b in zip([0] + cuts, cuts + [len(entries)])]
    return inner([shape_tree(rng, p, field, "random", depth + 1) for p in parts])


def gen_labels_case(rng, wild: bool) -> Dict[str, Any]:
    npages = rng.choice([1, 2, 3, 5, 8, 13, 30, rng.randint(1, 40)])
    nranges = rng.choice([1, 1, 2, 2, 3, 4, 6, rng.randint(1, 12)])
    starts = sorted(set([0] + [rng.randint(1, max(1, npages + 2)) for _ in range(nranges - 1)]))
    if rng.random() < 0.15:
        starts = sorted(set([0] + [s * rng.randint(1, 30) for s in starts[1:]]))  # sparse: long ranges
        npages = min(max(npages, min(starts[-1] + 2, 90)), 90)
    entries = [[s, gen_label_dict(rng, wild)] for s in starts]
    case: Dict[str, Any] = {"kind": "labels", "npages": npages}
    if rng.random() < 0.5:
        # page tree with intermediate /Pages nodes (document order stays the page index)
        groups: List[int] = []
        left = npages
        while left > 0:
            g = rng.choice([0, 0, 1, 2, 3, 5])
            g = min(g, left)
            groups.append(g)
            left -= max(1, g)
        case["pgroups"] = groups
    case["subset"] = sorted(rng.sample(range(npages), rng.randint(1, min(npages, 4))))
    case["nocache"] = rng.random() < 0.25
    case["split"] = rng.randint(0, npages + 2)
    if wild:
        r = rng.random()
        if r < 0.25 and len(entries) > 1:
            rng.shuffle(entries)                      # ranges out of order
        elif r < 0.45:
            entries = [e for e in entries if e[0] != 0] or [[rng.randint(1, 5), gen_label_dict(rng, True)]]  # no key 0
        elif r < 0.55 and entries:
            entries.append([entries[-1][0], gen_label_dict(rng, True)])    # duplicate key
        elif r < 0.6:
            entries = []
    tree = shape_tree(rng, entries, "nums")
    if wild and rng.random() < 0.2 and tree.get("kids") is not None:
        extra = [[rng.randint(0, 50), gen_label_dict(rng, True)]]
        tree["nums"] = extra                          # node with Nums and Kids
    if wild and rng.random() < 0.1 and tree.get("nums"):
        tree["dangling"] = rng.randint(0, 99)         # odd-length Nums
    if rng.random() < 0.4:
        mark_limits(tree)
    case["tree"] = tree
    if wild and rng.random() < 0.05:
        case["tree"] = None
    return case


def mark_limits(node, root=True):
    if not root:
        node["limits"] = True
    for c in node.get("kids") or []:
        mark_limits(c, False)


def gen_key(rng) -> bytes:
    r = rng.random()
    if r < 0.5:
        return bytes(rng.choice(b"abcdeABC01._") for _ in range(rng.randint(1, 5)))
    if r < 0.6:
        return b"chapter.%d" % rng.randint(0, 30)
    if r < 0.65:
        return b""
    return bytes(rng.choice([0, 1, 0x7F, 0x80, 0xFE, 0xFF, 0x41, 0x61, 0x28, 0x29, 0x5C])
                 for _ in range(rng.randint(1, 4)))


def gen_dest_value(rng, tag: int, wild: bool):
    if wild and rng.random() < 0.08:
        return [rng.choice(["empty", "zero"]), 0, "Fit", tag, False]
    return [rng.choice(["arr", "arr", "dict"]), rng.randint(0, 5), rng.choice(["Fit", "FitB", "XYZ", "FitH"]), tag,
            rng.random() < 0.3]


def set_tight_limits(node, root=True):
    sub = [k for k, _ in flatten_names(node)]
    for c in node.get("kids") or []:
        set_tight_limits(c, False)
    if not root:
        if sub:
            node["limits"] = [h(min(sub)), h(max(sub))]
        else:
            node["limits"] = [h(b"m"), h(b"m")]


def neighbours(rng, key: bytes) -> List[bytes]:
    out = [key + b"\x00", key + b"a", key[:-1], key[:-1] + bytes([min(255, (key[-1] if key else 0) + 1)])]
    if key:
        out.append(key[:-1] + bytes([max(0, key[-1] - 1)]))
        out.append(key.upper() if key.upper() != key else key.lower())
    return out


def gen_names_case(rng, wild: bool) -> Dict[str, Any]:
    n = rng.choice([0, 1, 2, 3, 5, 8, 12, 20, rng.randint(0, 40)])
    keys = sorted({gen_key(rng) for _ in range(n)})
    entries = [[h(k), gen_dest_value(rng, i + 1, wild)] for i, k in enumerate(keys)]
    case: Dict[str, Any] = {"kind": "names", "npages": 3}
    if wild and rng.random() < 0.2 and len(entries) > 1:
        rng.shuffle(entries)
    if wild and rng.random() < 0.1 and entries:
        entries.append([entries[0][0], gen_dest_value(rng, 99, False)])     # duplicate key
    tree = shape_tree(rng, entries, "names")
    set_tight_limits(tree)
    r = rng.random()
    if r < 0.15:
        sub = [k for k, _ in flatten_names(tree)]
        if sub:
            tree["limits"] = [h(min(sub)), h(max(sub))]       # root carrying Limits (seen in the wild)
    tree["hexstr"] = rng.random() < 0.2
    if wild:
        nodes = all_nodes(tree)
        r = rng.random()
        if r < 0.3:
            nd = rng.choice(nodes)
            nd["limits"] = None                               # missing Limits
        elif r < 0.5:
            nd = rng.choice(nodes)
            if nd.get("limits"):
                nd["limits"] = [nd["limits"][1], nd["limits"][0]] if rng.random() < 0.5 else [h(b"b"), h(b"c")]
        elif r < 0.6:
            nd = rng.choice(nodes)
            if nd.get("kids") is not None:
                nd["names"] = [[h(gen_key(rng)), gen_dest_value(rng, 77, False)]]    # Names and Kids
    case["tree"] = tree
    if rng.random() < 0.08:
        case["tree"] = None
    if rng.random() < 0.05:
        case["names_cat_missing"] = True
    case["names_ind"] = rng.random() < 0.5
    case["nocache"] = rng.random() < 0.25
    if rng.random() < 0.5:
        dn = {rng.choice(["foo", "bar", "sec1", "a", "A", "chapter.1", "b"]) + rng.choice(["", "", "x"]): None
              for _ in range(rng.randint(0, 4))}
        # a name that is also a key of the tree (as a string) must not be confused with it
        if keys and rng.random() < 0.5:
            try:
                dn[keys[0].decode("ascii")] = None
            except UnicodeDecodeError:
                pass
        dn.pop("", None)
        case["dict"] = {k: gen_dest_value(rng, 500 + i, wild) for i, k in enumerate(sorted(dn))}
        case["dict_ind"] = rng.random() < 0.5
    else:
        case["dict"] = None
    qs: List[Any] = []
    present = list(keys)
    rng.shuffle(present)
    for k in present[:12]:
        qs.append(["b", h(k)])
    for k in present[:6]:
        for nb in neighbours(rng, k)[:rng.randint(1, 4)]:
            qs.append(["b", h(nb)])
    qs.append(["b", h(b"")])
    qs.append(["b", h(b"\xff\xff\xff\xff\xff")])
    for _ in range(3):
        qs.append(["b", h(gen_key(rng))])
    for name in list((case["dict"] or {}).keys())[:4] + ["nosuch", "a"]:
        qs.append(["s", name])
    for k in present[:3]:
        try:
            qs.append(["s", k.decode("ascii")])
        except UnicodeDecodeError:
            pass
    qs = [q for q in qs if not (q[0] == "s" and q[1] == "")]
    rng.shuffle(qs)
    case["queries"] = qs[:24]
    return case


def all_nodes(node) -> List[Any]:
    out = [node]
    for c in node.get("kids") or []:
        out += all_nodes(c)
    return out


def gen_outline_item(rng, tag: List[int], wild: bool) -> Dict[str, Any]:
    tag[0] += 1
    it: Dict[str, Any] = {"t": h(gen_text(rng, rng.choice(["ascii", "ascii", "doc", "u16", "u16_astral", "empty"]))),
                          "kids": []}
    r = rng.random()
    dst = lambda: rng.choice([["arr", rng.randint(0, 3), rng.choice(["Fit", "XYZ"]), tag[0]],   # noqa: E731
                              ["str", h(gen_key(rng) or b"k")], ["name", rng.choice(["foo", "sec1", "x.y"])]])
    if r < 0.6:
        it["d"] = dst()
    elif r < 0.9:
        it["a"] = dst()
    else:
        it["d"] = dst()
        it["a"] = dst()
    if rng.random() < 0.1:
        it["se"] = tag[0]
    if rng.random() < 0.3:
        it["hexstr"] = True
    if rng.random() < 0.2:
        it["closed"] = True
    if rng.random() < 0.2:
        it["vind"] = "".join(c for c in "tda" if rng.random() < 0.6)
    if wild:
        r = rng.random()
        if r < 0.15:
            it.pop("d", None)
            it.pop("a", None)       # heading-only item (outside the generated grammar of the property)
        elif r < 0.22:
            it["t"] = None          # no Title
        elif r < 0.3:
            it["nolast"] = True
    return it


def gen_forest(rng, budget: int, depth: int, tag: List[int], wild: bool, maxdepth: int) -> List[Any]:
    items = []
    n = rng.randint(1, max(1, min(budget, 6)))
    for _ in range(n):
        if budget <= 0:
            break
        it = gen_outline_item(rng, tag, wild)
        budget -= 1
        if depth < maxdepth and budget > 0 and rng.random() < 0.45:
            sub = rng.randint(1, budget)
            it["kids"] = gen_forest(rng, sub, depth + 1, tag, wild, maxdepth)
            budget -= count_items(it["kids"])
        items.append(it)
    return items


def count_items(forest) -> int:
    n = 0
    stack = list(forest)
    while stack:
        x = stack.pop()
        n += 1
        stack.extend(x["kids"])
    return n


def gen_outline_case(rng, wild: bool, special: Optional[str] = None) -> Dict[str, Any]:
    tag = [0]
    case: Dict[str, Any] = {"kind": "outline", "npages": 2}
    if special == "siblings":
        n = rng.choice([1500, 2000, 3000])
        case["forest"] = [{"t": h(b"s%d" % i), "d": ["arr", i % 2, "Fit", i], "kids": []} for i in range(n)]
        # a few children somewhere along the chain
        for j in rng.sample(range(n), 3):
            case["forest"][j]["kids"] = [{"t": h(b"c"), "d": ["arr", 0, "Fit", 0], "kids": []}]
        return case
    if special == "deep":
        d = rng.choice([20, 40, 60])
        node: List[Any] = []
        for i in range(d):
            node = [{"t": h(b"d%d" % i), "a": ["str", h(b"k%d" % i)], "kids": node},
                    {"t": h(b"e%d" % i), "d": ["name", "foo"], "kids": []}]
        case["forest"] = node
        return case
    if special == "damaged":
        case["forest"] = gen_forest(rng, rng.choice([2, 4, 8, 15]), 0, tag, False, rng.choice([1, 3, 5]))
        n = count_items(case["forest"]) + 1       # ids: 0 = Outlines dictionary, 1.. = items in emission order
        dmg = []
        for _ in range(rng.choice([1, 1, 2, 3])):
            kind = rng.choice(["next", "next", "first"])
            src = rng.randint(1, n - 1)
            r = rng.random()
            if r < 0.25:
                dst = src                          # link to itself
            elif r < 0.45:
                dst = 0                            # back to the Outlines dictionary
            elif r < 0.6:
                dst = -1                           # dangling reference
            else:
                dst = rng.randint(0, n - 1)        # any other dictionary (ancestor, earlier sibling, cousin)
            dmg.append([kind, src, dst])
        case["damage"] = dmg
        return case
    if special == "empty":
        case["forest"] = []
        return case
    if special == "none":
        case["forest"] = []
        case["no_outlines"] = True
        return case
    case["forest"] = gen_forest(rng, rng.choice([1, 2, 4, 8, 15, 30]), 0, tag, wild, rng.choice([0, 1, 3, 6]))
    case["nocache"] = rng.random() < 0.25
    return case


def outline_domain(case) -> bool:
    """Mirror of Spec.Outline.item: every item has a Title (a valid text string) and a Dest or an A
    (DESIGN section 7, interpretive choices)."""
    stack = list(case["forest"])
    while stack:
        x = stack.pop()
        if x.get("t") is None or (x.get("d") is None and x.get("a") is None):
            return False
        if spec_text(unh(x["t"])) is None:
            return False
        stack.extend(x["kids"])
    return True


def outline_conformant(case) -> bool:
    """The First/Last/Next encoding written to the file is the conforming one."""
    if case.get("no_outlines"):
        return False
    stack = list(case["forest"])
    while stack:
        x = stack.pop()
        if x.get("nolast"):
            return False
        stack.extend(x["kids"])
    return True


def spec_outline_lines(case) -> Optional[List[str]]:
    if not outline_domain(case):
        return None
    npages = case.get("npages", 2)
    out = []
    # iterative preorder (forests with thousands of siblings)
    stack = [(1, x) for x in reversed(case["forest"])]
    while stack:
        lvl, x = stack.pop()
        out.append("%d:%s:%s:%s:%s" % (
            lvl, cps_list(spec_text(unh(x["t"])) or []),
            "-" if x.get("d") is None else expected_dest_canon(x["d"], npages),
            "-" if x.get("a") is None else expected_dest_canon(x["a"], npages),
            "se" if x.get("se") else "-"))
        for k in reversed(x["kids"]):
            stack.append((lvl + 1, k))
    return out


# ----------------------------------------------------------------------------- evaluation of one case

class Batch:
    """Collects driver requests; compared after all cases ran."""

    def __init__(self):
        self.lines: List[str] = []
        self.expect: List[Tuple[str, Any, str, str]] = []   # (op, input, impl/pyspec output, role)

    def add(self, line: str, op: str, inp: Any, out: str, role: str):
        self.lines.append(line)
        self.expect.append((op, inp, out, role))

    def flush(self, ctx: C.Ctx):
        if ctx.driver is None or not self.lines:
            return
        outs = ctx.driver.ask(self.lines)
        for (op, inp, exp, role), got in zip(self.expect, outs):
            if got == "outside-domain" and role == "spec" and exp == "outside-domain":
                continue
            if exp != got:
                ctx.disagree(op + ("(lean spec vs python twin)" if role == "spec" else ""), inp, exp, got)
        self.lines, self.expect = [], []


def alpha_only_tags(case, count, impl, exp) -> Dict[str, Any]:
    """Tags for a label failure: does replacing the ISO letters numeral by bijective base 26 explain everything?"""
    alt = spec_labels(case, count, alpha=bij_alpha)
    tags: Dict[str, Any] = {"component": "labels", "alpha_only": alt is not None and alt == impl}
    flat = flatten_num(case["tree"])
    for i, (a, b) in enumerate(zip(impl, exp)):
        if a != b:
            start, ld = [r for r in flat if r[0] <= i][-1]
            tags["style"] = ld.get("S")
            tags["value"] = (ld["St"] if ld.get("St") is not None else 1) + (i - start)
            tags["page"] = i
            break
    return tags


def shrink_labels(case, fails) -> Dict[str, Any]:
    """Greedy structural simplification keeping `fails(case)` true."""
    cur = case
    flat = flatten_num(cur["tree"])
    cand = dict(cur, tree={"nums": [[k, dict(v, ind=False, type=False, hexstr=False)] for k, v in flat],
                           "kids": None, "ind": False})
    if fails(cand):
        cur = cand
        # drop ranges
        nums = cur["tree"]["nums"]
        nums = C.ddmin(nums, lambda sub: fails(dict(cur, tree=dict(cur["tree"], nums=sub))), 60)
        cur = dict(cur, tree=dict(cur["tree"], nums=nums))
        # drop prefixes
        for i in range(len(nums)):
            if nums[i][1].get("P") is not None:
                n2 = [list(x) for x in nums]
                n2[i] = [nums[i][0], dict(nums[i][1], P=None)]
                c2 = dict(cur, tree=dict(cur["tree"], nums=n2))
                if fails(c2):
                    cur, nums = c2, n2
    else:
        # the shape matters: one leaf per entry under the root, then fewer entries
        def wide(es):
            return {"nums": None, "ind": False,
                    "kids": [{"nums": [[k, dict(v, ind=False, type=False, hexstr=False)]], "kids": None, "ind": False}
                             for k, v in es]}
        if fails(dict(cur, tree=wide(flat))):
            keep = C.ddmin([list(x) for x in flat], lambda sub: fails(dict(cur, tree=wide(sub))), 60)
            cur = dict(cur, tree=wide(keep))
    # fewer pages
    lo = 1
    while lo < cur["npages"] and not fails(dict(cur, npages=lo)):
        lo += 1
    if lo < cur["npages"] and fails(dict(cur, npages=lo)):
        cur = dict(cur, npages=lo)
    return cur


def eval_labels(ctx: C.Ctx, batch: Batch, case, wild: bool, shrink: bool = True) -> None:
    npages = case["npages"]
    count = npages + case.get("extra", 3)
    impl, pl = impl_labels(case, count)
    flat = flatten_num(case["tree"]) if case.get("tree") else []
    ctx.case(("labels", json.dumps(case, sort_keys=True)), len(flat) >= 2,
             sample={"kind": "labels", "npages": npages, "ranges": [[k, v.get("S"), v.get("P"), v.get("St")]
                                                                    for k, v in flat[:6]]},
             branch="labels:wild" if wild else "labels:domain")
    for _, ld in flat:
        ctx.branch("style:%s" % ld.get("S"))
        ctx.branch("St:" + ("absent" if ld.get("St") is None else "given"))
        ctx.branch("P:" + ("absent" if ld.get("P") is None else ("utf16" if ld["P"].startswith("feff") else "doc")))
    if case.get("tree"):
        nodes = all_nodes(case["tree"])
        ctx.branch("numtree:depth>=3" if tree_depth(case["tree"]) >= 3 else "numtree:depth<3")
        ctx.branch("numtree:indirect-nodes", sum(1 for n in nodes if n.get("ind")))
        ctx.branch("numtree:direct-nodes", sum(1 for n in nodes if not n.get("ind")))
    if impl and impl[-1].startswith("E:"):
        ctx.branch("labels:" + impl[-1])
    # PDFPage.label must be the first npages labels (attachment in page order)
    exp_pl = impl[:npages]
    if impl == ["E:PDFNoPageLabels"]:
        exp_pl = ["none"] * npages
    if pl != exp_pl and not (exp_pl and exp_pl[-1].startswith("E:") and pl[:len(exp_pl)] == exp_pl):
        ctx.fail(C.Failure("PDFPage.label is not the label get_page_labels() yields for that page index",
                           case, exp_pl, pl, {"component": "pagelabel-attach"}))
    # tie
    if case.get("tree") is not None:
        batch.add("labels %d %s" % (count, sx_numtree(case["tree"])), "labels", case, "|".join(impl), "model")
    # property
    exp = spec_labels(case, count) if case.get("tree") is not None else None
    if case.get("tree") is not None:
        batch.add("spec.labels %d %s" % (count, sx_numtree(case["tree"])), "spec.labels", case,
                  "outside-domain" if exp is None else "|".join(exp), "spec")
    hist = labels_history(case, count)
    if hist is not None:
        def hfails(c):
            try:
                return labels_history(c, c["npages"] + c.get("extra", 3)) is not None
            except Exception:  # noqa: BLE001
                return False
        small = shrink_labels(case, hfails) if case.get("tree") is not None else case
        h2 = labels_history(small, small["npages"] + small.get("extra", 3)) or hist
        ctx.fail(C.Failure("page labels depend on what was requested before on the same document / on the page "
                           "selection: " + h2[0].split(":")[0].split("(pagenos")[0].strip(),
                           small, h2[1], h2[2], {"component": "labels-history", "observation": h2[0]}))
    if case.get("tree") is not None:
        eval_labels_strict(ctx, batch, case, wild, exp, count)
    if exp is not None and not wild:
        if impl != exp:
            def fails(c):
                try:
                    cnt = c["npages"] + c.get("extra", 3)
                    e = spec_labels(c, cnt)
                    return e is not None and impl_labels(c, cnt)[0] != e
                except Exception:  # noqa: BLE001
                    return False
            small = shrink_labels(case, fails) if shrink else case
            cnt = small["npages"] + small.get("extra", 3)
            i2, _ = impl_labels(small, cnt)
            e2 = spec_labels(small, cnt)
            ctx.fail(C.Failure("page label differs from ISO 32000-1 12.4.2 (prefix ++ numeral(style, St + i - start))",
                               small, e2, i2, alpha_only_tags(small, cnt, i2, e2)))


def eval_labels_strict(ctx: C.Ctx, batch: Batch, case, wild: bool, exp: Optional[List[str]], count: int) -> None:
    """settings.STRICT = True: a conforming tree must give the same labels as in the default mode."""
    flat = flatten_num(case["tree"])
    if any(ld.get("junk") for _, ld in flat):
        return      # PDFTypeError from dict_value: type faults are C13's subject
    impl, pl = impl_labels_strict(case, count)
    ctx.branch("labels-strict:" + (impl[-1] if impl and impl[-1].startswith("E:") else "ok"))
    batch.add("labels.strict %d %s" % (count, sx_numtree(case["tree"])), "labels.strict", case, "|".join(impl), "model")
    if exp is None or wild:
        return
    npages = case["npages"]
    if impl == exp and pl != exp[:npages]:
        ctx.fail(C.Failure("PDFPage.label is not the label of that page index (settings.STRICT = True)",
                           case, exp[:npages], pl, {"component": "pagelabel-attach", "mode": "strict"}))
    if impl != exp:
        def fails(c):
            try:
                cnt = c["npages"] + c.get("extra", 3)
                e = spec_labels(c, cnt)
                return e is not None and impl_labels_strict(c, cnt)[0] != e
            except Exception:  # noqa: BLE001
                return False
        small = shrink_labels(case, fails)
        cnt = small["npages"] + small.get("extra", 3)
        i2, _ = impl_labels_strict(small, cnt)
        e2 = spec_labels(small, cnt)
        tags = alpha_only_tags(small, cnt, i2, e2)
        tags["mode"] = "strict"
        ctx.fail(C.Failure("with settings.STRICT = True a conforming page-label tree does not give the labels of "
                           "ISO 32000-1 12.4.2", dict(small, strict=True), e2, i2, tags))


def tree_depth(node) -> int:
    return 1 + max([tree_depth(c) for c in node.get("kids") or []] or [0])


def eval_outline(ctx: C.Ctx, batch: Batch, case, wild: bool) -> None:
    impl = impl_outline(case)
    n = count_items(case["forest"])
    ctx.case(("outline", json.dumps(case, sort_keys=True) if n < 200 else (n, case["forest"][0]["t"])), n >= 2,
             sample={"kind": "outline", "items": n, "top": len(case["forest"])},
             branch="outline:wild" if wild else "outline:domain")
    ctx.branch("outline:siblings>=1000" if len(case["forest"]) >= 1000 else "outline:siblings<1000")
    if impl and impl[-1].startswith("E:"):
        ctx.branch("outline:" + impl[-1])
    it = Intern()
    exp = spec_outline_lines(case)

    def internalise(lines: List[str]) -> str:
        out = []
        for ln in lines:
            if ln.startswith("E:"):
                out.append(ln)
                continue
            lvl, title, d, a, se = ln.split(":")
            out.append("%s:%s:%s:%s:%s" % (lvl, title, "-" if d == "-" else it.get(d), "-" if a == "-" else it.get(a),
                                           "-" if se == "-" else "1"))
        return "|".join(out) if out else "-"
    damaged = bool(case.get("damage"))
    small_in = case if n < 200 else {"kind": "outline", "items": n}
    if n < 400:
        hist = outline_history(case)
        if hist is not None:
            ctx.fail(C.Failure("get_outlines() depends on earlier calls on the same document: " + hist[0], small_in,
                               hist[1][:40], hist[2][:40], {"component": "outline-history", "observation": hist[0]}))
    if not case.get("no_outlines"):
        # the object-graph model (visited set): also for rewired links (cycles, shared, dangling)
        root_id, gsx = sx_outline_graph(outline_builder(case), it)
        batch.add("outline.graph %d %s" % (root_id, gsx), "outline.graph", small_in, internalise(impl), "model")
    if damaged:
        ctx.branch("outline:damaged:" + "+".join(sorted({d[0] + ("-dangling" if d[2] < 0 else "") for d in case["damage"]})))
        if impl and impl[-1].startswith("E:"):
            ctx.fail(C.Failure("get_outlines() does not end normally on an outline whose First/Next links are cyclic, "
                               "shared or dangling (%s)" % impl[-1][2:], case, "a finite list of items", impl[-3:],
                               {"component": "outline-cycle", "exception": impl[-1][2:]}))
        return
    if not case.get("no_outlines"):
        root = sx_outline_root(case, it)
        batch.add("outline " + root, "outline", case if n < 200 else {"kind": "outline", "items": n},
                  internalise(impl), "model")
        if exp is not None and not wild and outline_conformant(case):
            batch.add("outline.enc " + sx_forest(case["forest"], it, case.get("npages", 2)), "outline.enc",
                      case if n < 200 else {"kind": "outline", "items": n}, internalise(impl), "model")
        batch.add("spec.outline " + sx_forest(case["forest"], it, case.get("npages", 2)), "spec.outline",
                  case if n < 200 else {"kind": "outline", "items": n},
                  "outside-domain" if exp is None else internalise(exp), "spec")
    if exp is not None and not wild and outline_conformant(case) and impl != exp:
        small = case
        if impl and impl[-1] == "E:RecursionError":
            tags = {"component": "outline", "exception": "RecursionError", "siblings": len(case["forest"])}
            # smallest sibling count that still fails (the forest is a plain chain plus a few children)
            lo, hi = 1, len(case["forest"])
            while lo < hi:
                mid = (lo + hi) // 2
                c2 = dict(case, forest=[dict(x, kids=[]) for x in case["forest"][:mid]])
                if impl_outline(c2)[-1:] == ["E:RecursionError"]:
                    hi = mid
                else:
                    lo = mid + 1
            small = dict(case, forest=[dict(x, kids=[]) for x in case["forest"][:lo]])
            tags["siblings"] = lo
            impl2 = impl_outline(small)
            exp2 = spec_outline_lines(small)
            small_doc = {"kind": "outline", "npages": 2, "generated": "sibling-chain", "siblings": lo}
            ctx.fail(C.Failure("get_outlines() raises on a long chain of siblings instead of listing them",
                               small_doc, "%d entries" % len(exp2 or []), impl2[-1:], tags))
            return
        ctx.fail(C.Failure("get_outlines() is not the preorder of First/Next with levels (ISO 32000-1 12.3.3)",
                           small if n < 400 else {"kind": "outline", "items": n}, exp[:50], impl[:50],
                           {"component": "outline"}))


def eval_names(ctx: C.Ctx, batch: Batch, case, wild: bool) -> None:
    impl = impl_dests(case)
    exp = spec_dests(case)
    tree = case.get("tree")
    ctx.case(("names", json.dumps(case, sort_keys=True)), tree is not None and tree.get("kids") is not None,
             sample={"kind": "names", "keys": len(flatten_names(tree)) if tree else 0,
                     "depth": tree_depth(tree) if tree else 0, "queries": case["queries"][:4]},
             branch="names:wild" if wild else "names:domain")
    if tree:
        ctx.branch("nametree:depth>=3" if tree_depth(tree) >= 3 else "nametree:depth<3")
        ctx.branch("nametree:root-limits" if tree.get("limits") else "nametree:root-nolimits")
    hist = dests_history(case)
    if hist is not None:
        ctx.fail(C.Failure("get_dest depends on earlier lookups on the same document", case, hist[1], hist[2],
                           {"component": "names-history", "observation": hist[0]}))
    it = Intern()
    npages = case.get("npages", 3)
    # soundness on EVERY catalog, conforming or not (C17_nametree_sound / C17_dest_sound): a value returned for a
    # string is associated with that key in the name tree, one returned for a name object with that name in /Dests
    for q, r in zip(case["queries"], impl):
        if not r.startswith("V:"):
            continue
        try:
            if q[0] == "b":
                cands = [expected_dest_canon(v, npages) for k, v in flatten_names(tree) if k == unh(q[1])] \
                    if tree and not case.get("names_cat_missing") else []
            else:
                cands = [expected_dest_canon(case["dict"][q[1]], npages)] \
                    if case.get("dict") and q[1] in case["dict"] else []
        except (ValueError, TypeError, KeyError, IndexError):
            continue                      # junk values of wild cases have no canonical form
        ctx.branch("dest:sound:" + ("wild" if wild else "domain"))
        if r[2:] not in cands:
            ctx.fail(C.Failure("get_dest(name) returns a value the name tree / Dests dictionary does not associate with "
                               "that name", dict(case, queries=[q]), "one of %r" % (cands,), r,
                               {"component": "names-sound", "key_type": "str" if q[0] == "s" else "bytes"}))
            break
    # register expected values first so that ids are stable
    tsx = "-" if (tree is None or case.get("names_cat_missing")) else sx_nametree(tree, it, npages)
    dsx = "-" if case.get("dict") is None else "(D" + "".join(
        " (u:%s %d)" % (k.encode("utf-8").hex(), it.get(expected_dest_canon(v, npages), val_truthy(v)))
        for k, v in case["dict"].items()) + ")"

    def internalise(r: str) -> str:
        if r.startswith("V:"):
            c = r[2:]
            if c in ("[]", "i0"):
                return "V:0"
            return "V:%d" % it.get(c)
        return r
    for q, r in zip(case["queries"], impl):
        ctx.branch("dest:" + (r if not r.startswith("V:") else "found") + (":str" if q[0] == "s" else ":bytes"))
        key = ("b:" + q[1]) if q[0] == "b" else ("u:" + q[1].encode("utf-8").hex())
        if key in ("b:", "u:"):
            key += "-"
        batch.add("dest %s %s %s" % (key, tsx, dsx), "dest", {"case": case, "query": q},
                  internalise(r), "model")
    if exp is None and case["queries"]:
        q = case["queries"][0]
        key = ("b:" + q[1]) if q[0] == "b" else ("u:" + q[1].encode("utf-8").hex())
        if key in ("b:", "u:"):
            key += "-"
        batch.add("spec.dest %s %s %s" % (key, tsx, dsx), "spec.dest", {"case": case, "query": q},
                  "outside-domain", "spec")
    if exp is not None:
        for q, r in zip(case["queries"], exp):
            key = ("b:" + q[1]) if q[0] == "b" else ("u:" + q[1].encode("utf-8").hex())
            if key in ("b:", "u:"):
                key += "-"
            batch.add("spec.dest %s %s %s" % (key, tsx, dsx), "spec.dest", {"case": case, "query": q},
                      internalise(r), "spec")
    if exp is not None and not wild:
        for q, r, e in zip(case["queries"], impl, exp):
            if r != e:
                small = shrink_names(case, q)
                r2 = impl_dests(small)[0]
                e2 = (spec_dests(small) or ["?"])[0]
                tags = {"component": "names", "key_type": "str" if q[0] == "s" else "bytes", "got": r2,
                        "expected": e2, "root_limits": bool(small.get("tree") and small["tree"].get("limits"))}
                what = "get_dest(name) is not the lookup in the flattened name tree / Dests dictionary (ISO 32000-1 7.9.6)"
                if r2.startswith("E:") and r2 != "E:notfound":
                    what = "get_dest(name) raises %s instead of returning the destination or PDFDestinationNotFound" % r2[2:]
                elif r2 == "None":
                    what = "get_dest(name) returns None for an absent name instead of raising PDFDestinationNotFound"
                ctx.fail(C.Failure(what, small, e2, r2, tags))
                break


def shrink_names(case, q) -> Dict[str, Any]:
    def fails(c) -> bool:
        try:
            e = spec_dests(c)
            return e is not None and impl_dests(c)[0] != e[0]
        except Exception:  # noqa: BLE001
            return False
    cur = dict(case, queries=[q])
    if not fails(cur):
        return dict(case, queries=[q])
    for simpler in ({"dict": None}, {"names_ind": False}, {"dict_ind": False}):
        c2 = dict(cur, **simpler)
        if fails(c2):
            cur = c2
    tree = cur.get("tree")
    if tree is not None:
        # two-level tree with tight limits, then fewer keys
        flat = [[h(k), v[:4] + [False]] for k, v in flatten_names(tree)]

        kind = any(nd.get("kind") for nd in all_nodes(tree))

        def two_level(entries, root_limits):
            if not entries:
                return None
            leaf = {"names": entries, "kids": None, "ind": False, "kind": kind}
            root = {"names": None, "kids": [leaf], "ind": False}
            set_tight_limits(root)
            if root_limits:
                root = dict(leaf, limits=[entries[0][0], entries[-1][0]])
            return root
        for rl in (bool(tree.get("limits")), False):
            t2 = two_level(flat, rl)
            if t2 is not None and fails(dict(cur, tree=t2)):
                keep = C.ddmin(flat, lambda sub: fails(dict(cur, tree=two_level(sub, rl))), 80)
                cur = dict(cur, tree=two_level(keep, rl))
                break
    return cur


def eval_text(ctx: C.Ctx, batch: Batch, b: bytes) -> None:
    impl = impl_text(b)
    exp = spec_text(b)
    kind = "utf16" if b[:2] == b"\xfe\xff" else "doc"
    ctx.case(("text", b), any(c >= 0x80 or c < 0x20 for c in b), sample={"kind": "text", "hex": h(b)},
             branch="text:" + kind + (":outside-domain" if exp is None else ""))
    batch.add("text " + C.hx(b), "text", {"kind": "text", "hex": h(b)}, impl, "model")
    batch.add("spec.text " + C.hx(b), "spec.text", {"kind": "text", "hex": h(b)},
              "outside-domain" if exp is None else cps_list(exp), "spec")
    if exp is not None and impl != cps_list(exp):
        def fails(bs: List[int]) -> bool:
            bb = bytes(bs)
            e = spec_text(bb)
            return e is not None and impl_text(bb) != cps_list(e)
        small = bytes(C.ddmin(list(b), fails, 100)) if len(b) > 1 else b
        ctx.fail(C.Failure("decode_text differs from UTF-16BE (with BOM) / PDFDocEncoding",
                           {"kind": "text", "hex": h(small)}, cps_list(spec_text(small) or []), impl_text(small),
                           {"component": "text", "encoding": kind}))


# ----------------------------------------------------------------------------- formatters

def run_formatters(ctx: C.Ctx, batch: Batch) -> None:
    from pdfminer import utils as U
    # roman: exhaustive over the whole domain on every run
    bad = None
    for n in range(1, 4000):
        try:
            got = U.format_int_roman(n)
        except Exception as e:  # noqa: BLE001
            got = "E:" + type(e).__name__
        exp = spec_roman(n)
        ctx.case(("roman", n), True, branch="roman")
        batch.add("roman %d" % n, "roman", {"kind": "roman", "value": n}, cps(got) if not got.startswith("E:") else got,
                  "model")
        batch.add("gen.roman %d" % n, "gen.roman", {"kind": "roman", "value": n},
                  cps(got) if not got.startswith("E:") else got, "model")
        ctx.branch("translated:format_int_roman")
        batch.add("spec.roman %d" % n, "spec.roman", {"kind": "roman", "value": n}, cps(exp), "spec")
        if got != exp and bad is None:
            bad = (n, exp, got)
    if bad:
        ctx.fail(C.Failure("format_int_roman differs from the subtractive-notation numeral",
                           {"kind": "roman", "value": bad[0]}, bad[1], bad[2], {"component": "roman"}))
    # past 3999 (since the round-6 fix part of the domain: thousands = repeated m) and the assertion
    big = list(range(4000, 4000 + ctx.n(300, 3000))) + [4999, 5000, 9999, 10000, 12345, 39999, 40000] \
        + [ctx.rng.randint(4000, 200000) for _ in range(ctx.n(200, 2000))] \
        + [ROMAN_MAX_SPEC - 1, ROMAN_MAX_SPEC - 1000, ctx.rng.randint(200000, ROMAN_MAX_SPEC - 1)]
    if getattr(U, "ROMAN_MAX", None) != ROMAN_MAX_SPEC:
        ctx.fail(C.Failure("utils.ROMAN_MAX is not the bound of the specification's domain (one million)",
                           {"kind": "roman", "value": ROMAN_MAX_SPEC - 1}, str(ROMAN_MAX_SPEC),
                           str(getattr(U, "ROMAN_MAX", None)), {"component": "roman"}))
    # outside the asserted range: AssertionError at once (an extreme /St must not build an unbounded numeral)
    for n in big + [0, -1, -4000, ROMAN_MAX_SPEC, ROMAN_MAX_SPEC + 1, 10 ** 9, 10 ** 12, 2 ** 64, -10 ** 12]:
        try:
            got = U.format_int_roman(n)
        except Exception as e:  # noqa: BLE001
            got = "E:" + type(e).__name__
        exp = spec_roman(n)
        ctx.case(("roman", n), True, branch="roman>=4000" if n >= 4000 else "roman:outside:" + got[:20])
        shown = cps(got) if not got.startswith("E:") else got
        batch.add("roman %d" % n, "roman", {"kind": "roman", "value": n}, shown, "model")
        batch.add("gen.roman %d" % n, "gen.roman", {"kind": "roman", "value": n}, shown, "model")
        if exp is not None:
            batch.add("spec.roman %d" % n, "spec.roman", {"kind": "roman", "value": n}, cps(exp), "spec")
            if got != exp and bad is None:
                bad = (n, exp, got)
                ctx.fail(C.Failure("format_int_roman differs from the subtractive-notation numeral",
                                   {"kind": "roman", "value": n}, exp, got, {"component": "roman"}))
    # PageLabels._format_page_label itself (static method) against the translated if/elif chain (gen.label)
    from pdfminer.pdfdocument import PageLabels
    from pdfminer.psparser import LIT
    for _ in range(ctx.n(400, 4000)):
        st = ctx.rng.choice(["D", "R", "r", "A", "a", "-", "D", "R", "r", "A", "a", "x", "d", "Roman", "AA"])
        v = ctx.rng.choice([ctx.rng.randint(-3, 60), ctx.rng.randint(1, 5000), ctx.rng.randint(1, 10 ** 6)])
        try:
            got = cps(PageLabels._format_page_label(v, None if st == "-" else LIT(st)))
        except Exception as e:  # noqa: BLE001
            got = "E:" + type(e).__name__
        ctx.case(("fmt", st, v), True, branch="translated:_format_page_label:" + (st if len(st) == 1 else "other")
                 + (":raises" if got.startswith("E:") else ""))
        batch.add("gen.label %s %d" % (st, v), "gen.label", {"kind": "fmt", "style": st, "value": v}, got, "model")
    # alpha
    top = ctx.n(3000, 60000)
    first_bad = None
    other_bad = None
    vals = list(range(-2, top)) + [ctx.rng.randint(top, 10 ** 9) for _ in range(200)]
    for n in vals:
        try:
            got = U.format_int_alpha(n)
        except Exception as e:  # noqa: BLE001
            got = "E:" + type(e).__name__
        exp = spec_alpha(n)
        ctx.case(("alpha", n), True, branch="alpha<=26" if n <= 26 else "alpha>26")
        batch.add("alpha %d" % n, "alpha", {"kind": "alpha", "value": n}, cps(got) if not got.startswith("E:") else got,
                  "model")
        if n < 4000 or n % 7 == 0:      # translated code (Gen/LabelCode.lean): pass budget = value, keep the big ones few
            batch.add("gen.alpha %d" % n, "gen.alpha", {"kind": "alpha", "value": n},
                      cps(got) if not got.startswith("E:") else got, "model")
            ctx.branch("translated:format_int_alpha" + (":assert" if got.startswith("E:") else ""))
        if exp is not None and n < 5000:
            batch.add("spec.alpha %d" % n, "spec.alpha", {"kind": "alpha", "value": n}, cps(exp), "spec")
        if exp is not None and got != exp:
            if n > 26 and got == bij_alpha(n):
                if first_bad is None:
                    first_bad = (n, exp, got)
            elif other_bad is None:
                other_bad = (n, exp, got)
    if first_bad:
        n, exp, got = first_bad
        ctx.fail(C.Failure("format_int_alpha differs from ISO 32000-1 Table 159 letters (a..z, aa..zz, aaa..)",
                           {"kind": "alpha", "value": n}, exp, got,
                           {"component": "alpha", "value": n, "alpha_only": True, "style": "a"}))
    if other_bad:
        n, exp, got = other_bad
        ctx.fail(C.Failure("format_int_alpha differs from ISO 32000-1 Table 159 letters (a..z, aa..zz, aaa..)",
                           {"kind": "alpha", "value": n}, exp, got,
                           {"component": "alpha", "value": n, "alpha_only": False, "style": "a"}))


# ----------------------------------------------------------------------------- run / replay

CLASSIFIERS = {
    # open finding alpha-repeat: the only deviation is the letters numeral of a value > 26 being bijective base 26
    "c17_alpha_value_gt_26": lambda f: (f.tags.get("component") in ("alpha", "labels")
                                        and f.tags.get("style") in ("A", "a")
                                        and f.tags.get("value", 0) > 26
                                        and f.tags.get("alpha_only") is True),
}


def eval_case(ctx: C.Ctx, batch: Batch, case, wild: bool) -> None:
    k = case.get("kind")
    if k == "labels":
        eval_labels(ctx, batch, case, wild)
    elif k == "outline":
        if case.get("generated") == "sibling-chain":
            n = case["siblings"]
            case = dict(case, forest=[{"t": h(b"s%d" % i), "d": ["arr", i % 2, "Fit", i], "kids": []} for i in range(n)])
        eval_outline(ctx, batch, case, wild)
    elif k == "names":
        eval_names(ctx, batch, case, wild)
    elif k == "text":
        eval_text(ctx, batch, unh(case["hex"]))
    elif k in ("alpha", "roman"):
        from pdfminer import utils as U
        n = case["value"]
        f = U.format_int_alpha if k == "alpha" else U.format_int_roman
        sp = spec_alpha if k == "alpha" else spec_roman
        try:
            got = f(n)
        except Exception as e:  # noqa: BLE001
            got = "E:" + type(e).__name__
        exp = sp(n)
        ctx.case((k, n), True, branch="corpus:" + k)
        batch.add("%s %d" % (k, n), k, case, cps(got) if not got.startswith("E:") else got, "model")
        if exp is not None and got != exp:
            ctx.fail(C.Failure("format_int_%s differs from the ISO 32000-1 numeral" % k, case, exp, got,
                               {"component": k, "value": n, "style": "a" if k == "alpha" else "r",
                                "alpha_only": k == "alpha" and n > 26 and got == bij_alpha(n)}))


def run_corpus(ctx: C.Ctx, batch: Batch) -> None:
    for path in sorted(glob.glob(os.path.join(C.VERIF, "corpus", "C17", "*.json"))):
        with open(path) as fp:
            doc = json.load(fp)
        ctx.branch("corpus")
        eval_case(ctx, batch, doc["input"], False)


def replay(ctx: C.Ctx, doc) -> None:
    batch = Batch()
    eval_case(ctx, batch, doc.get("input", {}), False)
    batch.flush(ctx)


def run(ctx: C.Ctx) -> None:
    rng = ctx.rng
    batch = Batch()
    run_corpus(ctx, batch)
    run_formatters(ctx, batch)
    batch.flush(ctx)
    # text strings: every byte once, then random
    for c in range(256):
        eval_text(ctx, batch, bytes([c]))
        eval_text(ctx, batch, b"\xfe\xff" + bytes([c, 0x41]))
    for _ in range(ctx.n(1500, 60000)):
        eval_text(ctx, batch, gen_text(rng))
    batch.flush(ctx)
    # outlines
    for sp in ("siblings", "deep", "empty", "none"):
        eval_outline(ctx, batch, gen_outline_case(rng, False, sp), False)
    batch.flush(ctx)
    n = ctx.n(250, 8000)
    for i in range(n):
        if not ctx.time_left():
            ctx.notes.append("time budget reached after %d mixed cases" % i)
            break
        wild = (i % 4 == 3)
        eval_labels(ctx, batch, gen_labels_case(rng, wild), wild)
        eval_names(ctx, batch, gen_names_case(rng, wild), wild)
        eval_outline(ctx, batch, gen_outline_case(rng, wild), wild)
        if i % 2 == 1:
            eval_outline(ctx, batch, gen_outline_case(rng, True, "damaged"), True)
        if i % 200 == 199:
            batch.flush(ctx)
    if ctx.tier == "thorough" and ctx.time_left():
        for _ in range(3):
            eval_outline(ctx, batch, gen_outline_case(rng, False, "siblings"), False)
    batch.flush(ctx)
