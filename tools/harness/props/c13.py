"""C13 - damaged input: errors stay in the library's family and work stays bounded.

Three relations are exercised on every run:
  (tie)   Lean model of the lenient accessors / resolve1 / resolve_all / page-tree walk / Prev chain /
          get_widths / casting.safe_*  ==  the same pdfminer functions on the same random (ill-typed,
          cyclic) object graphs                                              -> run_model
  (prop)  fault enumeration: every single structural fault of a family of feature-covering seed
          documents runs through extract_text / extract_pages / extract_text_to_fp(xml) under a
          deterministic work budget, in worker processes; outcome must be ok | family error
          (| AssertionError, tolerated and counted)                          -> run_faults
  (proof) lean/PdfVerif/Props/C13.lean: C13_family_* and C13_fuel_* for ALL object graphs of the model
"""

from __future__ import annotations

import collections
import glob
import hashlib
import json
import math
import os
import shutil
import subprocess
import sys
import tempfile
import time
from typing import Any, Dict, Iterable, List, Optional, Tuple

from harness import common as C
from harness.props import c13_seeds as S
from harness.props import c13_known as K

LEVEL = "proof"
RULE = ("fault cases: (seed document, single fault, entry point; entry points run with caching on and, for a share of the "
        "cases - always for reference faults - with caching=False / disable_caching=True); seeds are 7 feature-covering documents built by "
        "the harness writer; fault = replace one dictionary value / array element by a value of another type "
        "(null,bool,int,real,name,string,array,dict,ref; several values per type), remove one key, redirect one "
        "reference (self / containing object / missing / 2-cycle), damage one stream payload (empty, truncate, "
        "flip, drop token, junk at a position), truncate the file at a position, replace a value by a degenerate or "
        "boundary value of the same type (0, -1, 2^31-1, 2^63, 10^30, empty string/name/array/dict, 70 kB string), damage "
        "one entry of an inline image dictionary inside a content stream; quick tier samples the sites "
        "(all reference faults and key removals, stratified sample of the rest), thorough enumerates all; a case "
        "is non-trivial when the faulted bytes differ from the seed and is distinct by (seed, fault, entry). "
        "model cases: random object graphs with ill-typed values, missing objects and reference cycles; "
        "decoder cases (round 6): RunLength/ASCIIHex/ASCII85/LZW encodings of random data, left valid or truncated / one byte "
        "replaced, inserted or removed / random bytes, each run through the decoder and (a share) through PDFStream.decode "
        "with one or two filters; getobj-count cases: random graphs and chains through every object ending in a value, a "
        "missing object or a cycle")
TRUSTED_BASE = [
    "hand model lean/PdfVerif/Model/Lenient.lean of pdftypes.resolve1/resolve_all/*_value, casting.safe_*, "
    "pdfpage.create_pages' tree walk, PDFDocument.read_xref_from's Prev/XRefStm chain, pdffont.get_widths "
    "(correspondence-checked on random object graphs every run)",
    "decoder theorems (round 6) are stated over lean/PdfVerif/Model/Filters.lean (C03's model of runlength.py, "
    "ascii85.py, lzw.py and PDFStream.decode; _DECODE_ERRORS and the filter names regenerated); base64.a85decode and "
    "binascii.unhexlify are modelled by hand there; correspondence-checked by this harness on damaged payloads every run",
    "components NOT modelled (PS/PDF parser, object streams, fonts/CMap parsing, interpreter, layout, converters, "
    "encryption, CCITT/Flate internals) are covered by fault enumeration only, which is search and not proof",
    "decoder work is measured as sys.settrace line events of runlength.py / lzw.py / ascii85.py / stdlib base64.py "
    "against linear bounds with calibrated constants (the proved statements bound the output length and the fuel)",
    "sys.monitoring LINE events of pdfminer code objects as the measure of work; harness PDF writer and fault operators",
]
ASSUMPTIONS = [
    "settings.STRICT is False (the library default); the extraction entry points are called with default options",
    "AssertionError is counted as tolerated for this property because fuzzing/*.py of the repository state that contract",
    "work = number of executed pdfminer source lines; the bound is 20000 + 20 x (clean-run lines per byte of the "
    "seed) x (length of the damaged file + 1), plus a wall-clock alarm of 20 s per run",
    "Python's recursion limit is the interpreter default (1000) in the worker",
]
STATEMENT_STATUS = K.STATEMENT_STATUS

ENTRIES = ("text", "pages", "xml")
# the same entry points with caching=False / disable_caching=True (fresh objects on every resolution)
ENTRIES_NC = ("text_nc", "pages_nc", "xml_nc")
# rarely used options: layout parameters / page selection / password; html and tag output; image export
ENTRIES_OPT = ("text_la", "html", "tag", "xml_img")
ALL_ENTRIES = ENTRIES + ENTRIES_NC
EVERY_ENTRY = ALL_ENTRIES + ENTRIES_OPT
BAD = ("internal", "budget", "recursion", "wall", "hang", "crash")
WORKER = os.path.join(os.path.dirname(os.path.abspath(__file__)), "c13_worker.py")
C0 = 20000
FACTOR = 20

CLASSIFIERS = K.make_classifiers()


# ----------------------------------------------------------------------------- worker pool

def _parse_results(path: str) -> Tuple[Dict[Tuple[str, str], Dict[str, Any]], Optional[Tuple[str, str]]]:
    res: Dict[Tuple[str, str], Dict[str, Any]] = {}
    started: Optional[Tuple[str, str]] = None
    if not os.path.exists(path):
        return res, None
    with open(path) as fp:
        for line in fp:
            try:
                r = json.loads(line)
            except ValueError:
                continue
            key = (r["id"], r["entry"])
            if r["cls"] == "start":
                started = key
            else:
                res[key] = r
                if started == key:
                    started = None
    return res, started


def run_jobs(jobs: List[Dict[str, Any]], nworkers: int = 3, stall: float = 40.0, chunk: int = 120,
             deadline: Optional[float] = None) -> Dict[Tuple[str, str], Dict[str, Any]]:
    """Runs the jobs in worker processes; never hangs: a worker that writes nothing for `stall`
    seconds is killed, the run it was in is recorded as `hang`, the rest is re-queued."""
    tmp = tempfile.mkdtemp(prefix="c13-")
    results: Dict[Tuple[str, str], Dict[str, Any]] = {}
    queue = collections.deque(jobs[i:i + chunk] for i in range(0, len(jobs), chunk))
    active: List[Dict[str, Any]] = []
    seq = 0
    env = dict(os.environ, VERIF_REPO=C.REPO, PYTHONPATH=C.TOOLS)
    try:
        while queue or active:
            while queue and len(active) < nworkers:
                if deadline is not None and time.time() > deadline:
                    queue.clear()
                    break
                batch = queue.popleft()
                seq += 1
                jp = os.path.join(tmp, f"j{seq}.jsonl")
                op = os.path.join(tmp, f"r{seq}.jsonl")
                with open(jp, "w") as fp:
                    for j in batch:
                        fp.write(json.dumps(j) + "\n")
                open(op, "w").close()
                proc = subprocess.Popen([sys.executable, WORKER, jp, op], env=env, stdout=subprocess.DEVNULL,
                                        stderr=subprocess.PIPE)
                active.append({"proc": proc, "batch": batch, "out": op, "size": 0, "t": time.time()})
            time.sleep(0.03)
            for a in list(active):
                rc = a["proc"].poll()
                try:
                    size = os.path.getsize(a["out"])
                except OSError:
                    size = 0
                if size != a["size"]:
                    a["size"], a["t"] = size, time.time()
                stalled = rc is None and time.time() - a["t"] > stall
                if rc is None and not stalled:
                    continue
                if stalled:
                    a["proc"].kill()
                    a["proc"].wait()
                err = b""
                try:
                    err = a["proc"].stderr.read() or b""
                except Exception:  # noqa: BLE001
                    pass
                active.remove(a)
                res, started = _parse_results(a["out"])
                results.update(res)
                if stalled or rc != 0:
                    if started is None and not res and not stalled:
                        raise C.Infra("c13 worker failed to start: " + err.decode("utf-8", "replace")[-400:])
                    if started is not None:
                        results[started] = {"id": started[0], "entry": started[1], "cls": "hang" if stalled else "crash",
                                            "exc": "killed" if stalled else f"exit{rc}", "where": "", "events": -1,
                                            "msg": err.decode("utf-8", "replace")[-120:]}
                    rest = []
                    for j in a["batch"]:
                        ents = [e for e in j["entries"] if (j["id"], e) not in results]
                        if ents:
                            rest.append(dict(j, entries=ents))
                    if rest:
                        queue.appendleft(rest)
    finally:
        for a in active:
            try:
                a["proc"].kill()
            except Exception:  # noqa: BLE001
                pass
        shutil.rmtree(tmp, ignore_errors=True)
    return results


# ----------------------------------------------------------------------------- fault enumeration

def fault_id(seed: str, f: Dict[str, Any]) -> str:
    blob = json.dumps(f, sort_keys=True, default=str)
    return seed + ":" + hashlib.blake2b(blob.encode(), digest_size=6).hexdigest()


def fault_kind(f: Dict[str, Any]) -> str:
    k = f["kind"]
    if k == "payload":
        return "payload"
    if k == "truncate_file":
        return "truncate"
    return k         # replace | remove | ref


def signature(r: Dict[str, Any], f: Dict[str, Any]) -> Tuple[str, str, str, str]:
    cls = r["cls"]
    if cls in ("budget", "wall", "hang", "crash"):
        return (cls, "", "", fault_kind(f))
    return (cls, r["exc"], r["where"], fault_kind(f))


def calibrate(ctx: C.Ctx, seeds: List[S.SeedDoc]) -> Dict[str, Dict[str, Any]]:
    jobs = []
    docs = {}
    for s in seeds:
        data = S.write_doc(s)
        docs[s.name] = data
        jobs.append({"id": "clean:" + s.name, "pdf": data.hex(), "entries": list(EVERY_ENTRY), "wall": 60})
    res = run_jobs(jobs, nworkers=1)
    cal: Dict[str, Dict[str, Any]] = {}
    for s in seeds:
        ev = 0
        for e in EVERY_ENTRY:
            r = res.get(("clean:" + s.name, e))
            allowed = ("ok", "family") if e in ENTRIES_OPT else ("ok",)
            # (option variants: a wrong password, or the seed's arbitrary CCITT image bytes when images are
            # exported, legitimately end in a family error)
            if r is None or r["cls"] not in allowed:
                # a seed must be a VALID document: anything else is a defect of the harness, not of pdfminer
                raise C.Infra(f"clean seed {s.name}/{e} does not run: {r}")
            ev = max(ev, r["events"])
            ctx.case(("clean", s.name, e), True, branch="clean:" + r["cls"])
        n = len(docs[s.name])
        cal[s.name] = {"len": n, "events": ev, "k": FACTOR * ev / (n + 1), "data": docs[s.name]}
    ctx.extra["budget_calibration"] = {k: {"len": v["len"], "clean_line_events": v["events"],
                                           "K_events_per_byte": round(v["k"], 1)} for k, v in cal.items()}
    return cal


def budget_for(cal: Dict[str, Any], nbytes: int) -> int:
    return C0 + int(math.ceil(cal["k"] * (nbytes + 1)))


def choose_faults(ctx: C.Ctx, seeds: List[S.SeedDoc], cal) -> List[Tuple[S.SeedDoc, Dict[str, Any], List[str]]]:
    """Quick: most ref faults and all key removals, per replace-site 2 target types, sampled payload damage and
    truncation points, one entry point per case (rotating); thorough: everything, all three entry points."""
    rng = ctx.rng
    plan: List[Tuple[S.SeedDoc, Dict[str, Any], List[str]]] = []
    thorough = ctx.tier == "thorough"
    rot = 0
    for s in seeds:
        faults = S.enumerate_faults(s, rich=True)
        n = cal[s.name]["len"]
        trunc = [{"kind": "truncate_file", "target": "file", "obj": None, "pos": p} for p in range(n)]
        if thorough:
            chosen = faults + trunc
        else:
            by_site: Dict[str, List[Dict[str, Any]]] = collections.defaultdict(list)
            chosen = []
            payload = []
            for f in faults:
                if f["kind"] in ("ref", "remove"):
                    if f["kind"] == "remove" or f["how"] != "missing" or rng.random() < 0.5 * ctx.boost:
                        chosen.append(f)
                elif f["kind"] == "replace":
                    by_site[json.dumps([f["target"], f["obj"], f["path"]], default=str)].append(f)
                elif f["kind"] == "extreme":
                    if rng.random() < 0.2 * ctx.boost:
                        chosen.append(f)
                elif f["kind"] == "inline":
                    if rng.random() < 0.5 * ctx.boost:
                        chosen.append(f)
                else:
                    payload.append(f)
            for site, fs in by_site.items():
                # canonical value of 1 random type per site + 1 random alternative anywhere
                tys = rng.sample(sorted({f["to"] for f in fs}), 2)
                for f in fs:
                    if f["to"] in tys and f["alt"] == 0:
                        chosen.append(f)
                if rng.random() < 0.25 * ctx.boost:
                    chosen.append(rng.choice(fs))
            npay = min(len(payload), ctx.n(120, 0))
            chosen += rng.sample(payload, npay)
            # every truncation point of every RunLength-coded payload (a cut right after a length byte is
            # a single position per run)
            for f in payload:
                if f["how"] == "truncate" and f["target"] == "obj" and _is_runlength(s.objs.get(f["obj"])):
                    chosen.append(f)
                elif f["how"] == "hugecm":
                    chosen.append(f)
            chosen += rng.sample(trunc, min(len(trunc), ctx.n(80, 0)))
        for f in chosen:
            if thorough:
                if f["kind"] in ("ref", "extreme", "inline", "remove"):
                    ents = list(ALL_ENTRIES)
                else:
                    ents = list(ENTRIES) + [ENTRIES_NC[rot % 3], ENTRIES_OPT[rot % 4]]
                    rot += 1
            elif f["kind"] == "ref":
                # reference faults are where guards keyed by identity fail: always both caching modes
                ents = [ENTRIES[rot % 3], ENTRIES_NC[rot % 3]]
                rot += 1
            else:
                ents = [EVERY_ENTRY[rot % len(EVERY_ENTRY)]]
                rot += 1
            plan.append((s, f, ents))
    rng.shuffle(plan)
    return plan


def _is_runlength(o: Any) -> bool:
    d = getattr(o, "d", None)
    if not isinstance(d, dict):
        return False
    flt = d.get("Filter", d.get("F"))
    names = flt if isinstance(flt, list) else [flt]
    return bool(names) and names[0] in ("RunLengthDecode", "RL")


def make_job(s: S.SeedDoc, f: Dict[str, Any], ents: List[str], cal) -> Optional[Dict[str, Any]]:
    try:
        if f["kind"] == "truncate_file":
            data = cal[s.name]["data"][: f["pos"]]
        else:
            data = S.apply_fault(s, f)
    except Exception as e:  # noqa: BLE001
        raise C.Infra(f"fault operator failed on {s.name} {f}: {type(e).__name__}: {e}")
    return {"id": fault_id(s.name, f), "pdf": data.hex(), "entries": ents, "budget": budget_for(cal[s.name], len(data)),
            "wall": 20, "_seed": s.name, "_fault": f, "_len": len(data)}


def report_failures(ctx: C.Ctx, bad: List[Tuple[Dict[str, Any], Dict[str, Any], str]]) -> None:
    """One Failure per signature (exception type, innermost pdfminer function, fault kind); the representative
    is the smallest damaged file; the full list of sites is summarised in `got`."""
    groups: Dict[Tuple[str, str, str, str], List[Tuple[Dict[str, Any], Dict[str, Any], str]]] = collections.defaultdict(list)
    for job, r, entry in bad:
        groups[signature(r, job["_fault"])].append((job, r, entry))
    for sig, items in sorted(groups.items()):
        items.sort(key=lambda t: (t[0]["_len"], t[0]["id"], t[2]))
        job, r, entry = items[0]
        cls, exc, where, kind = sig
        if cls == "internal":
            what = f"internal error {exc} escapes from {where} (fault kind: {kind})"
        elif cls == "recursion":
            what = f"RecursionError (interpreter recursion limit exhausted) in {where} (fault kind: {kind})"
        elif cls == "budget":
            what = f"work budget exceeded (fault kind: {kind})"
        else:
            what = f"extraction does not return: {cls} (fault kind: {kind})"
        tags = {"cls": cls, "exc": exc, "where": where, "kind": kind, "seed": job["_seed"], "entry": entry,
                "sites": len(items)}
        ctx.fail(C.Failure(what,
                           {"pdf": job["pdf"], "entry": entry, "budget": job["budget"], "seed": job["_seed"],
                            "fault": job["_fault"]},
                           "ok, or an exception of the PSException family (AssertionError tolerated)",
                           {"class": cls, "exception": exc, "innermost_pdfminer_function": where, "message": r.get("msg", ""),
                            "line_events": r.get("events"), "other_sites_same_signature": len(items) - 1,
                            "examples": [{"seed": j["_seed"], "fault": j["_fault"], "entry": e} for j, _, e in items[1:4]]},
                           tags))


def run_faults(ctx: C.Ctx) -> None:
    seeds = S.all_seeds()
    cal = calibrate(ctx, seeds)
    plan = choose_faults(ctx, seeds, cal)
    nworkers = 3 if ctx.tier == "quick" else 8
    bad: List[Tuple[Dict[str, Any], Dict[str, Any], str]] = []
    worst = 0.0
    # dispatch in slices so that the deadline is honoured
    slice_n = 1500 if ctx.tier == "quick" else 6000
    done = 0
    for i in range(0, len(plan), slice_n):
        if not ctx.time_left():
            ctx.notes.append(f"time budget reached after {done}/{len(plan)} planned fault cases")
            break
        jobs = []
        seen = set()
        for s, f, ents in plan[i:i + slice_n]:
            j = make_job(s, f, ents, cal)
            if j["id"] in seen:
                continue
            seen.add(j["id"])
            jobs.append(j)
        wire = []
        sentinels = []
        names = sorted(cal)
        for k, j in enumerate(jobs):
            wire.append({kk: v for kk, v in j.items() if not kk.startswith("_")})
            if k % 40 == 39:
                # a clean seed in the same worker process, after damaged documents: module-level caches (CMaps,
                # fonts, interned names) must not carry damage from one document to the next
                nm = names[(k // 40) % len(names)]
                sid = f"sentinel:{i}:{k}:{nm}"
                wire.append({"id": sid, "pdf": cal[nm]["data"].hex(), "entries": ["text", "xml_nc"],
                             "budget": budget_for(cal[nm], cal[nm]["len"]), "wall": 20})
                sentinels.append((sid, nm))
        res = run_jobs(wire, nworkers=nworkers, deadline=ctx.deadline + 30)
        for sid, nm in sentinels:
            for e in ("text", "xml_nc"):
                r = res.get((sid, e))
                if r is None:
                    continue
                ctx.case(("sentinel", sid, e), False, branch="sentinel:" + r["cls"])
                if r["cls"] != "ok":
                    ctx.fail(C.Failure("a clean document no longer extracts after damaged documents were processed in the "
                                       "same process (state carried across documents)",
                                       {"pdf": cal[nm]["data"].hex(), "entry": e, "seed": nm, "fault": {"kind": "none"},
                                        "note": "run after other documents in one process"},
                                       "ok", r, {"cls": r["cls"], "exc": r["exc"], "where": r["where"], "kind": "carried-state",
                                                 "seed": nm, "entry": e}))
        for j in jobs:
            for e in j["entries"]:
                r = res.get((j["id"], e))
                if r is None:
                    continue
                done += 1
                f = j["_fault"]
                changed = j["pdf"] != cal[j["_seed"]]["data"].hex()
                ctx.case((j["_seed"], json.dumps(f, sort_keys=True, default=str), e), changed,
                         sample={"seed": j["_seed"], "fault": f, "entry": e, "outcome": r["cls"], "exc": r["exc"]},
                         branch="outcome:" + r["cls"])
                ctx.branch("fault:" + fault_kind(f) + (":" + f.get("to", f.get("how", "")) if f["kind"] != "truncate_file" else ""))
                ctx.branch("seed:" + j["_seed"])
                ctx.branch("entry:" + e)
                if r["cls"] == "family":
                    ctx.branch("family:" + r["exc"])
                if r["cls"] == "assertion":
                    ctx.branch("assertion:" + r["where"])
                if r["events"] and r["events"] > 0:
                    worst = max(worst, r["events"] / j["budget"])
                if r["cls"] in BAD:
                    bad.append((j, r, e))
    ctx.extra["worst_budget_fraction_used_by_a_terminating_run"] = round(worst, 3)
    ctx.extra["fault_cases_planned"] = len(plan)
    ctx.extra["tolerated_assertion_errors"] = ctx.branches.get("outcome:assertion", 0)
    report_failures(ctx, bad)


# ----------------------------------------------------------------------------- corpus / replay

def replay(ctx: C.Ctx, doc: Dict[str, Any], from_corpus: bool = False) -> None:
    inp = doc.get("input", {})
    if "op" in inp:
        from harness.props import c13_codec as K
        if K.replay_codec(ctx, inp):
            return
        from harness.props import c13_model as M
        M.replay_op(ctx, inp)
        return
    if "pdf" not in inp:
        return
    ents = [inp["entry"]] if inp.get("entry") in EVERY_ENTRY else list(ALL_ENTRIES)
    job = {"id": "replay", "pdf": inp["pdf"], "entries": ents, "budget": int(inp.get("budget", 5_000_000)), "wall": 20}
    res = run_jobs([job], nworkers=1)
    f = inp.get("fault", {"kind": "corpus"})
    bad = []
    for e in ents:
        r = res.get(("replay", e))
        if r is None:
            continue
        ctx.case(("replay", inp["pdf"][:64], len(inp["pdf"]), e), True, branch=("corpus:" if from_corpus else "replay:") + r["cls"])
        if r["cls"] in BAD:
            j = dict(job, _seed=inp.get("seed", "?"), _fault=f, _len=len(inp["pdf"]) // 2)
            bad.append((j, r, e))
    report_failures(ctx, bad)


def run_corpus(ctx: C.Ctx) -> None:
    jobs = []
    meta = {}
    for path in sorted(glob.glob(os.path.join(C.VERIF, "corpus", "C13", "*.json"))):
        with open(path) as fp:
            doc = json.load(fp)
        inp = doc.get("input", {})
        if "op" in inp:
            from harness.props import c13_codec as K
            if K.replay_codec(ctx, inp):
                continue
            from harness.props import c13_model as M
            M.replay_op(ctx, inp)
            continue
        if "pdf" not in inp:
            continue
        name = "corpus:" + os.path.basename(path)
        ents = [inp["entry"]] if inp.get("entry") in EVERY_ENTRY else list(ENTRIES)
        jobs.append({"id": name, "pdf": inp["pdf"], "entries": ents, "budget": int(inp.get("budget", 5_000_000)), "wall": 20})
        meta[name] = inp
    if not jobs:
        return
    res = run_jobs(jobs, nworkers=2)
    bad = []
    for j in jobs:
        inp = meta[j["id"]]
        for e in j["entries"]:
            r = res.get((j["id"], e))
            if r is None:
                continue
            ctx.case((j["id"], e), True, branch="corpus:" + r["cls"])
            if r["cls"] in BAD:
                jj = dict(j, _seed=inp.get("seed", "?"), _fault=inp.get("fault", {"kind": "corpus"}), _len=len(j["pdf"]) // 2)
                bad.append((jj, r, e))
    report_failures(ctx, bad)


def run(ctx: C.Ctx) -> None:
    run_corpus(ctx)
    try:
        from harness.props import c13_model as M
    except ImportError:
        M = None
    if M is not None:
        M.run_model(ctx)
    from harness.props import c13_codec as K
    K.run_codec(ctx)
    run_faults(ctx)
