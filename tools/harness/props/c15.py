"""C15 - filesystem confinement: documents cannot steer file access outside the allowed directories.

Relations exercised on every run
  (tie)   Lean model (Model/Path.lean): posix join / normpath, the paths CMapDB._load_data probes for a
          name, the name/path ImageWriter._create_unique_image_name picks   ==  what pdfminer really opens
          and creates (observed with sys.addaudithook + a before/after snapshot of a private sandbox tree)
  (prop)  pdfminer itself, on documents whose Encoding / CMapName / usecmap / Registry-Ordering / BaseFont /
          XObject names are hostile: every file opened lies directly in a CMap resource directory, every
          file created lies directly in output_dir, no pre-existing file changes.  Planted decoys (a loadable
          evil.pickle.gz outside the resource dirs, a victim directory next to output_dir, old files inside
          output_dir) make an escape observable.
  (proof) lean/PdfVerif/Props/C15.lean
"""

from __future__ import annotations

import glob
import gzip
import io
import json
import os
import pickle
import shutil
import sys
import tempfile
from typing import Any, Dict, List, Optional, Tuple

from harness import common as C
from harness import imglib as IL
from harness import pdfwriter as W

LEVEL = "proof"
RULE = ("documents run through extract_text_to_fp (text/xml/html), extract_text, extract_pages or tools/pdf2txt.py, "
        "with one Type0 font (optionally embedded FontFile2/FontFile programs) and 0-3 image XObjects of every "
        "ImageWriter branch (bmp 1/8/24, raw .img, jpg, jb2, the Pillow-only paths); the Encoding name, the CMapName of an Encoding stream, "
        "the usecmap operand of a ToUnicode CMap, CIDSystemInfo Registry/Ordering, BaseFont and the XObject names are "
        "drawn from hostile strings: absolute paths to a planted decoy, ../ chains from either resource directory, "
        "NUL-obfuscated separators, '.', '..', empty, a/b, long (300) names, backslashes, non-UTF-8 bytes, and benign "
        "names of real CMaps; output_dir holds old files with the colliding names; a case is non-trivial when at least "
        "one name contains a separator, a dot-dot or a NUL")
TRUSTED_BASE = [
    "hand model lean/PdfVerif/Model/Path.lean (posixpath.join/normpath, CMapDB._load_data file names, "
    "_create_unique_image_name) - compared on every case with os.path and with the paths pdfminer really opens/creates",
    "sys.addaudithook reports open / os.mkdir,remove,rename,rmdir,link,symlink,truncate,chmod,chown,listdir,scandir,utime,"
    "mkfifo,mknod / shutil.* / os.system / subprocess.Popen / os.exec* / os.posix_spawn / socket.connect; os.stat, os.lstat "
    "and os.access (hence os.path.exists/isfile/isdir) raise no audit event and are wrapped in the harness process while a "
    "case runs, so every existence probe is observed too",
    "tools/translate/gen_c15.py: the %s.pickle.gz / to-unicode-%s / %s.%d%s literals, the replacement character and the "
    "presence and position of the confinement guard are re-read from the source on every run (Gen/PathGen.lean)",
    "POSIX semantics of open/exists without symlinks or concurrent writers inside the sandbox tree",
]
ASSUMPTIONS = [
    "no symbolic links and no concurrent writers inside the resource and output directories",
    "POSIX path syntax ('/' is the only separator); names are compared as UTF-8 byte strings",
    "the CMAP_PATH environment variable and output_dir are chosen by the caller, not by the document",
]
STATEMENT_STATUS = {
    "C15_cmap_confined": "proved (guarded model = repaired code)",
    "C15_unicode_map_confined": "proved (Registry-Ordering route through to-unicode-%s)",
    "C15_cmap_lookup_kept": "proved (names without a separator are still looked up in every directory)",
    "C15_image_confined": "proved (guarded model = repaired code)",
    "C15_no_overwrite": "proved",
    "C15_unique_terminates": "proved (fuel = |existing| + 1)",
    "C15_cmap_pinned_cex / C15_image_pinned_cex": "proved counter-examples for the pinned code",
    "C15_safe_name_algebra": "proved (every byte string; replaced set and replacement regenerated from the code)",
    "C15_cmap_probe_exact": "proved (exact probe list <dir>/<name>.pickle.gz in list order; guard comparison translated)",
    "C15_cmap_dirs_absolute": "proved (CMAP_PATH unset: regenerated default and <package>/cmap are absolute, probes independent of the working directory)",
    "C15_norm_canonical / C15_directly_in_no_dotdot": "proved (normpath of every byte string: canonical components; DirectlyIn an absolute directory = an entry of it)",
    "C15_history": "proved (every history of exports, arbitrary existing files: all named, names and paths distinct, fresh, inside)",
}
CLASSIFIERS: Dict[str, Any] = {}

# ------------------------------------------------------------------ audit hook (installed once per process)

_EVENTS: List[Tuple[str, Any]] = []
_ACTIVE = [False]
_INSTALLED = [False]
_WATCH = ("open", "os.mkdir", "os.remove", "os.rename", "os.rmdir", "os.link", "os.symlink", "os.truncate",
          "os.chmod", "os.chown", "os.listdir", "os.scandir", "os.utime", "os.mkfifo", "os.mknod", "shutil.",
          "os.system", "subprocess.Popen", "os.exec", "os.posix_spawn", "os.startfile", "socket.connect")


def _hook(event: str, args) -> None:
    if not _ACTIVE[0]:
        return
    if event.startswith(_WATCH):
        try:
            _EVENTS.append((event, tuple(a if isinstance(a, (str, bytes, int, type(None))) else repr(a) for a in args)))
        except Exception:  # noqa: BLE001
            _EVENTS.append((event, ("<unprintable>",)))


_REAL = {}


def _wrap_stat(name):
    real = getattr(os, name)

    def wrapper(path, *a, **kw):
        if _ACTIVE[0] and isinstance(path, (str, bytes)):
            _EVENTS.append(("stat", (path if isinstance(path, str) else path.decode("utf-8", "surrogateescape"), name)))
        return real(path, *a, **kw)
    wrapper.__name__ = name
    return real, wrapper


def patch_stat() -> None:
    """os.stat / os.lstat / os.access raise no audit event: os.path.exists/isfile/isdir probes are made visible by
    wrapping them in this (the harness') process while a case runs."""
    for name in ("stat", "lstat", "access"):
        real, wrapper = _wrap_stat(name)
        _REAL[name] = real
        setattr(os, name, wrapper)


def unpatch_stat() -> None:
    for name, real in _REAL.items():
        setattr(os, name, real)
    _REAL.clear()


def install_hook() -> None:
    if not _INSTALLED[0]:
        sys.addaudithook(_hook)
        _INSTALLED[0] = True


# ------------------------------------------------------------------ sandbox

DEFAULT_CMAP_PATH = "/usr/share/pdfminer/"        # the documented default of CMAP_PATH
DECOY_PICKLE = {"IS_VERTICAL": False, "CODE2CID": {}, "CID2UNICHR_H": {}, "CID2UNICHR_V": {}}


def cmap_dir() -> str:
    import pdfminer
    return os.path.join(os.path.dirname(os.path.abspath(pdfminer.__file__)), "cmap")


class Sandbox:
    def __init__(self, pre_out: List[str]):
        self.root = os.path.realpath(tempfile.mkdtemp(prefix="c15_"))
        # output_dir sits three levels below the sandbox root: a name that climbs one or two directories on a
        # mutated tree still lands inside the sandbox
        self.out = os.path.join(self.root, "n1", "n2", "out")
        self.victim = os.path.join(self.root, "n1", "n2", "victim")
        self.victim_top = os.path.join(self.root, "victim")
        self.rsrc = os.path.join(self.root, "rsrc")
        self.decoy = os.path.join(self.root, "decoy")
        # round 6: the process's working directory while a document is processed (holds decoy <name>.pickle.gz files)
        self.cwd = os.path.join(self.root, "cwd")
        for d in (self.cwd, self.out, self.victim, self.victim_top, self.rsrc, self.decoy, os.path.join(self.rsrc, "to-unicode-x"),
                  os.path.join(self.rsrc, "sub")):
            os.makedirs(d)
        blob = gzip.compress(pickle.dumps(DECOY_PICKLE))
        for p in (os.path.join(self.decoy, "evil.pickle.gz"), os.path.join(self.decoy, "evil-Z.pickle.gz"),
                  os.path.join(self.rsrc, "good.pickle.gz"), os.path.join(self.rsrc, "to-unicode-good-Z.pickle.gz"),
                  os.path.join(self.rsrc, "sub", "inner.pickle.gz"), os.path.join(self.root, "top.pickle.gz")):
            with open(p, "wb") as fp:
                fp.write(blob)
        for v in (self.victim, self.victim_top):
            with open(os.path.join(v, "keep.bmp"), "wb") as fp:
                fp.write(b"old")
        for n in pre_out:
            try:
                with open(os.path.join(self.out, n), "wb") as fp:
                    fp.write(b"old")
            except OSError:
                pass

    def snapshot(self) -> Dict[str, Optional[bytes]]:
        snap: Dict[str, Optional[bytes]] = {self.root + "/": None}
        for d, dirs, files in os.walk(self.root):
            for x in dirs:
                snap[os.path.join(d, x) + "/"] = None
            for f in files:
                p = os.path.join(d, f)
                try:
                    with open(p, "rb") as fp:
                        snap[p] = fp.read()
                except OSError:
                    snap[p] = b"<unreadable>"
        return snap

    def close(self) -> None:
        shutil.rmtree(self.root, ignore_errors=True)


# ------------------------------------------------------------------ generators

def hostile_names(rng, sb_tokens: bool = True) -> List[str]:
    """Name templates; {ROOT} {RSRC_REL} {CMAP_REL} are filled per sandbox."""
    return [
        "{ROOT}/decoy/evil", "../decoy/evil", "{CMAP_REL}", "..\x00/decoy/evil", "../de\x00coy/evil", "/{ROOT_NOSLASH}/decoy/evil",
        "sub/inner", "../top", "../rsrc/good", "./good", "good", "go\x00od", "H", "Identity-H", "..", ".", "", "a/b", "/",
        "//", "../" * 12 + "etc/passwd", "\\..\\decoy\\evil", "%s", "good ", "A" * 300, "x/../../decoy/evil",
        "\xe9vil", "sub/../good", "{ROOT}/decoy/../decoy/evil", "good/", "/good", "to-unicode-x/../../decoy/evil",
    ]


# every branch of ImageWriter.export_image: (kind, extension of the file it creates, raises ImportError afterwards?)
IMG_KINDS = ["bmp8", "bmp8", "bmp1", "bmp24", "raw4", "raw16cmyk", "jpg", "jb2", "pil-flate-cmyk", "pil-jpx", "pil-jpg-cmyk",
             "ill-bits-name", "ill-bits-slashname", "ill-w-name", "ill-h-str", "ill-bits-array", "ill-bits-real", "ill-w-neg",
             "ill-h-big", "ill-bits-64", "ill-w-zero", "ill-bits-true", "raw-bits-32", "raw-big-w"]
# ill-typed / implausible BitsPerComponent, Width, Height (the other document-controlled values that could reach the
# file name): since c8fb48c export_image keeps such an image undecoded as <name>.img (no "%d" of document values)
ILL_KINDS = {
    "ill-bits-name": ({"BitsPerComponent": W.Name(b"X")}, ".img"),
    "ill-bits-slashname": ({"BitsPerComponent": W.Name(b"../../x")}, ".img"),
    "ill-w-name": ({"BitsPerComponent": 4, "Width": W.Name(b"X")}, ".img"),
    "ill-h-str": ({"BitsPerComponent": 4, "Height": b"../9"}, ".img"),
    "ill-bits-array": ({"BitsPerComponent": [4]}, ".img"),
    "ill-bits-real": ({"BitsPerComponent": 2.5}, ".img"),
    "ill-w-neg": ({"BitsPerComponent": 4, "Width": -3}, ".img"),
    "ill-h-big": ({"BitsPerComponent": 16, "Height": 10 ** 12}, ".img"),
    "ill-bits-64": ({"BitsPerComponent": 64}, ".img"),
    "ill-w-zero": ({"BitsPerComponent": 4, "Width": 0}, ".img"),
    "ill-bits-true": ({"BitsPerComponent": True}, ".img"),
    # plausible but unusual numbers still go through "%d": the suffix is digits only
    "raw-bits-32": ({"BitsPerComponent": 32, "Width": 7, "Height": 3}, (32, 7, 3)),
    "raw-big-w": ({"BitsPerComponent": 2, "Width": 2 ** 31 - 1, "Height": 1}, (2, 2 ** 31 - 1, 1)),
}
IMG_EXT = {"bmp8": ".bmp", "bmp1": ".bmp", "bmp24": ".bmp", "raw4": ".4.1x1.img", "raw16cmyk": ".16.1x1.img", "jpg": ".jpg",
           "jb2": ".jb2", "pil-flate-cmyk": ".jpg", "pil-jpx": ".jp2", "pil-jpg-cmyk": ".jpg"}


def image_object(kind: str, i: int, objs: Dict[int, Any]):
    base = {"Type": "XObject", "Subtype": "Image", "Width": 1, "Height": 1}
    if kind in ILL_KINDS:
        return W.Stream(dict(dict(base, ColorSpace="DeviceGray"), **ILL_KINDS[kind][0]), b"\x50")
    if kind == "bmp8":
        return W.Stream(dict(base, BitsPerComponent=8, ColorSpace="DeviceGray", Filter="FlateDecode"), IL.enc_flate(bytes([i + 1])))
    if kind == "bmp1":
        return W.Stream(dict(base, BitsPerComponent=1, ColorSpace="DeviceGray"), b"\x80")
    if kind == "bmp24":
        return W.Stream(dict(base, BitsPerComponent=8, ColorSpace="DeviceRGB", Filter="ASCIIHexDecode"), b"010203>")
    if kind == "raw4":
        return W.Stream(dict(base, BitsPerComponent=4, ColorSpace="DeviceGray"), b"\x50")
    if kind == "raw16cmyk":
        return W.Stream(dict(base, BitsPerComponent=16, ColorSpace="DeviceCMYK", Filter=["ASCIIHexDecode"]), b"0102030405060708>")
    if kind == "jpg":
        return W.Stream(dict(base, BitsPerComponent=8, ColorSpace="DeviceRGB", Filter="DCTDecode"), b"\xff\xd8\xff\xd9")
    if kind == "jb2":
        objs[60 + i] = W.Stream({}, b"")
        return W.Stream(dict(base, BitsPerComponent=1, ColorSpace="DeviceGray", Filter="JBIG2Decode",
                             DecodeParms={"JBIG2Globals": W.Ref(60 + i)}), b"")
    if kind == "pil-flate-cmyk":
        return W.Stream(dict(base, BitsPerComponent=8, ColorSpace="DeviceCMYK", Filter="FlateDecode"), IL.enc_flate(b"\1\2\3\4"))
    if kind == "pil-jpx":
        return W.Stream(dict(base, BitsPerComponent=8, ColorSpace="DeviceRGB", Filter="JPXDecode"), b"\0\0\0\x0cjP  ")
    if kind == "pil-jpg-cmyk":
        return W.Stream(dict(base, BitsPerComponent=8, ColorSpace="DeviceCMYK", Filter="DCTDecode"), b"\xff\xd8\xff\xd9")
    raise ValueError(kind)


IMAGE_NAMES = [
    "Im0", "X", "../victim/pwn", "{ROOT}/victim/abs", "../out/../victim/deep", "a/b", "..", ".", "keep", "Im0", "Im0",
    "../victim/keep", "sub\x00name", "..\x00/victim/nul", "A" * 300, "\\..\\victim\\bs", "%s%d", "Im 0", "\xe9",
    "{ROOT}/n1/n2/out/Im0", "./Im0", "Im0/", "{ROOT}//victim//dbl", "{ROOT}/victim/",
]


def fill(t: str, sb: Sandbox) -> str:
    return (t.replace("{ROOT}", sb.root).replace("{ROOT_NOSLASH}", sb.root.lstrip("/"))
            .replace("{CMAP_REL}", os.path.relpath(os.path.join(sb.decoy, "evil"), cmap_dir())))


def nontrivial_name(s: str) -> bool:
    return "/" in s or ".." in s or "\x00" in s


PLAIN_CMAP_NAMES = ["good", "Evil", "H", "UniJIS-UCS2-H", "Acme", "x.y", "evil", "90ms-RKSJ-H", "nope"]


def gen_case(rng) -> Dict[str, Any]:
    case = _gen_case(rng)
    # round 6: the environment the library runs in, and plain names (no path-like character at all)
    case["cmap_env"] = rng.choice(["dir", "dir", "unset", "unset", "empty"])
    if rng.random() < 0.35:
        for k in ("enc", "usecmap", "registry"):
            if case.get(k) is not None and rng.random() < 0.6:
                case[k] = rng.choice(PLAIN_CMAP_NAMES)
    return case


def _gen_case(rng) -> Dict[str, Any]:
    names = hostile_names(rng)
    flow = rng.choice(["encoding-name", "encoding-stream", "usecmap", "registry"])
    case: Dict[str, Any] = {
        "flow": flow,
        "enc": rng.choice(names) if flow in ("encoding-name", "encoding-stream") or rng.random() < 0.3 else "Identity-H",
        "usecmap": rng.choice(names) if flow == "usecmap" else None,
        "registry": rng.choice(names) if flow == "registry" or rng.random() < 0.3 else "Adobe",
        "ordering": rng.choice(["Z", "Z", "Identity", "Japan1", " Z ", ""]) if flow == "registry" else "Identity",
        "basefont": rng.choice(names + ["Helv"]) if rng.random() < 0.3 else "Helv",
        "images": [rng.choice(IMAGE_NAMES) for _ in range(rng.choice([0, 1, 1, 2, 3]))],
        "pre": rng.choice([[], ["Im0.bmp"], ["Im0.bmp", "Im0.0.bmp"], ["X.bmp", "keep.bmp"], ["Im0.bmp", "Im0.1.bmp"]]),
        "output_type": rng.choice(["text", "text", "xml", "html"]),
        "entry": rng.choice(["to_fp", "to_fp", "to_fp", "pdf2txt", "extract_text", "extract_pages"]),
        "fontfile": rng.random() < 0.3,
    }
    case["imgkinds"] = [rng.choice(IMG_KINDS) for _ in case["images"]]
    if rng.random() < 0.25:
        # names around the file-name length limit (255 bytes), the same name more than once, and old files under the
        # names a clipped / numbered variant would get
        nm = rng.choice("BQ") * rng.choice([240, 246, 247, 248, 249, 250, 251, 252, 253, 255, 256, 262])
        case["images"] = [nm] * rng.choice([1, 2, 3]) + case["images"][:1]
        rng.shuffle(case["images"])
        case["imgkinds"] = [rng.choice(["bmp8", "jpg", "raw4", "bmp8"]) for _ in case["images"]]
        pre = []
        for ext in (".bmp", ".jpg", ".4.1x1.img"):
            full = nm + ext
            pre.append(full[:255 - len(ext)] + ext)
            pre.append((nm + ".0" + ext)[:255 - len(ext)] + ext)
        pre = [x for x in sorted(set(pre)) if len(x) <= 255]
        case["pre"] = sorted(rng.sample(pre, rng.randint(0, len(pre))))
    case["repeat"] = rng.choice([1, 1, 1, 2, 3])       # several documents exported into one output directory
    if flow == "registry" and rng.random() < 0.5:
        case["registry"] = rng.choice(["good", "x/../../decoy/evil", "../decoy/evil", "{ROOT}/decoy/evil", "x/../good"])
        case["ordering"] = "Z"
    return case


def name_obj(s: str):
    """A PDF name whose literal_name() is `s` (UTF-8 bytes, #-escaped by the writer)."""
    return W.Name(s.encode("utf-8"))


def build_pdf(case: Dict[str, Any], sb: Sandbox) -> bytes:
    f = lambda t: fill(t, sb)  # noqa: E731
    objs: Dict[int, Any] = {}
    enc = f(case["enc"])
    if case["flow"] == "encoding-stream":
        objs[30] = W.Stream({"Type": "CMap", "CMapName": name_obj(enc)}, b"")
        enc_obj: Any = W.Ref(30)
    else:
        enc_obj = name_obj(enc)
    font: Dict[str, Any] = {"Type": "Font", "Subtype": "Type0", "BaseFont": name_obj(f(case["basefont"])),
                            "Encoding": enc_obj, "DescendantFonts": [W.Ref(21)]}
    if case.get("usecmap") is not None:
        body = (b"/CIDInit /ProcSet findresource begin 12 dict begin begincmap\n" + W.ser(name_obj(f(case["usecmap"]))) +
                b" usecmap\n1 begincodespacerange <00> <ff> endcodespacerange\nendcmap end end\n")
        objs[31] = W.Stream({}, body)
        font["ToUnicode"] = W.Ref(31)
    objs[20] = font
    objs[21] = {"Type": "Font", "Subtype": "CIDFontType2", "BaseFont": name_obj(f(case["basefont"])),
                "CIDSystemInfo": {"Registry": f(case["registry"]).encode("latin-1", "replace"),
                                  "Ordering": case["ordering"].encode("latin-1"), "Supplement": 0},
                "FontDescriptor": W.Ref(22), "DW": 1000}
    objs[22] = {"Type": "FontDescriptor", "FontName": name_obj(f(case["basefont"])), "Flags": 4,
                "FontBBox": [0, 0, 1000, 1000], "ItalicAngle": 0, "Ascent": 800, "Descent": -200, "CapHeight": 700,
                "StemV": 80}
    xo: Dict[Any, Any] = {}
    content = b"BT /F1 12 Tf 50 700 Td <0041> Tj ET\n"
    seen = set()
    for i, nm in enumerate(case["images"]):
        name = f(nm)
        if name not in seen:
            seen.add(name)
            kinds = case.get("imgkinds") or []
            objs[40 + i] = image_object(kinds[i] if i < len(kinds) else "bmp8", i, objs)
            xo[name_obj(name)] = W.Ref(40 + i)
        content += b"q 10 0 0 10 %d 20 cm " % (20 * i) + W.ser(name_obj(name)) + b" Do Q\n"
    res: Dict[str, Any] = {"Font": {"F1": W.Ref(20)}}
    if case.get("fontfile"):
        # embedded font programs with hostile font names: FontFile2 on the CID font, FontFile on a Type1 font
        objs[23] = W.Stream({"Length1": 12}, b"\0" * 12)
        objs[22]["FontFile2"] = W.Ref(23)
        objs[24] = {"Type": "Font", "Subtype": "Type1", "BaseFont": name_obj(f(case["basefont"])), "FirstChar": 65,
                    "LastChar": 65, "Widths": [500], "FontDescriptor": W.Ref(25)}
        objs[25] = {"Type": "FontDescriptor", "FontName": name_obj(f(case["basefont"])), "Flags": 32,
                    "FontBBox": [0, 0, 1000, 1000], "ItalicAngle": 0, "Ascent": 800, "Descent": -200, "CapHeight": 700,
                    "StemV": 80, "FontFile": W.Ref(26)}
        objs[26] = W.Stream({"Length1": 20, "Length2": 0, "Length3": 0}, b"%!PS-AdobeFont-1.0\n/Encoding StandardEncoding def\n")
        res["Font"]["F2"] = W.Ref(24)
        content += b"BT /F2 12 Tf 50 650 Td (A) Tj ET\n"
    if xo:
        res["XObject"] = xo
    return W.simple_doc(content, resources=res, extra_objs=objs)


# ------------------------------------------------------------------ running the implementation

def safe_image_name(name: str, sb: "Sandbox") -> bool:
    """Safety net of the harness itself: a hostile image name is only ever put into a document when NO plausible
    (also mutated) way of joining it onto output_dir can leave the sandbox tree.  Refused: the bare separator and any
    absolute name outside the sandbox (e.g. "/", "//x", "/x/": joined unsanitised they hit the real file system), names
    with more than two `..` components, and names whose lexical join leaves the sandbox."""
    n = name.replace("\x00", "")
    if n.startswith("/") and not n.startswith(sb.root + "/"):
        return False
    if n.strip("/") == "" and n != "":
        return False
    if [c for c in n.split("/")].count("..") > 2:
        return False
    for variant in (n, n.rstrip("/"), n.lstrip("/") if not n.startswith(sb.root) else n):
        for ext in (".bmp", ".0.bmp", ""):
            p = os.path.normpath(os.path.join(sb.out, variant + ext))
            if not (p + "/").startswith(sb.root + "/"):
                return False
    return True


def run_impl(case: Dict[str, Any]):
    """Returns dict(opens=[(path, mode)], other=[events], created=[rel paths], changed=[rel paths], exc=..., sb paths)."""
    from pdfminer.cmapdb import CMapDB
    from pdfminer.high_level import extract_text_to_fp
    install_hook()
    import logging
    logging.getLogger("pdfminer").setLevel(logging.ERROR)      # damaged images are reported with warnings: not our output
    sb = Sandbox(case.get("pre", []))
    old_env = os.environ.get("CMAP_PATH")
    old_cwd = os.getcwd()
    try:
        # safety net of the harness itself: even the UNREPAIRED code must not be able to write outside the sandbox
        case = dict(case)
        kinds = list(case.get("imgkinds") or ["bmp8"] * len(case["images"]))
        keep = [i for i, n in enumerate(case["images"]) if safe_image_name(fill(n, sb), sb)]
        case["images"] = [case["images"][i] for i in keep]
        case["imgkinds"] = [kinds[i] for i in keep if i < len(kinds)]
        pdf = build_pdf(case, sb)
        CMapDB._cmap_cache.clear()
        CMapDB._umap_cache.clear()
        # round 6: CMAP_PATH set to a directory / not set / set to the empty string; the working directory is a scratch
        # directory that holds a loadable <name>.pickle.gz for every plain CMap name this document asks for
        cmap_env = case.get("cmap_env", "dir")
        if cmap_env == "dir":
            os.environ["CMAP_PATH"] = sb.rsrc
        elif cmap_env == "empty":
            os.environ["CMAP_PATH"] = ""
        else:
            os.environ.pop("CMAP_PATH", None)
        blob = gzip.compress(pickle.dumps(DECOY_PICKLE))
        for n in predict_loads(case, sb.root):
            if n and "/" not in n and "\x00" not in n and len(n.encode("utf-8", "surrogateescape")) < 200:
                try:
                    with open(os.path.join(sb.cwd, n + ".pickle.gz"), "wb") as fp:
                        fp.write(blob)
                except (OSError, UnicodeError):
                    pass
        os.chdir(sb.cwd)
        before = sb.snapshot()
        out = io.BytesIO()
        exc = None
        entry = case.get("entry", "to_fp")
        inpath = os.path.join(sb.root, "in.pdf")
        respath = os.path.join(sb.root, "result.out")
        if entry == "pdf2txt":
            with open(inpath, "wb") as fp:
                fp.write(pdf)
            before = sb.snapshot()
        events = []
        snaps = [before]
        excs = []
        for rep in range(max(1, int(case.get("repeat", 1)))):
            patch_stat()
            del _EVENTS[:]
            _ACTIVE[0] = True
            try:
                if entry == "to_fp":
                    extract_text_to_fp(io.BytesIO(pdf), io.BytesIO(), output_type=case.get("output_type", "text"),
                                       codec="utf-8", output_dir=sb.out)
                elif entry == "extract_text":
                    from pdfminer.high_level import extract_text
                    extract_text(io.BytesIO(pdf))
                elif entry == "extract_pages":
                    from pdfminer.high_level import extract_pages
                    for _ in extract_pages(io.BytesIO(pdf)):
                        pass
                else:
                    mod = load_pdf2txt()
                    fp2 = mod.extract_text(files=[inpath], outfile=respath, output_type=case.get("output_type", "text"),
                                           output_dir=sb.out)
                    fp2.close()
                excs.append(None)
            except Exception as e:  # noqa: BLE001
                excs.append(type(e).__name__)
            finally:
                _ACTIVE[0] = False
                unpatch_stat()
            events += list(_EVENTS)
            snaps.append(sb.snapshot())
        exc = next((e for e in excs if e), None)
        after = snaps[-1]
        created = sorted(p for p in after if p not in before)
        changed, removed = [], []
        for s0, s1 in zip(snaps, snaps[1:]):
            # every file that exists when a run starts - old files AND files exported by an earlier document - must
            # be unchanged when it ends
            changed += [p for p in s0 if p in s1 and s1[p] != s0[p] and p != respath]
            removed += [p for p in s0 if p not in s1]
        changed, removed = sorted(set(changed)), sorted(set(removed))
        # a path opened for writing twice (within one run or across runs) is an overwrite as well
        wcount: Dict[str, int] = {}
        for ev, args in events:
            if ev == "open" and isinstance(args[0], str) and isinstance(args[1], str) and any(c in args[1] for c in "wax+"):
                q = os.path.normpath(args[0])
                if q != respath:
                    wcount[q] = wcount.get(q, 0) + 1
        # (the audit event precedes the system call: an open the OS refuses - name too long - creates nothing)
        rewritten = sorted(p for p, n in wcount.items() if n > 1 and p in after)
        opens = []
        other = []
        stats = []
        for ev, args in events:
            if ev == "stat":
                stats.append(os.path.normpath(args[0]) if os.path.isabs(args[0]) else os.path.realpath(args[0]))
                continue
            if ev == "open":
                p = args[0]
                if isinstance(p, bytes):
                    p = p.decode("utf-8", "surrogateescape")
                if isinstance(p, str):
                    opens.append((os.path.realpath(p) if not os.path.isabs(p) else os.path.normpath(p), args[1]))
            else:
                other.append((ev, args[:2]))
        return {"rewritten": rewritten, "excs": excs, "stats": stats, "inpath": inpath, "respath": respath, "opens": opens, "other": other, "created": created, "changed": changed, "removed": removed, "exc": exc,
                "root": sb.root, "out": sb.out, "rsrc": sb.rsrc, "after": after, "pdf_len": len(pdf), "cwd": sb.cwd,
                "cmap_env": cmap_env}
    finally:
        os.chdir(old_cwd)
        if old_env is None:
            os.environ.pop("CMAP_PATH", None)
        else:
            os.environ["CMAP_PATH"] = old_env
        CMapDB._cmap_cache.clear()
        CMapDB._umap_cache.clear()
        sb.close()


_PDF2TXT = []


def load_pdf2txt():
    """tools/pdf2txt.py of the repository under test (the command line entry point)."""
    if not _PDF2TXT:
        import importlib.util
        spec = importlib.util.spec_from_file_location("verif_pdf2txt", os.path.join(C.REPO, "tools", "pdf2txt.py"))
        mod = importlib.util.module_from_spec(spec)
        spec.loader.exec_module(mod)
        _PDF2TXT.append(mod)
    return _PDF2TXT[0]


def is_import_noise(p: str) -> bool:
    return (p.endswith((".py", ".pyc", ".so", ".pth", ".pyi")) or "__pycache__" in p or "site-packages" in p or
            p.startswith((sys.base_prefix, sys.prefix)) and "/lib/python" in p)


def judge(case: Dict[str, Any], r: Dict[str, Any]) -> Optional[Tuple[str, Any, Any, Dict[str, Any]]]:
    """The property on the implementation."""
    root, out = r["root"], r["out"]
    cdir = cmap_dir()
    # the resource directories: <package>/cmap and the directory CMAP_PATH names - the documented default
    # /usr/share/pdfminer/ when it is not set; set to the empty string the user names the working directory
    env = r.get("cmap_env", "dir")
    rsrc = {"dir": r["rsrc"], "unset": os.path.normpath(DEFAULT_CMAP_PATH), "empty": r.get("cwd")}[env]
    tags = {"flow": case["flow"], "exc": r["exc"], "cmap_env": env}
    for p, mode in r["opens"]:
        if is_import_noise(p):
            continue
        d = os.path.dirname(p)
        writing = isinstance(mode, str) and any(ch in mode for ch in "wax+")
        if (p == r["inpath"] and not writing) or (p == r["respath"] and writing):
            continue          # the input file and the result file the CALLER named (pdf2txt entry point)
        if d in (rsrc, cdir) and not writing:
            continue
        if d == out and writing:
            continue
        tags["opened"] = p.replace(root, "{ROOT}")
        if writing:
            return ("a file outside output_dir was opened for writing", "only files directly in output_dir",
                    p.replace(root, "{ROOT}"), dict(tags, kind="write-outside"))
        return ("a file outside the CMap resource directories was opened", "only <resource dir>/<name>.pickle.gz",
                p.replace(root, "{ROOT}"), dict(tags, kind="read-outside"))
    for p in r["stats"]:
        if is_import_noise(p) or p in (out, r["inpath"], r["respath"], root):
            continue
        d = os.path.dirname(p)
        if d in (rsrc, cdir, out) or p in (rsrc, cdir):
            continue
        if p.startswith(root + "/") or p.endswith(".pickle.gz") or p.endswith((".bmp", ".jpg", ".img", ".jb2", ".jp2")):
            return ("the existence of a file outside the resource / output directories was probed",
                    "only <resource dir>/<name>.pickle.gz and <output_dir>/<name>", p.replace(root, "{ROOT}"),
                    dict(tags, kind="probe-outside", opened=p.replace(root, "{ROOT}")))
    for p in r["created"]:
        if p == r["respath"]:
            continue
        if os.path.dirname(p.rstrip("/")) != out or p.endswith("/"):
            return ("a file was created outside output_dir", "only files directly in output_dir", p.replace(root, "{ROOT}"),
                    dict(tags, kind="create-outside"))
    for p in r["rewritten"]:
        return ("a file written earlier in the same output directory was opened for writing again",
                "every export creates a new file", p.replace(root, "{ROOT}")[-80:], dict(tags, kind="overwrite"))
    for p in r["changed"] + r["removed"]:
        return ("an existing file was overwritten or removed", "existing files untouched", p.replace(root, "{ROOT}"),
                dict(tags, kind="overwrite"))
    for ev, args in r["other"]:
        if ev in ("os.listdir", "os.scandir"):
            continue
        a0 = args[0] if args else None
        if isinstance(a0, str) and os.path.normpath(a0) == out and ev == "os.mkdir":
            continue
        return ("a file-system mutation / process event outside the allowed set", "none", [ev, repr(args)],
                dict(tags, kind="other-event"))
    return None


# ------------------------------------------------------------------ model prediction

def predict_loads(case: Dict[str, Any], root: str) -> List[str]:
    """The CMap names _load_data is called with, in order (cache-aware), for this document."""
    f = lambda t: t.replace("{ROOT}", root).replace("{ROOT_NOSLASH}", root.lstrip("/"))  # noqa: E731
    names: List[str] = []
    cached = set()
    ident = {"Identity-H", "Identity-V", "OneByteIdentityH", "OneByteIdentityV", "DLIdent-H", "DLIdent-V"}

    def get_cmap(n):
        if n in ident or n in cached:
            return
        names.append(n)
    enc = f(case["enc"])
    if "{CMAP_REL}" in enc:
        enc = os.path.relpath(os.path.join(root, "decoy", "evil"), cmap_dir())
    get_cmap(enc)
    if case.get("usecmap") is not None:
        u = f(case["usecmap"])
        if "{CMAP_REL}" in u:
            u = os.path.relpath(os.path.join(root, "decoy", "evil"), cmap_dir())
        if u != enc or True:
            get_cmap(u)
    else:
        reg = f(case["registry"])
        if "{CMAP_REL}" in reg:
            reg = os.path.relpath(os.path.join(root, "decoy", "evil"), cmap_dir())
        reg = reg.encode("latin-1", "replace").decode("latin-1")
        cidcoding = "%s-%s" % (reg.strip(), case["ordering"].strip())
        if cidcoding not in ("Adobe-Identity", "Adobe-UCS"):
            names.append("to-unicode-" + cidcoding)
    return names


def hexs(s: str) -> str:
    return C.hx(s.encode("utf-8", "surrogateescape"))


def check_case(ctx: C.Ctx, case: Dict[str, Any], lines, impl, inputs, shrink: bool = True) -> None:
    r = run_impl(case)
    root = r["root"]
    all_names = [case["enc"], case.get("usecmap") or "", case["registry"], case["basefont"]] + case["images"]
    ctx.case(("doc", json.dumps(case, sort_keys=True)), any(nontrivial_name(n) for n in all_names),
             sample={k: (v if not isinstance(v, str) else v[:60]) for k, v in case.items()}, branch="flow:" + case["flow"])
    for n in all_names:
        for tag, cond in (("slash", "/" in n), ("dotdot", ".." in n), ("nul", "\x00" in n), ("abs", n.startswith(("/", "{ROOT}"))),
                          ("long", len(n) >= 255), ("benign", not nontrivial_name(n))):
            if cond:
                ctx.branch("name:" + tag)
    if r["exc"]:
        ctx.branch("exception:" + r["exc"])
    ctx.branch("images:%d" % len(case["images"]))
    v = judge(case, r)
    if v is not None:
        small = shrink_case(case, v[3].get("kind")) if shrink else case
        if small is not case:
            r2 = run_impl(small)
            v2 = judge(small, r2)
            if v2 is not None:
                v = v2
                case = small
        ctx.fail(C.Failure(v[0], {"mode": "doc", "case": case}, v[1], v[2], v[3]))
    # ---- tie: CMap probes ----
    cdir = cmap_dir()
    env = r.get("cmap_env", "dir")
    env_wire = {"dir": hexs(r["rsrc"]), "unset": "none", "empty": "-"}[env]
    ctx.branch("cmap-env:" + env)
    exp_opens: List[str] = []
    loads = predict_loads(case, root) * max(1, int(case.get("repeat", 1)))     # every document loads its CMaps again
    probe_lines = []
    for n in loads:
        # the model derives the directory list from the environment value and the package directory (default regenerated)
        probe_lines.append("cmapenv %s %s %s" % (env_wire, hexs(os.path.dirname(cdir)), hexs(n)))
    obs = [p for p, mode in r["opens"] if p.endswith(".pickle.gz")]
    inputs.append(("cmap-opens", {"case": case, "loads": [n.replace(root, "{ROOT}") for n in loads]}))
    lines.append(("probes", probe_lines, loads, root, r["after"],
                  [p for p in r["stats"] if p.endswith(".pickle.gz")], r.get("cwd")))
    impl.append([p for p in obs])
    # ---- tie: image names ----
    existing = list(case.get("pre", []))
    created_model_lines = []
    kinds = case.get("imgkinds") or ["bmp8"] * len(case["images"])
    first_kind: Dict[str, str] = {}
    if case.get("entry", "to_fp") in ("to_fp", "pdf2txt"):
        for rep in range(max(1, int(case.get("repeat", 1)))):
            for i, nm in enumerate(case["images"]):
                kind = first_kind.setdefault(nm, kinds[i] if i < len(kinds) else "bmp8")   # a repeated name reuses the object
                if kind in ILL_KINDS:
                    vals = ILL_KINDS[kind][1]
                    if isinstance(vals, str):
                        # implausible dimensions: kept undecoded under the fixed extension
                        created_model_lines.append((fill_root(nm, root), vals, False, rep, None))
                    else:
                        created_model_lines.append((fill_root(nm, root), ".%d.%dx%d.img" % vals, False, rep, vals))
                else:
                    created_model_lines.append((fill_root(nm, root), IMG_EXT[kind], kind.startswith("pil-"), rep, None))
                if rep == 0:
                    ctx.branch("imgkind:" + kind)
    ctx.branch("repeat:%d" % case.get("repeat", 1))
    if any(len(n) >= 240 for n in case["images"]):
        ctx.branch("name:at-length-limit")
    ctx.branch("entry:" + case.get("entry", "to_fp"))
    lines.append(("images", created_model_lines, existing, r["out"]))
    impl.append(sorted(os.path.relpath(p, root) for p in r["created"] if not p.endswith("/") and p != r["respath"]))
    inputs.append(("image-paths", {"case": case}))
    r.pop("after", None)


def fill_root(t: str, root: str) -> str:
    return t.replace("{ROOT}", root).replace("{ROOT_NOSLASH}", root.lstrip("/"))


def resolve_ties(ctx: C.Ctx, lines, impl, inputs) -> None:
    """Ask the driver for all predictions in one batch and compare with what was observed."""
    if ctx.driver is None:
        return
    req: List[str] = []
    for item in lines:
        if item[0] == "probes":
            req += item[1]
        else:
            # image names must be asked sequentially (the listing grows): done below with a second batch per item
            pass
    outs = ctx.driver.ask(req) if req else []
    k = 0
    img_req: List[str] = []
    img_index: List[Tuple[int, int]] = []
    for idx, item in enumerate(lines):
        if item[0] == "probes":
            _, plines, loads, root, after, obs_stats, cwd = item
            predicted: List[str] = []
            exp_stats: List[str] = []
            loaded = set()          # CMapDB caches a CMap by name once it has been loaded successfully
            for n_load in loads:
                reply = outs[k]
                k += 1
                if n_load in loaded:
                    continue
                probes = [] if reply == "-" else [bytes.fromhex(x).decode("utf-8", "surrogateescape") for x in reply.split(",")]
                # the first probe that exists (in the sandbox snapshot or on the real cmap dir) is opened
                for p in probes:
                    if not os.path.isabs(p) and cwd:
                        p = os.path.join(cwd, p)         # CMAP_PATH set to "": relative to the working directory
                    q = os.path.normpath(p)
                    exp_stats.append(q)
                    if q in after or os.path.exists(q):
                        # python resolves the path physically; every intermediate directory must exist
                        if physically_exists(p, after):
                            predicted.append(q)
                            loaded.add(n_load)
                            break
            # every path handed to os.path.exists (made visible by the os.stat wrapper), in order
            ctx.branch("tie:cmap-probes=%d" % min(len(exp_stats), 4))
            if exp_stats != obs_stats:
                ctx.disagree("cmap-probes", inputs[idx][1], [p.replace(root, "{ROOT}") for p in obs_stats],
                             [p.replace(root, "{ROOT}") for p in exp_stats])
            ctx.branch("tie:cmap-opens-predicted=%d" % len(predicted))
            if predicted != impl[idx]:
                ctx.disagree("cmap-opens", inputs[idx][1], [p.replace(root, "{ROOT}") for p in impl[idx]],
                             [p.replace(root, "{ROOT}") for p in predicted])
    # images: replay the naming through the model; the listing grows with the model's own answers, so the
    # k-th image of every case is asked in one batch (round k)
    states = []
    for idx, item in enumerate(lines):
        if item[0] == "images":
            _, specs, existing, outdir = item
            states.append({"idx": idx, "queue": list(specs), "cur": list(existing), "outdir": outdir, "created": [],
                           "ok": True})
    rawext_req: List[str] = []
    rawext_exp: List[str] = []
    while True:
        batch, owners = [], []
        for st in states:
            while st["queue"] and st["queue"][0][1] is None:
                # "%d" of a name / string / array raises TypeError before a path exists: the rest of this run is skipped
                run = st["queue"][0][3]
                st["queue"] = [q for q in st["queue"] if q[3] != run]
            if not st["queue"]:
                continue
            nm, ext, aborts, run, vals = st["queue"][0]
            if vals is not None:
                rawext_req.append("rawext %d %d %d" % vals)
                rawext_exp.append(hexs(ext))
            batch.append("image %s %s %s %s" % (hexs(st["outdir"]), hexs(nm), hexs(ext),
                                                ",".join(hexs(x) for x in st["cur"]) or "-"))
            owners.append(st)
        if not batch:
            break
        for st, reply in zip(owners, ctx.driver.ask(batch)):
            nm, ext, aborts, run, vals = st["queue"].pop(0)
            if reply in ("none", "bad-op"):
                st["ok"] = False
                st["queue"] = []
                continue
            a, b = reply.split(" ")
            name = bytes.fromhex(a).decode("utf-8", "surrogateescape") if a != "-" else ""
            path = bytes.fromhex(b).decode("utf-8", "surrogateescape")
            if len(name.encode("utf-8", "surrogateescape")) > 255:
                # the OS refuses the name: pdfminer raises OSError, nothing more is created in this run
                st["queue"] = [q for q in st["queue"] if q[3] != run]
                continue
            st["cur"].append(name)
            st["created"].append(os.path.relpath(os.path.normpath(path), os.path.dirname(os.path.dirname(os.path.dirname(st["outdir"])))))
            if aborts:
                # the file exists, then Pillow is missing: ImportError ends this run
                st["queue"] = [q for q in st["queue"] if q[3] != run]
    for st in states:
        idx = st["idx"]
        ctx.branch("tie:images-created=%d" % min(len(st["created"]), 6))
        if st["ok"] and sorted(st["created"]) != impl[idx]:
            ctx.disagree("image-paths", inputs[idx][1], [x[-60:] for x in impl[idx]], [x[-60:] for x in sorted(st["created"])])
    if rawext_req:
        for req, exp, got in zip(rawext_req, rawext_exp, ctx.driver.ask(rawext_req)):
            if exp != got:
                ctx.disagree("rawext", req, exp, got)


def physically_exists(p: str, after: Dict[str, Any]) -> bool:
    """Kernel path resolution on the snapshot: every prefix directory must exist before `..` is applied."""
    if not p.startswith("/"):
        return False
    cur = "/"
    comps = [c for c in p.split("/") if c not in ("", ".")]
    for i, c in enumerate(comps):
        if c == "..":
            cur = os.path.dirname(cur.rstrip("/")) or "/"
            continue
        nxt = os.path.join(cur, c)
        last = i == len(comps) - 1
        if last:
            return nxt in after or os.path.isfile(nxt)
        if not (nxt + "/" in after or os.path.isdir(nxt)):
            return False
        cur = nxt
    return False


def shrink_case(case: Dict[str, Any], kind: Optional[str]) -> Dict[str, Any]:
    cur = dict(case)

    def fails(c):
        v = judge(c, run_impl(c))
        return v is not None and v[3].get("kind") == kind
    for key, benign in (("basefont", "Helv"), ("registry", "Adobe"), ("enc", "Identity-H"), ("pre", []), ("output_type", "text")):
        if cur.get(key) != benign:
            t = dict(cur)
            t[key] = benign
            if key == "registry":
                t["ordering"] = "Identity"
            try:
                if fails(t):
                    cur = t
            except Exception:  # noqa: BLE001
                pass
    if cur.get("usecmap") is not None:
        t = dict(cur)
        t["usecmap"] = None
        if fails(t):
            cur = t
    kinds = list(cur.get("imgkinds") or ["bmp8"] * len(cur["images"]))
    kinds += ["bmp8"] * (len(cur["images"]) - len(kinds))
    pairs = list(zip(cur["images"], kinds))
    if len(pairs) > 1:
        def still(sub):
            t = dict(cur)
            t["images"] = [a for a, _ in sub]
            t["imgkinds"] = [b for _, b in sub]
            return fails(t)
        pairs = C.ddmin(pairs, still, 30)
        cur["images"] = [a for a, _ in pairs]
        cur["imgkinds"] = [b for _, b in pairs]
    elif pairs:
        t = dict(cur)
        t["images"], t["imgkinds"] = [], []
        if fails(t):
            cur = t
    for key, v in (("repeat", 1), ("fontfile", False), ("entry", "to_fp")):
        if cur.get(key, v) != v:
            t = dict(cur)
            t[key] = v
            try:
                if fails(t):
                    cur = t
            except Exception:  # noqa: BLE001
                pass
    return cur


# ------------------------------------------------------------------ pure path algebra tie

def run_paths(ctx: C.Ctx) -> None:
    import posixpath
    rng = ctx.rng
    lines, impl, inputs = [], [], []
    comps = ["a", "b", "..", ".", "", "x.y", "..a", "...", " ", "c"]
    for i in range(ctx.n(1500, 40000)):
        def rpath():
            n = rng.randint(0, 6)
            s = "/".join(rng.choice(comps) for _ in range(n))
            if rng.random() < 0.4:
                s = "/" + s
            if rng.random() < 0.2:
                s += "/"
            return s
        a, b = rpath(), rpath()
        lines.append("join %s %s" % (hexs(a), hexs(b)))
        impl.append(hexs(posixpath.join(a, b)))
        inputs.append(("join", [a, b]))
        p = rpath()
        if not p.startswith("//") or p.startswith("///"):
            lines.append("norm %s" % hexs(p))
            impl.append(hexs(posixpath.normpath(p)))
            inputs.append(("norm", p))
        q = rpath()
        lines.append("basename %s" % hexs(q))
        impl.append(hexs(posixpath.basename(q)))
        inputs.append(("basename", q))
        ctx.case(("path", a, b, p, q), ".." in a + b + p, branch="path-algebra")
    if ctx.driver is not None:
        outs = ctx.driver.ask(lines)
        for inp, i_out, m_out in zip(inputs, impl, outs):
            if i_out != m_out:
                ctx.disagree(inp[0], inp[1], i_out, m_out)


# ------------------------------------------------------------------ histories of exports (round 6)

HIST_NAMES = ["", ".", "..", "/", "//h/s", "C:\\x", "\\\\h\\s", "a.", "a ", "a\x00b", "\x00", "../x", "/abs", "Im0", "Im0",
              "Im0", "x/", "./y", "A" * 200, "a/../b", "..\x00", "Im0.0", "../../../../../../tmp/c15-hist-escape", "~", "-r",
              "/dev/null", "..//", "\x00/", " ", "Im0.bmp"]
HIST_EXTS = [".bmp", ".bmp", ".jpg", ".jp2", ".jb2", ".img", ".8.3x2.img", ".1.1x1.img"]


def _ref_san(name: str) -> str:
    return name.replace("\x00", "_").replace("/", "_")


def impl_history(reqs: List[List[str]], pre: List[str]):
    """`ImageWriter._create_unique_image_name` called for every request on one output directory that already holds
    `pre`; the harness creates each chosen file itself — and only when the path lies directly inside the directory,
    so that a damaged tree cannot write outside the sandbox.  Returns (outdir, [(name, path, inside, existed)], exc)."""
    from pdfminer.image import ImageWriter
    root = tempfile.mkdtemp(prefix="c15h_")
    res: List[Any] = []
    exc = None
    try:
        out = os.path.join(root, "n1", "n2", "out")
        os.makedirs(out)
        for n in pre:
            with open(os.path.join(out, n), "wb") as fp:
                fp.write(b"old")
        iw = ImageWriter(out)
        for name, ext in reqs:
            im = type("Img", (), {})()
            im.name = name
            try:
                nm, path = iw._create_unique_image_name(im, ext)
            except Exception as e:  # noqa: BLE001
                exc = type(e).__name__
                break
            try:
                norm = os.path.normpath(path)
                inside = os.path.dirname(norm) == out and os.path.basename(norm) not in ("", ".", "..") and \
                    os.path.join(out, nm) == path and "\x00" not in path and "/" not in nm and nm not in ("", ".", "..")
                existed = inside and os.path.lexists(path)
            except Exception:  # noqa: BLE001
                inside, existed = False, False
            res.append((nm, path, inside, existed))
            if not inside or existed:
                break
            with open(path, "xb") as fp:
                fp.write(b"new")
        untouched = all(open(os.path.join(out, n), "rb").read() == b"old" for n in pre)
    finally:
        shutil.rmtree(root, ignore_errors=True)
    return out, res, exc, untouched


def history_verdict(reqs, pre):
    out, res, exc, untouched = impl_history(reqs, pre)
    names = [r[0] for r in res]
    bad = None
    if exc is not None:
        bad = "choosing the file name of an exported image raised " + exc
    elif any(not r[2] for r in res):
        bad = "the path chosen for an exported image is not a file directly inside output_dir"
    elif any(r[3] for r in res) or len(set(names)) != len(names) or any(n in pre for n in names) or not untouched:
        bad = "the file name chosen for an exported image is one that exists already (overwrite)"
    elif len(res) != len(reqs):
        bad = "an export request got no file name"
    return out, res, exc, bad


def check_history(ctx: C.Ctx, reqs, pre, lines, impl, inputs, shrink: bool = True) -> None:
    out, res, exc, bad = history_verdict(reqs, pre)
    ctx.case(("hist", json.dumps(reqs), tuple(pre)), any(nontrivial_name(n) for n, _ in reqs),
             sample={"reqs": [[n[:20], e] for n, e in reqs][:4], "pre": pre[:4]}, branch="history:%d" % min(len(reqs), 6))
    for n, _ in reqs:
        ctx.branch("history:name:" + ("empty" if n == "" else "dot" if n in (".", "..") else "abs" if n.startswith("/") else
                                      "nul" if "\x00" in n else "sep" if "/" in n else "long" if len(n) > 100 else "plain"))
    ctx.branch("history:pre=%d" % min(len(pre), 4))
    if any(r[0] != _ref_san(n) + e for r, (n, e) in zip(res, reqs)):
        ctx.branch("history:numbered")
    if bad is not None:
        small_reqs, small_pre = reqs, pre
        if shrink:
            small_reqs = C.ddmin(reqs, lambda sub: history_verdict(sub, pre)[3] is not None, 60)
            small_pre = C.ddmin(pre, lambda sub: history_verdict(small_reqs, sub)[3] is not None, 40) if pre else pre
            if pre and history_verdict(small_reqs, [])[3] is not None:
                small_pre = []
            out, res, exc, bad2 = history_verdict(small_reqs, small_pre)
            bad = bad2 or bad
        ctx.fail(C.Failure(bad, {"mode": "history", "reqs": small_reqs, "pre": small_pre},
                           "distinct fresh names directly inside output_dir",
                           {"chosen": [[r[0], r[1].replace(out, "<out>")] for r in res], "exception": exc},
                           {"area": "history"}))
        return
    lines.append("history %s %s %s" % (hexs(out), ",".join(hexs(n) + ":" + hexs(e) for n, e in reqs) or "-",
                                       ",".join(hexs(n) for n in pre) or "-"))
    impl.append(",".join(hexs(r[0]) + ":" + hexs(r[1]) for r in res) or "-")
    inputs.append(("history", {"mode": "history", "reqs": reqs, "pre": pre}))


def impl_safename(name: str) -> str:
    """The sanitised image name, read off the first candidate in an empty directory (existence probes only)."""
    from pdfminer.image import ImageWriter
    root = tempfile.mkdtemp(prefix="c15s_")
    try:
        out = os.path.join(root, "n1", "n2", "out")
        os.makedirs(out)
        im = type("Img", (), {})()
        im.name = name
        try:
            nm, _ = ImageWriter(out)._create_unique_image_name(im, ".e")
        except Exception as e:  # noqa: BLE001
            return "E:" + type(e).__name__
        return hexs(nm[:-2]) if nm.endswith(".e") else "?" + hexs(nm)
    finally:
        shutil.rmtree(root, ignore_errors=True)


def run_history(ctx: C.Ctx) -> None:
    rng = ctx.rng
    lines, impl, inputs = [], [], []
    alphabet = ["a", "b", ".", "..", "/", "\x00", " ", "\\", ":", "_", "0", "x"]

    def rname():
        if rng.random() < 0.6:
            return rng.choice(HIST_NAMES)
        return "".join(rng.choice(alphabet) for _ in range(rng.randint(0, 7)))
    # systematic: every listed name three times with the same extension into a directory holding its first candidates
    for n in HIST_NAMES:
        for ext in (".bmp", ".8.3x2.img"):
            base = _ref_san(n)
            pre = sorted({base + ext, base + ".1" + ext} - {".", ".."})
            check_history(ctx, [[n, ext]] * 3, pre if len(n) % 2 == 0 else [], lines, impl, inputs)
        lines.append("safename " + hexs(n))
        impl.append(impl_safename(n))
        inputs.append(("safename", n))
    for _ in range(ctx.n(250, 5000)):
        if not ctx.time_left():
            break
        k = rng.choice([1, 2, 3, 5, 8])
        pool = [rname() for _ in range(rng.randint(1, 3))]
        reqs = [[rng.choice(pool), rng.choice(HIST_EXTS)] for _ in range(k)]
        pre = []
        for n, e in reqs:
            if rng.random() < 0.5:
                b = _ref_san(n)
                pre += [b + e] + [b + ".%d%s" % (j, e) for j in range(rng.randint(0, 3)) if rng.random() < 0.8]
        pre = sorted({p for p in pre if p not in (".", "..") and len(p) < 250})
        check_history(ctx, reqs, pre, lines, impl, inputs)
        n = rname()
        lines.append("safename " + hexs(n))
        impl.append(impl_safename(n))
        inputs.append(("safename", n))
    if ctx.driver is not None and lines:
        for inp, i_out, m_out in zip(inputs, impl, ctx.driver.ask(lines)):
            if i_out != m_out:
                ctx.disagree(inp[0], inp[1], i_out[:400], m_out[:400])


# ------------------------------------------------------------------ corpus / replay / run

def replay(ctx: C.Ctx, doc, from_corpus: bool = False) -> None:
    inp = doc.get("input", {})
    ctx.branch("corpus" if from_corpus else "replay")
    if inp.get("mode") == "history":
        lines, impl, inputs = [], [], []
        check_history(ctx, [list(r) for r in inp["reqs"]], list(inp["pre"]), lines, impl, inputs, shrink=False)
        if ctx.driver is not None and lines:
            for i2, i_out, m_out in zip(inputs, impl, ctx.driver.ask(lines)):
                if i_out != m_out:
                    ctx.disagree(i2[0], i2[1], i_out[:400], m_out[:400])
    if inp.get("mode") == "doc":
        lines, impl, inputs = [], [], []
        check_case(ctx, inp["case"], lines, impl, inputs, shrink=False)
        resolve_ties(ctx, lines, impl, inputs)


def run_corpus(ctx: C.Ctx) -> None:
    for path in sorted(glob.glob(os.path.join(C.VERIF, "corpus", "C15", "*.json"))):
        with open(path) as fp:
            replay(ctx, json.load(fp), from_corpus=True)


def run(ctx: C.Ctx) -> None:
    run_corpus(ctx)
    run_paths(ctx)
    run_history(ctx)
    rng = ctx.rng
    lines, impl, inputs = [], [], []
    # systematic: every hostile name through every flow once
    names = hostile_names(rng)
    k = 0
    for flow in ("encoding-name", "encoding-stream", "usecmap", "registry"):
        for nm in names:
            if ctx.tier == "quick" and (k % 2 == 1) and ctx.boost == 1:
                k += 1
                continue
            k += 1
            case = {"flow": flow, "enc": nm if flow.startswith("encoding") else "Identity-H",
                    "usecmap": nm if flow == "usecmap" else None, "registry": nm if flow == "registry" else "Adobe",
                    "ordering": "Z" if flow == "registry" else "Identity", "basefont": "Helv", "images": [], "pre": [],
                    "output_type": "text"}
            check_case(ctx, case, lines, impl, inputs)
    # round 6: plain CMap names through every flow with CMAP_PATH set to a directory / not set / empty, the working
    # directory holding a loadable file of that name
    for env in ("dir", "unset", "empty"):
        for flow in ("encoding-name", "encoding-stream", "usecmap", "registry"):
            for nm in ("Evil", "good"):
                case = {"flow": flow, "enc": nm if flow.startswith("encoding") else "Identity-H",
                        "usecmap": nm if flow == "usecmap" else None, "registry": nm if flow == "registry" else "Adobe",
                        "ordering": "Z" if flow == "registry" else "Identity", "basefont": "Helv", "images": [], "pre": [],
                        "output_type": "text", "cmap_env": env}
                check_case(ctx, case, lines, impl, inputs)
    for nm in IMAGE_NAMES:
        case = {"flow": "image", "enc": "Identity-H", "usecmap": None, "registry": "Adobe", "ordering": "Identity",
                "basefont": "Helv", "images": [nm, nm], "pre": ["Im0.bmp", "keep.bmp"], "output_type": "text"}
        check_case(ctx, case, lines, impl, inputs)
    # every hostile image name with every ill-typed BitsPerComponent / Width / Height (values that reach the file name
    # after the image name has been sanitised), and every image name at the file-name length limit exported twice
    base = {"flow": "image", "enc": "Identity-H", "usecmap": None, "registry": "Adobe", "ordering": "Identity",
            "basefont": "Helv", "output_type": "text", "entry": "to_fp"}
    for nm in IMAGE_NAMES:
        for kind in ILL_KINDS:
            check_case(ctx, dict(base, images=[nm], imgkinds=[kind], pre=["keep.bmp"]), lines, impl, inputs)
    for n in (247, 249, 250, 251, 252, 253, 255, 256):
        for kind in ("bmp8", "jpg", "raw4"):
            nm = "L" * n
            ext = IMG_EXT[kind]
            pre = [x for x in {(nm + ext)[:255 - len(ext)] + ext, (nm + ".0" + ext)[:255 - len(ext)] + ext} if len(x) <= 255]
            check_case(ctx, dict(base, images=[nm, nm], imgkinds=[kind, kind], pre=sorted(pre) if n % 2 else [], repeat=2),
                       lines, impl, inputs)
    for i in range(ctx.n(1200, 20000)):
        if not ctx.time_left():
            break
        check_case(ctx, gen_case(rng), lines, impl, inputs)
    resolve_ties(ctx, lines, impl, inputs)
