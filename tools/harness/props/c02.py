"""C02 - cross-reference resolution: newest definition wins, in every physical form.

Relations exercised on every run:
  (prop)  the real PDFDocument, opened on a file WRITTEN from an abstract history, answers
          getobj / get_objids / catalog / info exactly as the abstract `resolve` says - for every
          physical form, caching flag and read-buffer size; damaged single-revision files are
          rebuilt by the body scan (all objects found, same text)
  (tie)   the Lean model (drv_c02: find_xref/revreadlines over the file bytes, classic-table text
          parser, xref-stream row decoder, section chaining, getobj search with cache) gives the
          same answers as the implementation on the same files
  (hyp)   the Lean hypothesis checker `repOK` accepts the physical description of each written
          file, so the theorems of Props/C02.lean speak about the files pdfminer was given
  (proof) lean/PdfVerif/Props/C02.lean
"""

from __future__ import annotations

import glob
import hashlib
import io
import json
import os
from fractions import Fraction
from typing import Any, Dict, List, Optional, Tuple

import logging

from harness import common as C
from harness import pdfwriter as W
from harness.props import c02_writer as CW

LEVEL = "proof"
logging.getLogger("pdfminer").setLevel(logging.ERROR)   # e.g. "Circular cross-reference chain" on generated cycles
RULE = ("histories of 1-6 revisions over object numbers 1..40 (define/override sets, values of every PDF type incl. "
        "streams), written with a form per revision drawn from {classic table, xref stream, hybrid}, object-stream "
        "groups, W widths 0-4, Index shapes (maximal runs, gaps filled with free rows, head entry 0, full [0 Size) with "
        "or without /Index), Flate / PNG-Up on the xref stream, three EOL styles, generation numbers, four startxref "
        "tails; opened with caching on/off under BUFSIZ in {1,2,3,7,16,4096}; a case is non-trivial when the history "
        "has >=1 override or >=2 sections or a packed object; damaged cases: single-revision classic files with the "
        "startxref number or the table text corrupted")
TRUSTED_BASE = [
    "tools/harness/props/c02_writer.py (multi-revision PDF writer) and its description of what it wrote; the "
    "byte-level parts of the description are slices of the file given to pdfminer",
    "hand model lean/PdfVerif/Model/Xref.lean (correspondence-checked per file), built on Gen/Xref.lean which "
    "tools/translate/gen_c02.py regenerates from pdfdocument.py/utils.py on every run; object syntax and stream filters "
    "are parameters of the model (objects appear as parsed headers + opaque value ids; C01/C03 cover them)",
    "Lean twin of the writer (Spec/XrefWrite.lean): the harness checks Python writer bytes = Lean writer bytes for "
    "every table text and xref-stream payload, so the round-trip theorems speak about the bytes pdfminer read",
    "structural Lean file writer (Spec/XrefHist.lean: positions from gaps and lengths, entry list per (sub-)revision, "
    "history, trailer chain, tail): Rep / chain / SecLists are DERIVED for its outputs (C02_written_rep, C02_chain, "
    "C02_table_lists, C02_stream_lists, C02_end_to_end); per file the harness checks that the Python writer's file has "
    "exactly this structure (q.written, q.chain, q.tablelists, q.streamlists, q.tail); the step plan -> bytes of object "
    "bodies and trailer dictionaries stays with the Python writer",
    "zlib for Flate on xref/object streams",
]
ASSUMPTIONS = [
    "conformant writer: an update never reuses the number of an object stream it still needs, object streams are "
    "stored directly, free rows are written only for numbers never defined before (the spec never deletes)",
    "object values are drawn from a grammar free of the C01/C14 tokenizer defects (no backslash line continuations, "
    "no NUL after names)",
    "damaged variant: object headers start a line and no stream contains a line that looks like `n g obj`",
]
STATEMENT_STATUS: Dict[str, str] = {
    "C02_newest_wins": "proved (all histories; hypothesis Rep = sections represent the history, checked per file by repOK)",
    "C02_newest_wins_checked": "proved (same with the executable hypothesis repOK)",
    "C02_getobj_fuel": "proved (container nesting never exceeds 2 on a represented history)",
    "C02_catalog_info": "proved",
    "C02_hybrid_split": "proved",
    "C02_form_independent": "proved (corollary)",
    "C02_cache_transparent": "proved (invariant: cache subset of graph of resolve; any query sequence)",
    "C02_xrefstm_entry": "proved (any number of Index ranges, widths 0.. with nunpack defaults)",
    "C02_xrefstm_objids": "proved for the repaired get_objids",
    "C02_objids_pinned_cex": "proved counter-example for the pinned get_objids (fixed in the repo)",
    "C02_table_load": "proved (round 2): byte-level PDFXRef.load inverts the table writer, every EOL style, any subsections",
    "C02_table_lookup": "proved (round 2): loaded table answers with the last in-use line written for n",
    "C02_trailer_line": "proved (round 2)",
    "C02_stream_load / C02_stream_load_default": "proved (round 2): PDFXRefStream.load + get_pos + get_objids end to end incl. /Index default",
    "C02_chain_order": "proved (round 2): table -> XRefStm -> Prev, circular Prev not followed",
    "C02_chain": "proved (round 6): read_xref_from over a chain of ANY number of plain / hybrid revisions returns the sections newest first "
                 "(table before its XRefStm stream) and visits exactly their positions",
    "C02_chain_checked": "proved (round 6): same with the executable hypothesis chainOf evaluated per file (q.chain)",
    "C02_table_lists": "proved (round 6): SecLists derived for classic tables from the bytes read (any subsections holding the same pairs "
                       "as the writer's entry list); hypothesis sameAssocB evaluated per table (q.tablelists)",
    "C02_stream_lists": "proved (round 6): SecLists derived for cross-reference streams (any non-overlapping /Index ranges, widths, rows); "
                        "hypothesis streamListsB evaluated per stream (q.streamlists)",
    "C02_table_represents / C02_stream_represents": "proved (round 2): SecRep follows from what the writer wrote",
    "C02_row_types / C02_inuse_types / C02_objstm_index / C02_defaults / C02_literals":
        "proved (round 2) about definitions REGENERATED from the Python source (Gen/Xref.lean)",
    "C02_row_layout": "proved (round 6) about REGENERATED row addressing (entlen, offset = entlen*index, data/field slices, "
                      "/Index walk: range test, index += on hit/miss, start value) of get_pos/get_objids/load",
    "C02_written_rep": "proved (round 6): Rep DERIVED for every output of the Lean file writer (any (sub-)revisions, interleaved hybrid "
                       "parts, gaps/lengths, object-stream members); per file only the writer twin (q.written) and WFile.ok are evaluated",
    "C02_written_newest_wins": "proved (round 6): newest definition wins end to end on the writer's output",
    "C02_table_entry_layout": "proved (round 6) about REGENERATED entry-line handling of PDFXRef.load (tuple unpacking order, stored tuple, "
                              "range(start, start + nobjs))",
    "C02_end_to_end": "proved (round 6): open (find_xref with any buffer size + whole trailer chain) + getobj on a file laid out by the Lean "
                      "writers = newest revision's value, for every object number",
    "C02_table_fuel / C02_fallback_fuel": "proved (round 2): loops terminate within one iteration per byte",
    "C02_fallback": "proved (round 2): body scan offsets = true offsets; hypothesis ItemsOK checked per damaged file by itemsOKb",
    "C02_cue_header": "proved (round 2): PDFOBJ_CUE matcher accepts every rendered `n g obj` header",
    "C02_revreadlines_bufsize": "proved (all b >= 1, all byte strings)",
    "C02_startxref_bufsize": "proved (corollary)",
    "C02_find_xref": "proved (round 6): find_xref returns the first non-blank line after the LAST startxref line, any bytes before, any buffer size",
    "C02_find_xref_none": "proved (round 6): no startxref line -> PDFNoValidXRef",
    "C02_find_xref_tail / C02_find_xref_written": "proved (round 6): every tail layout of the Lean tail writer (blanks, blank lines, EOL style, "
                                                  "0..k final EOLs) yields exactly the offset written; writer bytes compared per file (q.tail)",
    "C02_damaged_cex": "proved counter-example (open finding wellformed-but-wrong-xref-no-rescan)",
    "C02_damaged_partial": "partial: the damaged-file clause holds when the cross-reference data that parses is right; "
                           "a parsable but wrong table is never rebuilt (open finding)",
}

BUFSIZES = [1, 2, 3, 7, 16, 4096]


# --------------------------------------------------------------------------- values

def to_pdf(v: Any) -> Any:
    t = v[0]
    if t == "z":
        return None
    if t == "b":
        return bool(v[1])
    if t == "i":
        return int(v[1])
    if t == "r":
        return Fraction(v[1])
    if t == "s":
        return bytes.fromhex(v[1])
    if t == "n":
        return W.Name(v[1].encode("latin-1"))
    if t == "a":
        return [to_pdf(x) for x in v[1]]
    if t == "d":
        return {k: to_pdf(x) for k, x in v[1]}
    if t == "R":
        return W.Ref(v[1], v[2] if len(v) > 2 else 0)
    if t == "S":
        return W.Stream({k: to_pdf(x) for k, x in v[1]}, bytes.fromhex(v[2]))
    raise ValueError(v)


def canon_pdf(o: Any) -> str:
    """Canonical text of a value in the pdfwriter vocabulary."""
    if o is None:
        return "null"
    if o is True or o is False:
        return "b:" + ("true" if o else "false")
    if isinstance(o, int):
        return f"i:{o}"
    if isinstance(o, Fraction):
        return "r:" + C.frac_str(o)
    if isinstance(o, bytes):
        return "s:" + o.hex()
    if isinstance(o, str):
        return "n:" + o.encode("latin-1").hex()
    if isinstance(o, W.Name):
        return "n:" + o.b.hex()
    if isinstance(o, W.Ref):
        return f"R:{o.n}"
    if isinstance(o, (list, tuple)):
        return "[" + " ".join(canon_pdf(x) for x in o) + "]"
    if isinstance(o, dict):
        items = sorted(((k if isinstance(k, str) else k.b.decode("latin-1")), x) for k, x in o.items())
        return "<<" + " ".join("n:" + k.encode("latin-1").hex() + " " + canon_pdf(x) for k, x in items) + ">>"
    if isinstance(o, W.Stream):
        d = {k: x for k, x in o.d.items() if k not in ("Length", "Filter", "DecodeParms")}
        return "S" + canon_pdf(d) + ":" + o.data.hex()
    raise TypeError(repr(o))


def canon_impl(o: Any, strip_eol: bool = False) -> str:
    """Canonical text of an object returned by pdfminer."""
    from pdfminer.pdftypes import PDFObjRef, PDFStream
    from pdfminer.psparser import PSKeyword, PSLiteral
    if o is None:
        return "null"
    if o is True or o is False:
        return "b:" + ("true" if o else "false")
    if isinstance(o, int):
        return f"i:{o}"
    if isinstance(o, float):
        return "r:" + C.frac_str(Fraction(o))
    if isinstance(o, bytes):
        return "s:" + o.hex()
    if isinstance(o, PSLiteral):
        nm = o.name
        return "n:" + (nm if isinstance(nm, bytes) else nm.encode("utf-8")).hex()
    if isinstance(o, PSKeyword):
        return "k:" + o.name.hex()
    if isinstance(o, PDFObjRef):
        return f"R:{o.objid}"
    if isinstance(o, list):
        return "[" + " ".join(canon_impl(x) for x in o) + "]"
    if isinstance(o, dict):
        items = sorted(o.items())
        return "<<" + " ".join("n:" + k.encode("utf-8").hex() + " " + canon_impl(x) for k, x in items
                               if x is not None) + ">>"
    if isinstance(o, PDFStream):
        d = {k: x for k, x in o.attrs.items() if k not in ("Length", "Filter", "DecodeParms")}
        try:
            data = o.get_data()
        except Exception as e:  # noqa: BLE001
            return "S" + canon_impl(d) + ":EXC:" + type(e).__name__
        if strip_eol:
            data = data.rstrip(b"\r\n")
        return "S" + canon_impl(d) + ":" + data.hex()
    return "?:" + type(o).__name__


def vid(canon: str) -> str:
    """Short opaque value id sent to the Lean side (values are parameters of the model)."""
    return hashlib.blake2b(canon.encode(), digest_size=6).hexdigest()


NAMES = ["A", "Kind", "Type", "X1", "Next", "V", "Len", "Data.x", "k-9"]


def gen_value(rng, depth: int = 0, maxn: int = 40, allow_stream: bool = True) -> Any:
    r = rng.random()
    if depth == 0 and allow_stream and r < 0.12:
        d = [[rng.choice(NAMES), gen_value(rng, 2, maxn, False)] for _ in range(rng.randint(0, 2))]
        d = [[k, v] for k, v in dict((k, v) for k, v in d).items() if k not in ("Type", "Len") and v[0] != "z"]
        data = bytes(rng.choice(b"abc XYZ\n012()<>/") for _ in range(rng.randint(0, 30)))
        if rng.random() < 0.3:
            data = bytes(rng.randrange(256) for _ in range(rng.randint(1, 24)))
            if b"endstream" in data or b"obj" in data:
                data = b"\x00\x01\xfe"
        return ["S", d, data.hex()]
    if depth < 2 and r < 0.35:
        items = {}
        for _ in range(rng.randint(0, 4)):
            v = gen_value(rng, depth + 1, maxn, False)
            if v[0] != "z":
                items[rng.choice(NAMES)] = v
        return ["d", [[k, v] for k, v in items.items()]]
    if depth < 2 and r < 0.5:
        return ["a", [gen_value(rng, depth + 1, maxn, False) for _ in range(rng.randint(0, 4))]]
    if r < 0.6:
        return ["R", rng.randint(1, maxn)]
    if r < 0.72:
        return ["i", rng.choice([0, 1, -1, 7, 42, 255, 65536, -300, rng.randint(-10 ** 6, 10 ** 6)])]
    if r < 0.78:
        return ["r", str(Fraction(rng.randint(-400, 400), rng.choice([2, 4, 8])))]
    if r < 0.88:
        return ["s", bytes(rng.choice(b"abcdefgh XYZ019()%/<>[]") for _ in range(rng.randint(0, 12))).hex()]
    if r < 0.94:
        return ["n", rng.choice(NAMES + ["Obj", "endobj2", "R"])]
    if r < 0.97:
        return ["b", rng.random() < 0.5]
    return ["z"]


# --------------------------------------------------------------------------- cases

def gen_case(rng, small: bool = False) -> Dict[str, Any]:
    """A JSON-able case: abstract history + physical plan."""
    maxn = rng.choice([4, 8, 15, 40]) if not small else 6
    nrev = rng.choice([1, 2, 2, 3, 3, 4, 5, 6]) if not small else rng.randint(1, 3)
    revs = []
    defined: set = set()
    root = None
    info = None
    for k in range(nrev):
        defs: Dict[int, Any] = {}
        if k == 0:
            cnt = rng.randint(2, min(maxn, 14))
            nums = sorted(rng.sample(range(1, maxn + 1), cnt)) if rng.random() < 0.5 else list(range(1, cnt + 1))
        else:
            nums = []
            old = sorted(defined)
            for _ in range(rng.randint(0, 4)):
                nums.append(rng.choice(old))                      # override
            for _ in range(rng.randint(0, 3)):
                nums.append(rng.randint(1, maxn))                 # new or override
            if not nums:
                nums = [rng.choice(old)]
            nums = sorted(set(nums))
        for n in nums:
            defs[n] = gen_value(rng, 0, maxn)
        # catalog: a dictionary; chosen in revision 0, may move or be overridden later
        if root is None or (rng.random() < 0.2 and nums):
            root = rng.choice(nums)
        if root in defs or k == 0:
            defs[root] = ["d", [["Type", ["n", "Catalog"]], ["Marker", ["i", rng.randint(0, 999)]],
                                ["Pages", ["R", rng.randint(1, maxn)]]]]
        if info is None and rng.random() < 0.5:
            cand = [n for n in nums if n != root]
            if cand:
                info = rng.choice(cand)
        elif info is not None and rng.random() < 0.15:
            cand = [n for n in nums if n != root]
            if cand:
                info = rng.choice(cand)
        if info is not None and (info in defs or info not in defined):
            defs[info] = ["d", [["Title", ["s", bytes(rng.choice(b"abcdef ") for _ in range(5)).hex()]],
                                ["Rev", ["i", k]]]]
        defined |= set(defs)
        revs.append({"defs": {str(n): v for n, v in sorted(defs.items())}, "root": root, "info": info})
    # generation numbers (direct objects only; a number keeps its generation through the history)
    gens = {}
    if rng.random() < 0.35:
        for n in sorted(defined):
            if rng.random() < 0.25:
                gens[str(n)] = rng.choice([1, 2, 7, 255, 300])
    plans = []
    seen: set = set()
    mode = rng.random()
    # a bare indirect reference as the whole value of a compressed object is legal (was an open finding, now fixed)
    bare_ref = True
    for k, rv in enumerate(revs):
        nums = [int(n) for n in rv["defs"]]
        if mode < 0.15:
            form = "table"
        elif mode < 0.3:
            form = "stream"
        elif mode < 0.4:
            form = "hybrid"
        else:
            form = rng.choice(["table", "stream", "hybrid"])
        groups: List[List[int]] = []
        if form != "table" and rng.random() < 0.75:
            elig = [n for n in nums if rv["defs"][str(n)][0] != "S" and str(n) not in gens
                    and (bare_ref or rv["defs"][str(n)][0] != "R")]
            rng.shuffle(elig)
            if rng.random() < 0.3 and elig:
                elig = elig[: rng.randint(1, len(elig))]
            while elig:
                c = rng.randint(1, max(1, min(len(elig), 6)))
                groups.append(elig[:c])
                elig = elig[c:]
        w = None
        if rng.random() < 0.7:
            w = [rng.choice([0, 1, 1, 2]), rng.choice([1, 2, 3, 4]), rng.choice([0, 0, 1, 2])]
        # free rows only for numbers never defined so far (incl. this revision)
        lo, hi = min(nums), max(nums)
        never = [n for n in range(max(1, lo - 2), hi + 3) if n not in seen and n not in nums and n <= maxn]
        fill = [n for n in never if rng.random() < rng.choice([0.0, 0.3, 0.9])]
        plan = {"form": form, "groups": groups, "w": w, "fill_gaps": fill,
                "head": (k == 0) or rng.random() < 0.4,
                "full_index": k == 0 and rng.random() < 0.4,
                "omit_index": rng.random() < 0.6,
                "xfilter": rng.choice(["none", "flate", "flate+pred"]),
                "ofilter": rng.random() < 0.5,
                "containers_in_table": rng.random() < 0.5,
                "order_seed": rng.choice([0, rng.randint(1, 10 ** 6)]),
                "trailer_same_line": rng.random() < 0.3,
                "f_for_hidden": rng.random() < 0.7,
                "first_pad": rng.choice([0, 0, 1, 3]),
                # circular chain (the oldest section's /Prev points at itself): read_xref_from must stop
                "self_prev": k == 0 and rng.random() < 0.08,
                # damaged-but-harmless: /Index promises more rows than the stream holds (the extra numbers decode as
                # "in use at offset 0", which never parses, and get_objids must not report them)
                "index_overshoot": rng.choice([1, 2, 5]) if (form != "table" and rng.random() < 0.03) else 0,
                # DAMAGED, correspondence only: an object stream listed as stored in itself (getobj must not recurse forever)
                "self_stm": form == "stream" and bool(groups) and rng.random() < 0.04}
        if plan["full_index"]:
            # every number not defined anywhere yet is written free: allowed in revision 0 only
            pass
        plans.append(plan)
        seen |= set(nums)
    # physical shape of individual objects (all valid, all must read the same)
    layouts = []
    lay_mode = rng.random()
    for rv in revs:
        lays = {}
        for n, v in rv["defs"].items():
            if lay_mode < 0.35:
                continue
            lay = {}
            if rng.random() < 0.3:
                lay["compact"] = True
            if rng.random() < 0.2:
                lay["endobj_same"] = True
            if rng.random() < 0.1:
                lay["comment"] = True
            if v[0] == "S":
                if rng.random() < 0.5:
                    lay["endstream_eol"] = False
                if rng.random() < 0.3:
                    lay["skw_crlf"] = True
                if rng.random() < 0.3:
                    lay["length_ref"] = True
                    lay["length_first"] = rng.random() < 0.4
            if lay:
                lays[n] = lay
        layouts.append(lays)
    eol = rng.choice(["\n", "\n", "\r\n", "\r"])
    entry_eol = {"\n": rng.choice([" \n", " \n", "\r\n", " \r"]), "\r\n": "\r\n", "\r": " \r"}[eol]
    return {"revs": revs, "plans": plans, "gens": gens, "eol": eol, "entry_eol": entry_eol, "layouts": layouts,
            "tail": rng.choice(["normal", "normal", "noeol", "blank", "spaces"]),
            "aux_gap": rng.choice([0, 0, 1, 5])}


def build(case: Dict[str, Any]) -> Tuple[bytes, Dict[str, Any], List[CW.Rev]]:
    revs = [CW.Rev({int(n): to_pdf(v) for n, v in r["defs"].items()}, r["root"], r["info"]) for r in case["revs"]]
    plans = []
    for p in case["plans"]:
        pl = CW.Plan(form=p["form"], groups=p["groups"], w=tuple(p["w"]) if p["w"] else None, head=p["head"],
                     full_index=p["full_index"], omit_index=p["omit_index"], xfilter=p["xfilter"],
                     ofilter=p["ofilter"], containers_in_table=p["containers_in_table"],
                     order_seed=p["order_seed"], trailer_same_line=p["trailer_same_line"],
                     f_for_hidden=p["f_for_hidden"], first_pad=p["first_pad"], self_prev=p.get("self_prev", False),
                     index_overshoot=p.get("index_overshoot", 0), self_stm=p.get("self_stm", False))
        pl.fill_gaps = list(p["fill_gaps"])
        plans.append(pl)
    maxn = max(max(r.defs) for r in revs)
    gens = {int(n): g for n, g in case["gens"].items()}
    data, layout = CW.write_history(revs, plans, eol=case["eol"].encode(), entry_eol=case["entry_eol"].encode(),
                                    gens=gens, aux_base=maxn + 1 + case.get("aux_gap", 0), tail=case["tail"],
                                    layouts=[{int(n): l for n, l in lays.items()} for lays in case.get("layouts", [])])
    return data, layout, revs


# --------------------------------------------------------------------------- abstract spec (Python twin of Spec/Xref.lean)

def ext_history(revs: List[CW.Rev], layout: Dict[str, Any]) -> List[Dict[int, str]]:
    """Revisions as objnum -> canonical value, including the auxiliary objects the writer added
    (object-stream containers, cross-reference streams) in the revision that wrote them."""
    hist = [{n: canon_pdf(v) for n, v in r.defs.items()} for r in revs]
    for o in layout["objects"]:
        if o["kind"] in ("objstm", "xrefstm", "lenobj"):
            hist[o["rev"]][o["n"]] = canon_pdf(o["val"])
    return hist


def resolve(hist: List[Dict[int, str]], n: int) -> str:
    for rev in reversed(hist):
        if n in rev:
            return rev[n]
    return "E:notfound"


def expected_sections(layout: Dict[str, Any]) -> List[Tuple[str, List[int]]]:
    out = []
    for sec in reversed(layout["sections"]):
        for part in sec["parts"]:
            if part["kind"] == "table":
                out.append(("PDFXRef", sorted(e[0] for e in part["entries"] if e[3] == "n")))
            else:
                out.append(("PDFXRefStream", sorted(r[0] for r in part["rows"] if r[1] in (1, 2))))
    return out


# --------------------------------------------------------------------------- implementation adapter

class BufSiz:
    def __init__(self, n: int):
        self.n = n

    def __enter__(self):
        from pdfminer.psparser import PSBaseParser
        self.cls = PSBaseParser
        self.old = PSBaseParser.BUFSIZ
        PSBaseParser.BUFSIZ = self.n

    def __exit__(self, *a):
        self.cls.BUFSIZ = self.old


def exc_name(e: BaseException) -> str:
    from pdfminer.pdfexceptions import PDFObjectNotFound
    if isinstance(e, PDFObjectNotFound):
        return "E:notfound"
    return "EXC:" + type(e).__name__


class _Timeout(Exception):
    pass


class Watchdog:
    """A broken tree may loop forever (e.g. resolve1 on a reference cycle): bound every call."""

    def __init__(self, seconds: float = 10.0):
        self.seconds = seconds

    def _fire(self, *_a):
        raise _Timeout()

    def __enter__(self):
        import signal
        self.old = signal.signal(signal.SIGALRM, self._fire)
        signal.setitimer(signal.ITIMER_REAL, self.seconds)

    def __exit__(self, *a):
        import signal
        signal.setitimer(signal.ITIMER_REAL, 0)
        signal.signal(signal.SIGALRM, self.old)


def impl_observe(data: bytes, bufsiz: int, caching: bool, queries: List[int], strip_eol: bool = False) -> Dict[str, Any]:
    try:
        with Watchdog():
            return _impl_observe(data, bufsiz, caching, queries, strip_eol)
    except _Timeout:
        return {"open": "EXC:Timeout(10s)"}


def _impl_observe(data: bytes, bufsiz: int, caching: bool, queries: List[int], strip_eol: bool = False) -> Dict[str, Any]:
    from pdfminer.pdfdocument import PDFDocument
    from pdfminer.pdfparser import PDFParser
    res: Dict[str, Any] = {}
    with BufSiz(bufsiz):
        try:
            doc = PDFDocument(PDFParser(io.BytesIO(data)), caching=caching)
        except Exception as e:  # noqa: BLE001
            return {"open": exc_name(e)}
        res["open"] = "ok"
        res["catalog"] = canon_impl(doc.catalog, strip_eol)
        res["info"] = [canon_impl(d, strip_eol) for d in doc.info]
        secs = []
        for x in doc.xrefs:
            try:
                ids = list(x.get_objids())
                secs.append((type(x).__name__, sorted(ids), len(ids) != len(set(ids))))
            except Exception as e:  # noqa: BLE001
                secs.append((type(x).__name__, exc_name(e), False))
        res["sections"] = secs
        got = []
        for n in queries:
            try:
                got.append(canon_impl(doc.getobj(n), strip_eol))
            except Exception as e:  # noqa: BLE001
                got.append(exc_name(e))
        res["getobj"] = got
    return res


def find_xref_impl(data: bytes, bufsiz: int) -> str:
    from pdfminer.pdfdocument import PDFDocument, PDFNoValidXRef
    from pdfminer.pdfparser import PDFParser
    with BufSiz(bufsiz):
        p = PDFParser(io.BytesIO(data))
        try:
            return "P %d" % PDFDocument.find_xref(None, p)   # find_xref does not use self
        except PDFNoValidXRef:
            return "E novalidxref"
        except Exception as e:  # noqa: BLE001
            return "EXC:" + type(e).__name__


def revlines_impl(data: bytes, bufsiz: int, limit: int = 12) -> List[bytes]:
    from pdfminer.psparser import PSBaseParser
    with BufSiz(bufsiz):
        p = PSBaseParser(io.BytesIO(data))
        out = []
        for ln in p.revreadlines():
            out.append(ln)
            if len(out) >= limit:
                break
    return out


# --------------------------------------------------------------------------- property oracle on the implementation

def make_queries(rng, maxn: int) -> List[int]:
    qs = list(range(0, maxn + 3))
    rng.shuffle(qs)
    return qs + [rng.randint(0, maxn + 2) for _ in range(6)]


def spec_observe(revs: List[CW.Rev], layout: Dict[str, Any], queries: List[int]) -> Dict[str, Any]:
    hist = ext_history(revs, layout)
    last = revs[-1]
    return {"open": "ok",
            "catalog": resolve(hist, last.root),
            "info": [resolve(hist, last.info)] if last.info is not None else [],
            "sections": [(k, ids, False) for k, ids in expected_sections(layout)],
            "getobj": [resolve(hist, n) for n in queries]}


def first_diff(exp: Dict[str, Any], got: Dict[str, Any], queries: List[int]) -> Optional[Tuple[str, Any, Any]]:
    if got.get("open") != "ok":
        return ("open", "ok", got.get("open"))
    if got["catalog"] != exp["catalog"]:
        return ("catalog", exp["catalog"], got["catalog"])
    if got["info"] != exp["info"]:
        return ("info", exp["info"], got["info"])
    if [tuple(s) for s in got["sections"]] != [tuple(s) for s in exp["sections"]]:
        for i, (a, b) in enumerate(zip(exp["sections"], got["sections"])):
            if tuple(a) != tuple(b):
                return (f"objids", list(a), list(b))
        return ("sections", [s[0] for s in exp["sections"]], [s[0] for s in got["sections"]])
    for q, a, b in zip(queries, exp["getobj"], got["getobj"]):
        if a != b:
            return (f"getobj", {"n": q, "value": a}, {"n": q, "value": b})
    return None


def case_tags(case: Dict[str, Any], layout: Dict[str, Any], what: str, exp: Any, got: Any) -> Dict[str, Any]:
    multi_free = False
    for sec in layout["sections"]:
        for part in sec["parts"]:
            if part["kind"] == "stream" and part["index"] is not None and len(part["index"]) > 2 \
                    and any(r[1] == 0 for r in part["rows"]):
                multi_free = True
    return {"what": what, "forms": [p["form"] for p in case["plans"]], "multi_range_with_free": multi_free,
            "nrev": len(case["revs"]), "eol": case["eol"]}


def check_case(ctx: C.Ctx, case: Dict[str, Any], configs: List[Tuple[int, bool]], queries: List[int],
               shrink: bool = True) -> Optional[Tuple[str, Any, Any, Tuple[int, bool]]]:
    """Impl vs spec on one case.  Returns the first difference (what, expected, got, config)."""
    data, layout, revs = build(case)
    exp = spec_observe(revs, layout, queries)
    for (b, cach) in configs:
        got = impl_observe(data, b, cach, queries)
        d = first_diff(exp, got, queries)
        if d is not None:
            return (d[0], d[1], d[2], (b, cach))
    return None


WHAT = {
    "open": "PDFDocument could not be opened on a conformant multi-revision file",
    "catalog": "catalog is not the newest revision's Root object",
    "info": "info is not the newest revision's Info object",
    "objids": "get_objids() of a cross-reference section differs from the numbers that section defines",
    "sections": "the chain of cross-reference sections is not newest-first table -> XRefStm -> Prev",
    "getobj": "getobj(n) is not the value given by the newest revision defining n",
}


def shrink_case(case: Dict[str, Any], config: Tuple[int, bool], queries: List[int], what: str) -> Dict[str, Any]:
    """Greedy structural shrinking that keeps the same kind of failure."""
    def fails(c) -> bool:
        try:
            r = check_case(None, c, [config], queries)
        except Exception:  # noqa: BLE001
            return False
        return r is not None and r[0] == what

    cur = json.loads(json.dumps(case))
    budget = 250
    changed = True
    while changed and budget > 0:
        changed = False
        # drop the newest / oldest revisions
        for cut in ("last", "first"):
            while len(cur["revs"]) > 1 and budget > 0:
                c = json.loads(json.dumps(cur))
                if cut == "last":
                    c["revs"].pop()
                    c["plans"].pop()
                    if c.get("layouts"):
                        c["layouts"].pop()
                else:
                    # merging revision 0 into revision 1 keeps the history meaningful
                    merged = dict(c["revs"][0]["defs"])
                    merged.update(c["revs"][1]["defs"])
                    c["revs"][1]["defs"] = merged
                    c["revs"].pop(0)
                    c["plans"].pop(0)
                    if c.get("layouts"):
                        lays = dict(c["layouts"][0])
                        lays.update(c["layouts"][1])
                        c["layouts"][1] = lays
                        c["layouts"].pop(0)
                budget -= 1
                if fails(c):
                    cur = c
                    changed = True
                else:
                    break
        # drop single objects
        for k in range(len(cur["revs"])):
            for n in list(cur["revs"][k]["defs"]):
                if budget <= 0:
                    break
                if int(n) in (cur["revs"][k]["root"], cur["revs"][k]["info"]):
                    continue
                c = json.loads(json.dumps(cur))
                del c["revs"][k]["defs"][n]
                if not c["revs"][k]["defs"]:
                    continue
                budget -= 1
                if fails(c):
                    cur = c
                    changed = True
        # simplify the plans
        for k in range(len(cur["plans"])):
            for key, val in (("groups", []), ("w", None), ("fill_gaps", []), ("xfilter", "none"), ("ofilter", False),
                             ("order_seed", 0), ("first_pad", 0), ("full_index", False), ("head", False),
                             ("trailer_same_line", False), ("self_prev", False), ("index_overshoot", 0), ("form", "table")):
                if budget <= 0 or cur["plans"][k].get(key, val) == val:
                    continue
                c = json.loads(json.dumps(cur))
                c["plans"][k][key] = val
                budget -= 1
                if fails(c):
                    cur = c
                    changed = True
        for k in range(len(cur.get("layouts", []))):
            for n in list(cur["layouts"][k]):
                if budget <= 0:
                    break
                c = json.loads(json.dumps(cur))
                del c["layouts"][k][n]
                budget -= 1
                if fails(c):
                    cur = c
                    changed = True
        for key, val in (("gens", {}), ("eol", "\n"), ("tail", "normal"), ("aux_gap", 0)):
            if cur[key] != val and budget > 0:
                c = json.loads(json.dumps(cur))
                c[key] = val
                if key == "eol":
                    c["entry_eol"] = " \n"
                budget -= 1
                if fails(c):
                    cur = c
                    changed = True
        # simplify values
        for k in range(len(cur["revs"])):
            for n, v in list(cur["revs"][k]["defs"].items()):
                if budget <= 0 or v == ["i", k] or int(n) in (cur["revs"][k]["root"], cur["revs"][k]["info"]):
                    continue
                c = json.loads(json.dumps(cur))
                c["revs"][k]["defs"][n] = ["i", k]
                budget -= 1
                if fails(c):
                    cur = c
                    changed = True
    return cur


_REPORTED: Dict[str, int] = {}


def report_failure(ctx: C.Ctx, case: Dict[str, Any], r, queries: List[int]) -> None:
    what, exp, got, config = r
    # bounded work on a broken tree: shrink the first two failures of each kind, record a few more as found
    k = _REPORTED.get(what, 0)
    _REPORTED[what] = k + 1
    if k >= 8:
        return
    small = shrink_case(case, config, queries, what) if (k < 2 and ctx.time_left()) else case
    r2 = check_case(None, small, [config], queries)
    if r2 is None or r2[0] != what:
        small, r2 = case, r
    _, layout, _ = build(small)
    ctx.fail(C.Failure(WHAT.get(what, what),
                       {"kind": "history", "case": small, "bufsiz": config[0], "caching": config[1], "queries": queries},
                       r2[1], r2[2], case_tags(small, layout, what, r2[1], r2[2])))



# --------------------------------------------------------------------------- Lean side (tie + hypothesis + spec)

def lean_id(canon: str) -> str:
    return format(int(vid(canon), 16), "x")


def lean_val(o: Dict[str, Any]) -> str:
    """Value of a written object as the driver reads it."""
    if o["kind"] == "objstm":
        toks = ["n%d" % k for k in o["pairs"]] + ["v" + lean_id(canon_pdf(v)) for v in o["vals"]]
        return "o%s/%d/%s" % (lean_id(canon_pdf(o["val"])), o["N"], ";".join(toks) if toks else "-")
    return "p" + lean_id(canon_pdf(o["val"]))


def opt(x) -> str:
    return "-" if x is None else str(x)


def csv(xs) -> str:
    return ",".join(str(x) for x in xs) if xs else "-"


def lean_setup_lines(data: bytes, layout: Dict[str, Any], revs: List[CW.Rev]) -> List[str]:
    lines = ["reset", "data " + C.hx(data)]
    for sec in layout["sections"]:
        for part in sec["parts"]:
            tr = f"{opt(part['prev'])} {opt(part['xrefstm'])} {opt(part['root'])} {opt(part['info'])}"
            if part["kind"] == "table":
                lines.append(f"sec {part['pos']} t {part['after_kw']} {tr}")
            else:
                idx = "-" if part["index"] is None else csv(part["index"])
                lines.append(f"sec {part['pos']} s {part['size']} {idx} {csv(part['w'])} {C.hx(part['data'])} {tr}")
    byn: Dict[Tuple[int, int], Dict[str, Any]] = {}
    for o in layout["objects"]:
        lines.append(f"obj {o['pos']} {o['n']} {o['gen']} {lean_val(o)}")
        lines.append(f"end {o['pos']} {o['end']}")
        byn[(o["rev"], o["n"])] = o
    # history NEWEST FIRST, one (sub-)revision per cross-reference section: a hybrid revision is
    # split into its table part and its stream part
    for sec in reversed(layout["sections"]):
        k = sec["rev"]
        rev = revs[k]
        for part in sec["parts"]:
            if part["kind"] == "table":
                nums = [e[0] for e in part["entries"] if e[3] == "n"]
            else:
                nums = [r[0] for r in part["rows"] if r[1] in (1, 2)]
            defs = []
            for n in nums:
                if (k, n) in byn:
                    defs.append(f"{n}:{lean_val(byn[(k, n)])}")
                else:
                    defs.append(f"{n}:p{lean_id(canon_pdf(rev.defs[n]))}")
            lines.append(f"rev {rev.root} {opt(rev.info)} " + " ".join(defs))
    return lines


def written_plan_lines(layout: Dict[str, Any], revs: List[CW.Rev]) -> List[str]:
    """The file as a plan for the Lean structural writer (Spec/XrefHist.lean): trailers of the
    (sub-)revisions oldest first, the body objects in file order as (gap, length) — never absolute
    positions — tagged with the (sub-)revision that lists them, and the object-stream members."""
    lines: List[str] = []
    sub_of: Dict[Tuple[int, int], int] = {}
    members: List[str] = []
    j = 0
    for sec in layout["sections"]:
        k = sec["rev"]
        rev = revs[k]
        direct = {o["n"] for o in layout["objects"] if o["rev"] == k}
        for part in reversed(sec["parts"]):
            part["_sub"] = j
            lines.append(f"wtr {rev.root} {opt(rev.info)}")
            if part["kind"] == "table":
                for e in part["entries"]:
                    if e[3] == "n":
                        sub_of[(k, e[0])] = j
            else:
                for r in part["rows"]:
                    if r[1] == 1 or (r[1] == 2 and r[0] in direct):
                        sub_of[(k, r[0])] = j
                    elif r[1] == 2:
                        members.append(f"wobj m {j} {r[0]} p{lean_id(canon_pdf(rev.defs[r[0]]))} {r[2]} {r[3]}")
            j += 1
    cur = 0
    for o in sorted(layout["objects"], key=lambda o: o["pos"]):
        sub = sub_of.get((o["rev"], o["n"]), 999999)
        lines.append(f"wobj d {sub} {o['n']} {lean_val(o)} {o['pos'] - cur} {o['end'] - o['pos']} {o['gen']}")
        cur = o["end"]
    return lines + members



def to_lean_res(canon: str, containers: Dict[str, str]) -> str:
    """Implementation / Python-spec answer in the driver's output vocabulary."""
    if canon.startswith("E:"):
        return canon
    if canon.startswith("EXC:"):
        return canon
    if canon in containers:
        return "o" + lean_id(canon)
    return "p" + lean_id(canon)


def norm_lean(tok: str) -> str:
    if tok.startswith("i") and tok[1:].isdigit():
        return "p" + lean_id("i:" + tok[1:])
    return tok


def impl_offsets(data: bytes) -> List[str]:
    """PDFXRef.offsets of every classic section, newest first, in the driver's `q.table` format."""
    from pdfminer.pdfdocument import PDFDocument, PDFXRef, PDFXRefFallback
    from pdfminer.pdfparser import PDFParser
    doc = PDFDocument(PDFParser(io.BytesIO(data)))
    out = []
    for x in doc.xrefs:
        if isinstance(x, PDFXRef) and not isinstance(x, PDFXRefFallback):
            out.append(" ".join(f"{n}={p}:{g}" for n, (_s, p, g) in x.offsets.items()) or "-")
    return out


def tie_case(ctx: C.Ctx, case: Dict[str, Any], data: bytes, layout: Dict[str, Any], revs: List[CW.Rev],
             queries: List[int], exp: Dict[str, Any], bufs: List[int]) -> None:
    if ctx.driver is None:
        return
    containers = {canon_pdf(o["val"]): 1 for o in layout["objects"] if o["kind"] == "objstm"}
    qs = csv(queries)
    lines = lean_setup_lines(data, layout, revs) + written_plan_lines(layout, revs)
    nsetup = len(lines)
    bound = layout["maxn"] + 3
    qlines = ["q.open 4096", "q.sections", "q.rootinfo", f"q.queries 0 {qs}", f"q.queries 1 {qs}",
              f"q.spec {qs}", "q.specrootinfo", "q.specinuse", f"q.repok {bound}"]
    for b in bufs:
        qlines += [f"q.findxref {b}", f"q.revlines {b} 8"]
    tparts = [part for sec in reversed(layout["sections"]) for part in sec["parts"] if part["kind"] == "table"]
    for part in tparts:
        qlines.append(f"q.table {part['after_kw']}")
    # the Lean twins of the writer: same bytes for every table text / xref-stream payload
    eol_name = {"\n": "lf", "\r\n": "crlf", "\r": "cr"}[case["eol"]]
    ee_name = {" \n": "splf", "\r\n": "crlf", " \r": "spcr"}[case["entry_eol"]]
    twins = []
    tlists: List[str] = []
    slists: List[str] = []
    for sec in layout["sections"]:
        for part in sec["parts"]:
            if part["kind"] == "table":
                subs = []
                ents = {e[0]: e for e in part["entries"]}
                for (s0, c0) in CW.runs(list(ents)):
                    subs.append("%d:%d:%d:%s" % (s0, len(str(s0)), len(str(c0)),
                                                 ",".join("%d/%d/%s" % ents[n][1:4] for n in range(s0, s0 + c0))))
                q = f"q.render {eol_name} {ee_name} {';'.join(subs) if subs else '-'}"
                twins.append((q, C.hx(data[part["after_kw"] + len(case["eol"]):part["trailer_at"]])))
                tlists.append(f"q.tablelists {part['_sub']} {';'.join(subs) if subs else '-'}")
            else:
                q = "q.encrows %s %s" % (csv(part["w"]), ",".join("%d/%d/%d" % r[1:4] for r in part["rows"]) or "-")
                twins.append((q, C.hx(part["data"])))
                ia = part["index"] if part["index"] is not None else [0, part["size"]]
                slists.append("q.streamlists %d %s %s" % (part["_sub"], csv(ia),
                                                          ",".join("%d/%d/%d" % r[1:4] for r in part["rows"]) or "-"))
    qlines += [q for q, _ in twins]
    # the tail of the file (startxref / offset / %%EOF) as the Lean writer renders it: C02_find_xref_written
    xp = layout["startxref"]
    qtail = f"q.tail {case.get('tail', 'normal')} {eol_name} {len(str(xp))} {xp}"
    qlines.append(qtail)
    qwritten = f"q.written 0 {bound}"
    qlines.append(qwritten)
    qlines.append("q.chain")
    qlines += tlists + slists
    out = ctx.driver.ask(lines + qlines)
    inp = {"kind": "history", "case": case, "queries": queries}
    if any(o != "ok" for o in out[:nsetup]):
        ctx.disagree("setup", inp, "ok", [o for o in out[:nsetup] if o != "ok"][:3])
        return
    r = dict(zip(qlines, out[nsetup:]))
    for q, want in twins:
        ctx.branch("twin:" + q.split(" ")[0])
        if r[q] != want:
            ctx.disagree("writer-twin " + q.split(" ")[0], inp, want[:200], r[q][:200])
    ctx.branch("twin:q.tail:" + case.get("tail", "normal") + ":" + eol_name)
    thex, _, tfits = r[qtail].partition(" ")
    if tfits != "true" or not data.endswith(bytes.fromhex(thex if thex != "-" else "")) \
            or data.rfind(b"startxref") != len(data) - len(thex) // 2:
        ctx.disagree("writer-twin q.tail", inp, C.hx(data[-60:]), r[qtail][:200])
    # the Lean FILE writer (C02_written_rep / C02_written_newest_wins): side conditions hold, and its store,
    # entry lists and history are those of this file
    special = any(p.get("index_overshoot") or p.get("self_stm") for p in case["plans"])
    ctx.branch("twin:q.written:" + r[qwritten].replace(" ", ",") + (":index-overshoot/self-stm" if special else ""))
    if r[qwritten] != "true true true true" and not special:
        ctx.disagree("writer-twin q.written", inp, "true true true true", r[qwritten])
    # hypothesis of C02_table_lists: every classic table holds the same (number, entry) pairs as the Lean writer's list
    for q in tlists:
        ctx.branch("hyp:tablelists:" + r[q])
        if r[q] != "true":
            ctx.disagree("q.tablelists", inp, "true", r[q])
    # hypotheses of C02_stream_lists: ranges disjoint, in-use rows = the Lean writer's entry list, enough rows
    for q in slists:
        ctx.branch("hyp:streamlists:" + r[q].replace(" ", ",") + (":index-overshoot/self-stm" if special else ""))
        if r[q] != "true true" and not special:
            ctx.disagree("q.streamlists", inp, "true true", r[q])
    # hypothesis of C02_chain_checked: the file's sections form a chain of plain / hybrid revisions (circular /Prev of the
    # oldest revision included)
    selfprev = any(p.get("self_prev") for p in case["plans"])
    ctx.branch("hyp:chain:" + r["q.chain"].replace(" ", ",") + (":self-prev" if selfprev else ""))
    if r["q.chain"] != "true true true":
        ctx.disagree("q.chain", inp, "true true true", r["q.chain"])
    try:
        with Watchdog(30.0):
            _tie_compare(ctx, inp, data, layout, queries, exp, bufs, r, qs, bound, tparts, containers)
    except _Timeout:
        ctx.disagree("timeout", inp, "EXC:Timeout(30s)", "-")


def _tie_compare(ctx, inp, data, layout, queries, exp, bufs, r, qs, bound, tparts, containers) -> None:
    impl0 = impl_observe(data, 4096, False, queries)
    impl1 = impl_observe(data, 4096, True, queries)

    def cmp(op: str, impl: Any, model: Any) -> None:
        ctx.branch("tie:" + op.split(" ")[0])
        if impl != model:
            ctx.disagree(op, inp, impl, model)

    if impl0.get("open") == "ok":
        cmp("q.open", f"ok {len(impl0['sections'])}", r["q.open 4096"])
        cmp("q.sections", " ".join(("T:" if k == "PDFXRef" else "S:") + csv(ids) for (k, ids, _d) in impl0["sections"]),
            r["q.sections"])
        cmp("q.rootinfo", "root " + to_lean_res(impl0["catalog"], containers) + " info " +
            (",".join(to_lean_res(c, containers) for c in impl0["info"]) or "-"),
            # dict_value() of a Root/Info reference that resolves to nothing is the empty dictionary (non-strict mode)
            r["q.rootinfo"].replace("E:notfound", "p" + lean_id("<<>>")))
        cmp("q.queries-nocache", [to_lean_res(c, containers) for c in impl0["getobj"]],
            [norm_lean(t) for t in r[f"q.queries 0 {qs}"].split(" ")])
        cmp("q.queries-cache", [to_lean_res(c, containers) for c in impl1.get("getobj", [impl1.get("open")])],
            [norm_lean(t) for t in r[f"q.queries 1 {qs}"].split(" ")])
        try:
            offs = impl_offsets(data)
        except Exception as e:  # noqa: BLE001
            offs = ["EXC:" + type(e).__name__]
        for part, io_ in zip(tparts, offs):
            got = r[f"q.table {part['after_kw']}"]
            cmp("q.table", f"ok {part['trailer_at']} {io_}", got)
    else:
        cmp("q.open", impl0.get("open"), r["q.open 4096"])
    # Lean spec == Python twin of the spec (so the oracle used on the implementation is the Lean one)
    cmp("q.spec", [to_lean_res(c, containers) for c in exp["getobj"]], r[f"q.spec {qs}"].split(" "))
    cmp("q.specrootinfo", "root " + to_lean_res(exp["catalog"], containers) + " info " +
        (to_lean_res(exp["info"][0], containers) if exp["info"] else "-"), r["q.specrootinfo"])
    cmp("q.specinuse", " ".join(csv(ids) for (_k, ids, _d) in exp["sections"]), r["q.specinuse"])
    # the theorems' hypothesis holds for this file
    overshoot = any(p.get("index_overshoot") or p.get("self_stm") for p in inp["case"]["plans"])
    ctx.branch("hyp:repOK:" + r[f"q.repok {bound}"] + (":index-overshoot" if overshoot else ""))
    if r[f"q.repok {bound}"] != "true" and not overshoot:
        ctx.disagree("q.repok", inp, "true", r[f"q.repok {bound}"])
    for b in bufs:
        cmp(f"q.findxref {b}", find_xref_impl(data, b), r[f"q.findxref {b}"])
        cmp(f"q.revlines {b}", ",".join(C.hx(x) for x in revlines_impl(data, b, 8)), r[f"q.revlines {b} 8"])

# --------------------------------------------------------------------------- damaged single-revision files

def gen_damaged(rng) -> Dict[str, Any]:
    texts = [bytes(rng.choice(b"abcdefghij KLMNOP") for _ in range(rng.randint(1, 12))).decode() for _ in range(rng.randint(1, 3))]
    extra = {str(n): gen_value(rng, 0, 30, allow_stream=True) for n in rng.sample(range(20, 31), rng.randint(0, 4))}
    damage = rng.choice(["startxref-num", "startxref-num", "startxref-nondigit", "table-line",
                         "table-header", "table-truncated", "xref-keyword", "table-offsets"])
    # physical shape of the objects of the body (the body scan must cope with every valid one)
    layouts: Dict[str, Dict[str, Any]] = {}
    stream_nums = [str(10 + 2 * i) for i in range(len(texts))] + [k for k, v in extra.items() if v[0] == "S"]
    mode = rng.random()
    for n in ["1", "2", "3"] + [str(11 + 2 * i) for i in range(len(texts))] + list(extra) + stream_nums:
        if mode < 0.3:
            break
        lay = dict(layouts.get(n, {}))
        if rng.random() < 0.3:
            lay["compact"] = True
        if rng.random() < 0.2:
            lay["endobj_same"] = True
        if rng.random() < 0.1:
            lay["comment"] = True
        if n in stream_nums:
            if rng.random() < 0.5:
                lay["endstream_eol"] = False
            if rng.random() < 0.3:
                lay["skw_crlf"] = True
            if rng.random() < 0.25:
                lay["length_ref"] = True
                lay["length_first"] = rng.random() < 0.4
        if lay:
            layouts[n] = lay
    return {"texts": texts, "extra": extra, "eol": rng.choice(["\n", "\r\n", "\r"]), "damage": damage,
            "arg": rng.randint(0, 10 ** 6), "flate": rng.random() < 0.4, "layouts": layouts,
            "order_seed": rng.choice([0, 0, rng.randint(1, 10 ** 6)]), "full": rng.random() < 0.7,
            "gens": {k: rng.choice([1, 3]) for k in extra if extra[k][0] != "S" and rng.random() < 0.15}}


def build_damaged(dc: Dict[str, Any]) -> Tuple[bytes, bytes, Dict[int, Any], Dict[str, Any]]:
    """Returns (intact file, damaged file, objects a reader must see, layout of the intact file)."""
    import re
    import zlib
    contents = []
    for i, t in enumerate(dc["texts"]):
        c = b"BT /F1 12 Tf 72 %d Td (%s) Tj ET" % (700 - 20 * i, t.encode())
        contents.append(c)
    objs: Dict[int, Any] = {1: {"Type": "Catalog", "Pages": W.Ref(2)}, 3: dict(W.HELVETICA)}
    kids = []
    n = 10
    for c in contents:
        if dc.get("flate"):
            objs[n] = W.Stream({"Filter": "FlateDecode"}, zlib.compress(c))
        else:
            objs[n] = W.Stream({}, c)
        objs[n + 1] = {"Type": "Page", "Parent": W.Ref(2), "Contents": W.Ref(n),
                       "Resources": {"Font": {"F1": W.Ref(3)}}, "MediaBox": [0, 0, 612, 792]}
        kids.append(W.Ref(n + 1))
        n += 2
    objs[2] = {"Type": "Pages", "Kids": kids, "Count": len(kids)}
    for k, v in dc["extra"].items():
        objs[int(k)] = to_pdf(v)
    plain = dict(objs)          # what a reader must see (stream data decoded)
    for i, c in enumerate(contents):
        plain[10 + 2 * i] = W.Stream({}, c)
    eol = dc["eol"].encode()
    plan = CW.Plan(form="table", head=True, full_index=dc.get("full", True), order_seed=dc.get("order_seed", 0))
    ee = {"\n": b" \n", "\r\n": b"\r\n", "\r": b" \r"}[dc["eol"]]
    good, layout = CW.write_history([CW.Rev(objs, 1, None)], [plan], eol=eol, entry_eol=ee,
                                    gens={int(k): g for k, g in dc.get("gens", {}).items()},
                                    layouts=[{int(n): l for n, l in dc.get("layouts", {}).items()}])
    for o in layout["objects"]:
        if o["kind"] == "lenobj":
            plain[o["n"]] = o["val"]
    bad = bytearray(good)
    arg = dc["arg"]
    sx = good.rfind(b"startxref")
    xr = good.rfind(b"xref", 0, sx)
    tr = good.find(b"trailer", xr)
    m = re.compile(rb"startxref[\r\n]+(\d+)").search(good, sx)
    dmg = dc["damage"]
    if dmg == "startxref-num" and dc.get("startxref_value") is not None:
        bad[m.start(1):m.end(1)] = str(dc["startxref_value"]).encode()      # corpus files pin the offset itself
    elif dmg == "startxref-num":
        if arg % 3 == 0:
            # land on the start of some integer of the file (read_xref_from then takes the xref-stream branch)
            starts = [mm.start() for mm in re.finditer(rb"(?<![0-9])[0-9]", good)]
            # ... preferably one shortly before a `stream` keyword (inside or at the end of a stream dictionary,
            # e.g. the `n 0 R` of an indirect /Length): the tokens from there to `stream` are not a stream object
            near = [p for p in starts if 0 <= good.find(b"stream", p) - p < 60]
            if near and (arg // 3) % 2 == 0:
                starts = near
            new = str(starts[(arg // 3) % len(starts)]).encode()
        elif arg % 3 == 1:
            # land inside the cross-reference section itself (its tail parses as an empty table)
            new = str(xr + (arg // 3) % (sx - xr)).encode() if arg % 2 else str(tr - 1 - (arg // 3) % 8).encode()
        else:
            new = str((arg // 3) % (len(good) + 50)).encode()
        if int(new) == int(m.group(1)):
            new = b"7"
        bad[m.start(1):m.end(1)] = new
    elif dmg == "startxref-nondigit":
        bad[m.start(1):m.end(1)] = b"12x4"
    elif dmg == "table-line":
        # remove one field of one entry line
        lines = [mm.start() for mm in re.finditer(rb"\d{10} \d{5} [nf]", good[xr:tr])]
        at = xr + lines[arg % len(lines)]
        bad[at + 10:at + 16] = b""
    elif dmg == "table-header":
        mm = re.compile(rb"xref[\r\n]+(\d+) (\d+)").search(good, xr)
        bad[mm.start(1):mm.end(2)] = b"0 x" if arg % 2 else b"0"
    elif dmg == "table-truncated":
        # the table claims more entries than it has: the loop runs into `trailer`
        mm = re.compile(rb"xref[\r\n]+(\d+) (\d+)").search(good, xr)
        bad[mm.start(2):mm.end(2)] = str(int(mm.group(2)) + 1 + arg % 3).encode()
    elif dmg == "xref-keyword":
        bad[xr:xr + 4] = b"xrfe"
    elif dmg == "table-offsets":
        # well-formed table whose offsets are wrong (e.g. the file went through an EOL conversion)
        delta = 1 + arg % 9
        for mm in re.finditer(rb"(\d{10}) (\d{5}) n", good[xr:tr]):
            v = int(mm.group(1)) + delta
            bad[xr + mm.start(1):xr + mm.end(1)] = b"%010d" % v
    return good, bytes(bad), plain, layout


def extract_text_impl(data: bytes) -> str:
    from pdfminer.high_level import extract_text
    try:
        with Watchdog():
            return "T:" + extract_text(io.BytesIO(data))
    except _Timeout:
        return "EXC:Timeout(10s)"
    except Exception as e:  # noqa: BLE001
        return "EXC:" + type(e).__name__


def check_damaged(ctx: Optional[C.Ctx], dc: Dict[str, Any], bufsiz: int = 4096):
    good, bad, objs, _layout = build_damaged(dc)
    nums = sorted(objs)
    exp = {n: canon_pdf(objs[n]) for n in nums}
    with BufSiz(bufsiz):
        text_good = extract_text_impl(good)
        text_bad = extract_text_impl(bad)
    got = impl_observe(bad, bufsiz, True, nums, strip_eol=True)
    exp_s = {n: (canon_pdf(W.Stream(o.d, o.data.rstrip(b"\r\n"))) if isinstance(o, W.Stream) else exp[n])
             for n, o in objs.items()}
    if got.get("open") != "ok":
        return ("damaged-open", "ok", got.get("open"), {"fallback_used": None})
    extra = {"fallback_used": any(s[0] == "PDFXRefFallback" for s in got["sections"])}
    for n, g in zip(nums, got["getobj"]):
        if g != exp_s[n]:
            return ("damaged-getobj", {"n": n, "value": exp_s[n]}, {"n": n, "value": g}, extra)
    ids = sorted(set().union(*[set(s[1]) for s in got["sections"] if isinstance(s[1], list)])) if got["sections"] else []
    if not set(nums) <= set(ids):
        return ("damaged-objids", nums, ids, extra)
    if text_bad != text_good or not text_good.startswith("T:"):
        return ("damaged-text", text_good, text_bad, extra)
    return None



def fallback_impl(data: bytes, bufsiz: int) -> str:
    """PDFXRefFallback.load on the raw file, in the driver's `q.fallback` format."""
    from pdfminer.pdfdocument import PDFXRefFallback
    from pdfminer.pdfparser import PDFParser

    class _Doc:
        decipher = None

    with BufSiz(bufsiz):
        p = PDFParser(io.BytesIO(data))
        p.set_document(_Doc())      # type: ignore[arg-type]
        p.fallback = True
        x = PDFXRefFallback()
        try:
            x.load(p)
        except Exception as e:  # noqa: BLE001
            return "EXC:" + type(e).__name__
    return " ".join(f"{n}={('c%d' % s_) if s_ is not None else p_}:{g}" for n, (s_, p_, g) in x.offsets.items()) or "-"


def table_impl(data: bytes, xref_pos: int, bufsiz: int) -> str:
    """read_xref_from's classic branch at `xref_pos`, in the driver's `q.table` format (offsets only)."""
    from pdfminer.pdfdocument import PDFNoValidXRef, PDFXRef
    from pdfminer.pdfparser import PDFParser
    with BufSiz(bufsiz):
        p = PDFParser(io.BytesIO(data))
        p.seek(xref_pos)
        p.reset()
        try:
            (_pos, tok) = p.nexttoken()
            if tok is p.KEYWORD_XREF:
                p.nextline()
            x = PDFXRef()
            x.load(p)
        except PDFNoValidXRef:
            return "E novalidxref"
        except Exception as e:  # noqa: BLE001
            return "EXC:" + type(e).__name__
    return " ".join(f"{n}={p_}:{g}" for n, (_s, p_, g) in x.offsets.items()) or "-"


def tie_damaged(ctx: C.Ctx, dc: Dict[str, Any], bufsiz: int) -> None:
    """Model vs implementation on the body scan and on the (possibly damaged) table text."""
    import re
    if ctx.driver is None:
        return
    good, bad, _objs, layout = build_damaged(dc)
    line_re = re.compile(rb"[^\r\n]*(?:\r\n|\r|\n)")
    for label, data in (("good", good), ("bad", bad)):
        lines = ["reset", "data " + C.hx(data)]
        starts = {}
        for o in layout["objects"]:       # the body is untouched by the damage: same offsets in both files
            lines.append(f"obj {o['pos']} {o['n']} {o['gen']} p1")
            lines.append(f"end {o['pos']} {o['end']}")
            starts[o["pos"]] = o
        # the body as items (plain lines / whole objects) up to the trailer line: hypothesis of C02_fallback
        pos = 0
        while pos < len(data):
            if pos in starts:
                o = starts[pos]
                lines.append("item o %d %d %s" % (o["n"], o["gen"], C.hx(data[pos:o["end"]])))
                pos = o["end"]
                continue
            lm = line_re.match(data, pos)
            if lm is None or lm.group(0).startswith(b"trailer"):
                break
            lines.append("item l " + C.hx(lm.group(0)))
            pos = lm.end()
        nset = len(lines)
        sx = data.rfind(b"startxref")
        xr = data.rfind(b"xref", 0, sx)
        q = ["q.fallback", "q.itemsok"]
        is_kw = data[xr:xr + 4] == b"xref" and dc["damage"] != "xref-keyword"
        if is_kw:
            q.append(f"q.table {xr + 4}")
        out = ctx.driver.ask(lines + q)
        inp = {"kind": "damaged", "case": dc, "bufsiz": bufsiz, "file": label}
        if any(o != "ok" for o in out[:nset]):
            ctx.disagree("setup", inp, "ok", out[:nset][:3])
            continue
        fb = out[nset]
        impl_fb = fallback_impl(data, bufsiz)
        ctx.branch("tie:q.fallback")
        model_fb = fb.split(" ", 2)[2] if fb.startswith("ok ") and fb.count(" ") >= 2 else fb
        if impl_fb != model_fb:
            ctx.disagree("q.fallback", inp, impl_fb, fb)
        ctx.branch("hyp:itemsOK:" + out[nset + 1].replace(" ", ","))
        if out[nset + 1] != "true true true true":
            ctx.disagree("q.itemsok", inp, "true true true true", out[nset + 1])
        if is_kw:
            tb = out[nset + 2]
            impl_tb = table_impl(data, xr, bufsiz)
            ctx.branch("tie:q.table-damaged:" + ("ok" if tb.startswith("ok") else "error"))
            model_tb = tb.split(" ", 2)[2] if tb.startswith("ok ") and tb.count(" ") >= 2 else tb
            if impl_tb != model_tb:
                ctx.disagree("q.table", inp, impl_tb, tb)

WHAT.update({
    "damaged-open": "damaged single-revision file could not be opened (no body-scan recovery)",
    "damaged-getobj": "damaged single-revision file: the body scan does not return an object as written",
    "damaged-objids": "damaged single-revision file: the body scan does not report every object number",
    "damaged-text": "damaged single-revision file: extracted text differs from the intact file",
})


def report_damaged(ctx: C.Ctx, dc: Dict[str, Any], r, bufsiz: int) -> None:
    what = r[0]
    cur = json.loads(json.dumps(dc))
    k = _REPORTED.get(what + dc["damage"], 0)
    _REPORTED[what + dc["damage"]] = k + 1
    if k >= 3:
        ctx.fail(C.Failure(WHAT[what], {"kind": "damaged", "case": cur, "bufsiz": bufsiz}, r[1], r[2],
                           dict({"what": what, "damage": cur["damage"], "eol": cur["eol"]}, **r[3])))
        return
    # shrink: drop extra objects, texts
    for k in list(cur["extra"]):
        c = json.loads(json.dumps(cur))
        del c["extra"][k]
        r2 = check_damaged(None, c, bufsiz)
        if r2 is not None and r2[0] == what:
            cur = c
    for k in list(cur.get("layouts", {})):
        for key in list(cur["layouts"][k]):
            c = json.loads(json.dumps(cur))
            del c["layouts"][k][key]
            r2 = check_damaged(None, c, bufsiz)
            if r2 is not None and r2[0] == what:
                cur = c
    for key, val in (("gens", {}), ("order_seed", 0), ("full", True), ("flate", False)):
        if cur.get(key, val) != val:
            c = json.loads(json.dumps(cur))
            c[key] = val
            r2 = check_damaged(None, c, bufsiz)
            if r2 is not None and r2[0] == what:
                cur = c
    while len(cur["texts"]) > 1:
        c = json.loads(json.dumps(cur))
        c["texts"].pop()
        r2 = check_damaged(None, c, bufsiz)
        if r2 is not None and r2[0] == what:
            cur = c
        else:
            break
    r2 = check_damaged(None, cur, bufsiz) or r
    ctx.fail(C.Failure(WHAT[what], {"kind": "damaged", "case": cur, "bufsiz": bufsiz}, r2[1], r2[2],
                       dict({"what": what, "damage": cur["damage"], "eol": cur["eol"]}, **r2[3])))


# --------------------------------------------------------------------------- classifiers

def has_bare_ref_member(case: Dict[str, Any]) -> bool:
    """Some object stream of the written file has a member whose whole value is an indirect reference."""
    for rv, p in zip(case["revs"], case["plans"]):
        if p["form"] == "table":
            continue
        for g in p["groups"]:
            for n in g:
                v = rv["defs"].get(str(n))
                if v is not None and v[0] == "R" and str(n) not in case["gens"]:
                    return True
    return False


CLASSIFIERS = {
    # open: the damaged cross-reference data still parses, so PDFNoValidXRef is never raised and the body is not scanned
    "c02_damaged_xref_parses_no_rescan": lambda f: f.input.get("kind") == "damaged"
    and f.tags.get("damage") in ("table-offsets", "startxref-num") and f.tags.get("fallback_used") is False
    and f.tags.get("what") in ("damaged-getobj", "damaged-objids", "damaged-text"),
}


# --------------------------------------------------------------------------- run

def run_history_cases(ctx: C.Ctx) -> None:
    rng = ctx.rng
    n = ctx.n(220, 6000)
    for i in range(n):
        if not ctx.time_left():
            ctx.notes.append(f"history cases stopped at {i}/{n} (time budget)")
            break
        case = gen_case(rng, small=(i % 5 == 0))
        data, layout, revs = build(case)
        queries = make_queries(rng, layout["maxn"])
        # every case: default buffer with both caching flags + two small buffer sizes
        bs = rng.sample(BUFSIZES[:-1], 2)
        configs = [(4096, True), (4096, False), (bs[0], True), (bs[1], False)]
        nontrivial = len(case["revs"]) > 1 or any(p["groups"] for p in case["plans"]) or \
            any(p["form"] != "table" for p in case["plans"])
        ctx.case(("hist", json.dumps(case, sort_keys=True)), nontrivial,
                 sample={"forms": [p["form"] for p in case["plans"]], "nrev": len(case["revs"]),
                         "objects": [len(r["defs"]) for r in case["revs"]], "eol": case["eol"], "bytes": len(data)})
        for p in case["plans"]:
            ctx.branch("form:" + p["form"])
        ctx.branch("eol:" + repr(case["eol"]))
        ctx.branch("tail:" + case["tail"])
        for lays in case.get("layouts", []):
            for lay in lays.values():
                for key, val in lay.items():
                    if key != "length_first":
                        ctx.branch("layout:%s=%s" % (key, val))
        if case["plans"][0].get("self_prev"):
            ctx.branch("circular-prev")
        for sec in layout["sections"]:
            for part in sec["parts"]:
                if part["kind"] == "stream":
                    ctx.branch("W:%d,%d,%d" % tuple(part["w"]))
                    ctx.branch("index:" + ("absent" if part["index"] is None else str(min(4, len(part["index"]) // 2)) + "-ranges"))
                    for r in part["rows"]:
                        ctx.branch("row-type:%d" % r[1])
                else:
                    ctx.branch("table:subsections:%d" % min(4, len(CW.runs([e[0] for e in part["entries"]]))))
        for (b, _c) in configs:
            ctx.branch("bufsiz:%d" % b)
        wild = any(p.get("self_stm") for p in case["plans"])      # outside the property's domain: tie only
        if wild:
            ctx.branch("wild:self-contained-objstm")
        r = None if wild else check_case(ctx, case, configs, queries)
        if r is not None:
            report_failure(ctx, case, r, queries)
        if True:
            exp = spec_observe(revs, layout, queries)
            tie_case(ctx, case, data, layout, revs, queries, exp, BUFSIZES if i % 3 == 0 else [bs[0], bs[1], 4096])


def run_damaged_cases(ctx: C.Ctx) -> None:
    rng = ctx.rng
    n = ctx.n(60, 1500)
    for i in range(n):
        if not ctx.time_left():
            break
        dc = gen_damaged(rng)
        b = rng.choice([4096, 4096, 16, 7, 3])
        ctx.case(("dmg", json.dumps(dc, sort_keys=True), b), True, branch="damage:" + dc["damage"])
        for lay in dc.get("layouts", {}).values():
            for key, val in lay.items():
                if key != "length_first":
                    ctx.branch("damaged-layout:%s=%s" % (key, val))
        r = check_damaged(ctx, dc, b)
        if r is not None:
            report_damaged(ctx, dc, r, b)
        tie_damaged(ctx, dc, b)


def run_corpus(ctx: C.Ctx) -> None:
    for path in sorted(glob.glob(os.path.join(C.VERIF, "corpus", "C02", "*.json"))):
        with open(path) as fp:
            doc = json.load(fp)
        replay(ctx, doc, from_corpus=True)


def replay(ctx: C.Ctx, doc: Dict[str, Any], from_corpus: bool = False) -> None:
    inp = doc.get("input", {})
    ctx.branch("corpus" if from_corpus else "replay")
    if inp.get("kind") == "history":
        case = inp["case"]
        queries = inp["queries"]
        ctx.case(("hist", json.dumps(case, sort_keys=True)), True)
        configs = [(inp["bufsiz"], inp["caching"]), (4096, True), (4096, False), (1, True)]
        r = check_case(ctx, case, configs, queries)
        if r is not None:
            _, layout, _ = build(case)
            ctx.fail(C.Failure(WHAT.get(r[0], r[0]), inp, r[1], r[2], case_tags(case, layout, r[0], r[1], r[2])))
    elif inp.get("kind") == "damaged":
        ctx.case(("dmg", json.dumps(inp["case"], sort_keys=True)), True)
        r = check_damaged(ctx, inp["case"], inp.get("bufsiz", 4096))
        if r is not None:
            ctx.fail(C.Failure(WHAT[r[0]], inp, r[1], r[2],
                               dict({"what": r[0], "damage": inp["case"]["damage"], "eol": inp["case"]["eol"]}, **r[3])))


def run(ctx: C.Ctx) -> None:
    _REPORTED.clear()
    run_corpus(ctx)
    run_history_cases(ctx)
    run_damaged_cases(ctx)
