"""C18 - images: exported files and inline image data reproduce the samples exactly.

Relations exercised on every run
  (tie)   Lean model of ImageWriter.export_image / BMPWriter / unique naming and of
          PDFContentParser.get_inline_data            ==  pdfminer on the same inputs (byte for byte)
  (tie)   Lean BMP reader (Spec/Bmp.lean)              ==  Python BMP reader used as the oracle
  (prop)  pdfminer itself: every exported file decodes (standard BMP reader) to exactly the stored
          samples / is the JPEG data byte for byte; names distinct; inline data captured completely and
          the tokens / text after the image are those of the stream without the image
  (proof) lean/PdfVerif/Props/C18.lean
"""

from __future__ import annotations

import glob
import io
import json
import os
import re
import shutil
import tempfile
from typing import Any, Dict, List, Optional, Tuple

from harness import common as C
from harness import imglib as IL
from harness import pdfwriter as W

LEVEL = "proof"
RULE = ("export cases: images of kind gray-8 / RGB-8 / 1-bit / DCT with widths covering every row-byte residue mod 4 "
        "(and w=1, h=1), random/gradient/constant samples, unfiltered or through 1-3 lossless filters "
        "(Flate, LZW, RunLength, ASCII85, ASCIIHex; Flate/LZW with every /Predictor value 1, 2, 10..15), placed as XObjects, "
        "inline images (every key/value spelling), inside form XObjects, on pages whose /Contents is one stream or an array "
        "of 2-4 streams, several per directory incl. "
        "repeated names; inline cases: content streams prefix + BI..ID data EOL EI + suffix with data over arbitrary "
        "bytes biased to E/I/CR/LF/space, three EOL forms, every parser buffer size 1..64 and 4096; a case is "
        "non-trivial when it is a distinct input with >= 1 image whose sample array is not constant")
TRUSTED_BASE = [
    "hand model lean/PdfVerif/Model/Image.lean of image.py (export_image format choice, BMPWriter, _save_bmp/_save_jpeg/"
    "_save_raw, _create_unique_image_name), Model/Inline.lean of PDFContentParser.get_inline_data and Model/InlineDict.lean of "
    "do_keyword(ID) / inline_image_size / do_EI / LTImage.__init__ - all correspondence-checked on every generated case",
    "tools/translate for align32, the bits->ncols chain, linesize/datasize/headersize, both struct.pack field lists, the "
    "_save_bmp arguments of export_image, image_data_size, INLINE_IMAGE_COMPONENTS and the .jpg/.bmp extensions "
    "(Gen/ImageGen.lean) - the translated definitions are what the theorems are about and are also run against pdfminer",
    "the Python BMP reader / encoders in tools/harness/imglib.py (reader checked equal to the Lean reader on every file)",
    "stream filter decoding itself belongs to C03; here the harness' encoders feed pdfminer's decoders and the decoded "
    "samples are compared",
    "os.path.exists / open follow POSIX semantics on a private temporary directory",
]
ASSUMPTIONS = [
    "image dictionaries are well formed: Width/Height >= 1, sample data has exactly Height*ceil(Width*bits*ncomp/8) bytes",
    "BMP limits: width, height < 2^31 and file size < 2^32",
    "inline images: `ID` + one white-space byte + data + EOL (LF | CR LF | CR) + `EI` + white-space or end of stream; "
    "data (with its EOL) does not contain `EI` followed by white space",
    "no Pillow in the sandbox: DCT data is compared byte for byte, CMYK/JPX conversions are outside the property",
]
STATEMENT_STATUS = {
    "C18_inline_scan_total": "proved (every input, every hint: consumed = body E I ws | body E I at end; data = finish(body), a prefix of body)",
    "C18_inline_scan_ws_rule": "proved (any separator, also none, after a body without marker whose last byte is not E/I)",
    "C18_inline_scan_pseof": "proved (no marker and not ending in EI: PSEOF)",
    "C18_inline_scan_norestart_cex": "proved (E directly in front of EI hides the marker: limit of the rule)",
    "C18_ltimage_fields": "proved (every dictionary: do_EI acceptance and LTImage srcsize/bits/colorspace/imagemask; abbreviated key wins)",
    "C18_assemble_last_wins": "proved (every run of /key value operands: the last pair with a key wins; table-93 entry = last abbreviated, else last full)",
    "C18_abbrev_tables": "proved on key tuples / filter / colour space literals regenerated from layout.py, pdftypes.py, pdfinterp.py, pdfcolor.py",
    "C18_eos_both_keys": "proved (end marker independent of the spelling /F | /Filter; fix 964c0ea)",
    "C18_branch_table": "proved (decision table of export_image over plausibility, filters, bits, colour space: total, rows disjoint)",
    "C18_export_by_branch": "proved (export_image = what the selected row does; tied by spying on the _save_* calls)",
    "C18_bmp_rt": "proved (gray-8, RGB-8, 1-bit; all w,h >= 1 within BMP limits; any lossless filter list; any listing)",
    "C18_bmp_rt_pixelwise / C18_samples_pixelwise": "proved (same, against the index-based meaning of samples)",
    "C18_bmp_pinned_cex": "proved counter-example for the pinned writer (padding, R/B order)",
    "C18_jpeg_bytes": "proved",
    "C18_raw_dump": "proved (kinds the property does not name: 2/4/16-bit, CMYK, Lab, ...: data dumped unchanged, fresh name)",
    "C18_names_distinct": "proved (with C18_export_fresh, C18_unique_name_terminates)",
    "C18_inline_scan / C18_inline_scan_eof": "proved for every size hint (consumed = data EOL EI ws; result = finish hint (data++EOL))",
    "C18_inline_capture / C18_inline_capture_eof": "proved in full for unfiltered images (size hint = data length): every EOL form, "
                                                   "any last bytes",
    "C18_inline_image / C18_inline_image_exported": "proved: BI..ID dictionary (abbreviated or full keys) -> pushed stream -> do_EI -> "
                                                    "LTImage fields -> export_image -> readBMP = stored samples",
    "C18_inline_capture_nohint_partial": "partial: payloads whose size the dictionary does not tell (filtered): excludes payload "
                                         "ending in CR when the EOL is a bare LF",
    "C18_inline_trailing_cr_cex": "proved counter-example (open finding inline-data-trailing-cr, filtered payloads only)",
}


def _cr_lf(f) -> bool:
    # only FILTERED payloads are left: the size of unfiltered data is known from the dictionary
    return (bool(f.tags.get("data_ends_cr")) and f.tags.get("sep") == "0a" and f.tags.get("area") == "inline" and
            bool(f.tags.get("filtered")))


def _other_geometry(f) -> bool:
    return f.tags.get("area") == "other-kind" and f.what.startswith("an image was written as a")


CLASSIFIERS = {
    # kinds the property does not name, written through a bitmap path that assumes another sample size
    "c18_unnamed_kind_bitmap_geometry": _other_geometry,
    # data whose last byte is CR, written with a bare LF before EI: pdfminer strips CR LF as one EOL
    "c18_inline_data_ends_cr_before_lf": _cr_lf,
}

# ------------------------------------------------------------------ generators

KINDS = ["gray8", "rgb8", "bit1", "jpeg-gray", "jpeg-rgb"]
LOSSLESS = ["Flate", "LZW", "RL", "A85", "AHx"]


def gen_samples(rng, n: int) -> bytes:
    m = rng.random()
    if m < 0.08:
        return bytes([rng.randrange(256)]) * n
    if m < 0.3:
        s = rng.randrange(256)
        return bytes((s + 7 * i) % 256 for i in range(n))
    if m < 0.45:
        return bytes(rng.choice(b"EI \r\n\x00\xff~>") for _ in range(n))
    return bytes(rng.randrange(256) for _ in range(n))


def gen_jpeg(rng) -> bytes:
    n = rng.randint(4, 200)
    return b"\xff\xd8\xff\xe0" + bytes(rng.randrange(256) for _ in range(n)) + b"\xff\xd9"


def gen_image(rng, idx: int, force_kind: Optional[str] = None, force_w: Optional[int] = None) -> Dict[str, Any]:
    kind = force_kind or rng.choice(["gray8", "gray8", "rgb8", "rgb8", "bit1", "bit1", "jpeg-gray", "jpeg-rgb"])
    if force_w is not None:
        w = force_w
    else:
        w = rng.choice([1, 2, 3, 4, 5, 6, 7, 8, 9, 15, 16, 17, 31, 32, 33]) if rng.random() < 0.8 else rng.randint(1, 70)
    h = rng.choice([1, 1, 2, 3, 4, 5]) if rng.random() < 0.8 else rng.randint(1, 40)
    if kind.startswith("jpeg"):
        data = gen_jpeg(rng)
        pre = rng.choice([[], [], ["A85"], ["AHx"], ["Flate"]])
        filters = pre + ["DCT"]
    else:
        data = gen_samples(rng, h * IL.row_bytes(kind, w))
        r = rng.random()
        if r < 0.3:
            filters = []
        elif r < 0.75:
            filters = [rng.choice(LOSSLESS)]
        elif r < 0.93:
            filters = [rng.choice(LOSSLESS), rng.choice(LOSSLESS)]
        else:
            filters = [rng.choice(LOSSLESS) for _ in range(3)]
    predictor = None
    if filters and filters[-1] in ("Flate", "LZW") and not kind.startswith("jpeg") and rng.random() < 0.45:
        # /DecodeParms of the last filter: every predictor value, also the rarely written ones (1, 10, 11, 13, 14)
        predictor = rng.choice([1, 10, 11, 12, 13, 14, 15, 10, 2 if kind != "bit1" else 12])
    return {"kind": kind, "w": w, "h": h, "data": data.hex(), "filters": filters, "predictor": predictor,
            "name": rng.choice(["Im0", "Im1", "Im%d" % idx, "X", "img.a", "A B"]),
            "place": "inline" if rng.random() < 0.3 else "xobj"}


# ------------------------------------------------------------------ implementation adapters

def _lit(s):
    from pdfminer.psparser import LIT
    return LIT(s)


def make_stream(img: Dict[str, Any], rng=None, raw: Optional[bytes] = None):
    from pdfminer.pdftypes import PDFStream
    inline = img.get("place") == "inline"
    d = IL.image_dict(img, inline, abbreviate=img.get("abbr", True))
    if "bits" in img:
        d["BPC" if "BPC" in d else "BitsPerComponent"] = img["bits"]
    if "cslist" in img:
        key = "CS" if "CS" in d else "ColorSpace"
        if img["cslist"] is None:
            d.pop(key)
        elif img.get("cs_scalar"):
            d[key] = img["cslist"][0]
        else:
            d[key] = list(img["cslist"])
    attrs = {}
    for k, v in d.items():
        if isinstance(v, str):
            v = _lit(v)
        elif isinstance(v, list):
            v = [(_lit(x) if isinstance(x, str) and not x.startswith("<") else
                  (bytes.fromhex(x[1:-1]) if isinstance(x, str) else x)) for x in v]
        attrs[k] = v
    if raw is None:
        raw = IL.encode_image(img, rng)
    return PDFStream(attrs, raw)


def flt_code(filters: List[str]) -> str:
    return "".join(IL.LETTER[f] for f in filters) or "-"


def cs_wire(img) -> str:
    """The ColorSpace value as the model sees it: `none` (no entry), or the elements of LTImage.colorspace."""
    def tok(x):
        if isinstance(x, int):
            return "i%d" % x
        if isinstance(x, str) and x.startswith("<"):
            return "s"
        return "n" + C.hx(x.encode("latin-1"))
    if "cslist" in img:
        if img["cslist"] is None:
            return "none"
        return ",".join(tok(x) for x in img["cslist"]) or "empty"
    k = img["kind"]
    long = {"gray8": "DeviceGray", "rgb8": "DeviceRGB", "bit1": "DeviceGray", "jpeg-gray": "DeviceGray",
            "jpeg-rgb": "DeviceRGB"}[k]
    if img.get("place") == "inline" and IL.cs_value_short(img):
        long = IL.CS_ABBR[k]
    return tok(long)


def bits_of(img) -> int:
    return img.get("bits", 1 if img["kind"] == "bit1" else 8)


LAST_BRANCHES: List[Optional[str]] = []
_BRANCH_NAME = {"_save_jpeg": "jpeg", "_save_jpeg2000": "jpx", "_save_jbig2": "jbig2", "_save_bytes": "bytes", "_save_raw": "raw"}


def _branch_of_calls(calls, returned: bool) -> Optional[str]:
    """Name of the export_image branch from the recorded `_save_*` calls (None: an exception before any branch)."""
    if len(calls) > 1:
        return "several:" + ",".join(c[0] for c in calls)
    if not calls:
        return "undecoded" if returned else None
    meth, a = calls[0]
    if meth == "_save_bmp":
        # _save_bmp(image, width, height, bytes_per_line, bits)
        return "bmp%d bpl=%d depth=%d" % (a[4], a[3], a[4])
    return _BRANCH_NAME[meth]


def export_direct(imgs: List[Dict[str, Any]], rng=None, preexisting: Optional[List[str]] = None):
    """ImageWriter.export_image on LTImage objects built directly.  Returns
    [(name | None, file bytes | None, exception name | None)] in order, plus the final directory listing."""
    from pdfminer.image import ImageWriter
    from pdfminer.layout import LTImage
    d = tempfile.mkdtemp(prefix="c18_")
    res = []
    try:
        out = os.path.join(d, "out")
        os.makedirs(out)
        for n in preexisting or []:
            with open(os.path.join(out, n), "wb") as fp:
                fp.write(b"old")
        iw = ImageWriter(out)
        # round 6: which `_save_*` method export_image selects (and the arguments of `_save_bmp`) is recorded per image
        calls: List[Any] = []
        LAST_BRANCHES.clear()

        def _spy(meth, orig):
            def w(*a, **k):
                calls.append((meth, a))
                return orig(*a, **k)
            return w
        for meth in ("_save_jpeg", "_save_jpeg2000", "_save_jbig2", "_save_bmp", "_save_bytes", "_save_raw"):
            setattr(iw, meth, _spy(meth, getattr(iw, meth)))
        for img in imgs:
            calls.clear()
            LAST_BRANCHES.append(None)
            try:
                st = make_stream(img, rng)
                lt = LTImage(img["name"], st, (0, 0, 1, 1))
                name = iw.export_image(lt)
                LAST_BRANCHES[-1] = _branch_of_calls(calls, True)
                with open(os.path.join(out, name), "rb") as fp:
                    res.append((name, fp.read(), None))
            except Exception as e:  # noqa: BLE001
                LAST_BRANCHES[-1] = _branch_of_calls(calls, False)
                res.append((None, None, type(e).__name__))
        listing = sorted(os.listdir(out))
        untouched = all(open(os.path.join(out, n), "rb").read() == b"old" for n in preexisting or [])
    finally:
        shutil.rmtree(d, ignore_errors=True)
    return res, listing, untouched


def build_doc(pages: List[Dict[str, Any]], rng=None) -> Tuple[bytes, bytes]:
    """pages: [{"images": [img...], "text": "abc"}].  Returns (pdf with images, pdf without the images)."""
    contents, contents_plain = [], []
    extra: Dict[int, Any] = {}
    objn = 100
    page_res = []
    for pg in pages:
        xo: Dict[Any, Any] = {}
        c = b""
        pieces: List[bytes] = []
        pieces_plain: List[bytes] = []
        for i, img in enumerate(pg["images"]):
            # inline payloads are encoded deterministically: fix_inline() checked exactly these bytes for the marker
            payload = IL.encode_image(img, None if img["place"] == "inline" else rng)
            pre = b"BT /F1 9 Tf %d %d Td (%s) Tj ET\n" % (20 + 5 * i, 700 - 11 * i, ("p%d" % i).encode())
            if img["place"] == "inline":
                body = IL.inline_image_bytes(img, payload, id_ws=img.get("id_ws", " ").encode("latin-1"),
                                             sep=bytes.fromhex(img.get("sep", "0a")),
                                             after=bytes.fromhex(img.get("after", "0a")),
                                             abbreviate=img.get("abbr", True))
                c += pre + b"q 10 0 0 10 %d 20 cm\n" % (30 * i) + body + b"Q\n"
                pieces.append(c)
                c = b""
            else:
                d = IL.image_dict(img, False)
                if img.get("cs_array"):
                    d["ColorSpace"] = [d["ColorSpace"]]
                sh = img.get("shape") or {}

                def ref(v):
                    nonlocal objn
                    objn += 1
                    extra[objn] = v
                    return W.Ref(objn)
                # /Filter and /DecodeParms: a single value or an array, given directly or as indirect objects - the
                # array itself, its elements, and the entries inside a parameter dictionary
                if "Filter" in d:
                    if not isinstance(d["Filter"], list) and sh.get("filter_array"):
                        d["Filter"] = [d["Filter"]]
                    if isinstance(d["Filter"], list) and sh.get("ind_filter_elems"):
                        d["Filter"] = [ref(x) for x in d["Filter"]]
                if "DecodeParms" in d:
                    dp = d["DecodeParms"]
                    if isinstance(dp, dict) and sh.get("dp_array"):
                        dp = [dp]
                    dicts = [dp] if isinstance(dp, dict) else [x for x in dp if isinstance(x, dict)]
                    if sh.get("ind_dp_inner"):
                        for x in dicts:
                            for kk in list(x):
                                x[kk] = ref(x[kk])
                    if isinstance(dp, list) and sh.get("ind_dp_elems"):
                        dp = [ref(x) if x is not None else x for x in dp]
                    if sh.get("ind_dp"):
                        dp = ref(dp)
                    d["DecodeParms"] = dp
                for k in img.get("indirect", []):          # the value is spelled as an indirect reference
                    objn += 1
                    extra[objn] = d[k]
                    d[k] = W.Ref(objn)
                objn += 1
                extra[objn] = W.Stream(d, payload)
                key = W.Name(img["name"].encode("latin-1"))
                if key in xo:            # same resource name twice on a page is not expressible: rename
                    key = W.Name((img["name"] + "_%d" % i).encode("latin-1"))
                xo[key] = W.Ref(objn)
                objn += 1
                c += pre + b"q 10 0 0 10 %d 20 cm " % (30 * i) + W.ser(key) + b" Do Q\n"
                pieces.append(c)
                c = b""
            pieces_plain.append(pre + b"q 10 0 0 10 %d 20 cm\nQ\n" % (30 * i))
        tail = b"BT /F1 12 Tf 100 100 Td (%s) Tj ET" % pg.get("text", "tail").encode()
        contents.append((pieces, tail, pg))
        contents_plain.append((pieces_plain, tail, pg))
        page_res.append(xo)

    def mk(cs, with_xo):
        objs: Dict[int, Any] = {1: {"Type": "Catalog", "Pages": W.Ref(2)}, 3: dict(W.HELVETICA)}
        kids = []
        n = 10
        for k, (pcs, tail, pg) in enumerate(cs):
            res: Dict[str, Any] = {"Font": {"F1": W.Ref(3)}}
            if with_xo and page_res[k]:
                res["XObject"] = dict(page_res[k])
            if pg.get("form") and pcs:
                # the images are painted from inside a form XObject (its own content parser and resources)
                objs[n] = W.Stream({"Type": "XObject", "Subtype": "Form", "BBox": [0, 0, 612, 792], "Resources": dict(res)},
                                   b"".join(pcs))
                res = dict(res)
                res["XObject"] = dict(res.get("XObject", {}), **{"VerifFm": W.Ref(n)})
                n += 1
                pcs = [b"/VerifFm Do\n"]
            parts = list(pcs) + [tail]
            # /Contents as one stream or as an array of streams divided at operator boundaries
            k_streams = max(1, min(int(pg.get("nstreams", 1)), len(parts)))
            cuts = sorted(set([0] + [round(j * len(parts) / k_streams) for j in range(1, k_streams)]))
            groups = [b"".join(parts[a:b]) for a, b in zip(cuts, cuts[1:] + [len(parts)])]
            refs = []
            for g in groups:
                objs[n] = W.Stream({}, g if g.endswith(b"\n") or g is groups[-1] else g + b"\n")
                refs.append(W.Ref(n))
                n += 1
            objs[n] = {"Type": "Page", "Parent": W.Ref(2), "Contents": refs[0] if len(refs) == 1 else refs, "Resources": res,
                       "MediaBox": [0, 0, 612, 792]}
            kids.append(W.Ref(n))
            n += 1
        objs[2] = {"Type": "Pages", "Kids": kids, "Count": len(kids)}
        if with_xo:
            objs.update(extra)
        return W.build_pdf(objs, 1)
    return mk(contents, True), mk(contents_plain, False)


def run_pipeline(pdf: bytes, want_files: bool = True):
    """extract_text_to_fp(output_type=xml, output_dir=tmp).  Returns (names in document order, {name: bytes},
    text-only content, exception name)."""
    from pdfminer.high_level import extract_text_to_fp
    d = tempfile.mkdtemp(prefix="c18_")
    try:
        out = io.BytesIO()
        exc = None
        try:
            extract_text_to_fp(io.BytesIO(pdf), out, output_type="xml", codec="utf-8",
                               output_dir=os.path.join(d, "o") if want_files else None, laparams=None)
        except Exception as e:  # noqa: BLE001
            exc = type(e).__name__
        xml = out.getvalue().decode("utf-8", "replace")
        names = re.findall(r'<image src="([^"]*)"', xml)
        text = "".join(re.findall(r"<text[^>]*>([^<]*)</text>", xml))
        files = {}
        od = os.path.join(d, "o")
        if os.path.isdir(od):
            for n in os.listdir(od):
                with open(os.path.join(od, n), "rb") as fp:
                    files[n] = fp.read()
        return names, files, text, exc
    finally:
        shutil.rmtree(d, ignore_errors=True)


def lt_images(pdf: bytes):
    """LTImage items in document order via PDFPageAggregator(laparams=None)."""
    from pdfminer.converter import PDFPageAggregator
    from pdfminer.layout import LTContainer, LTImage
    from pdfminer.pdfinterp import PDFPageInterpreter, PDFResourceManager
    from pdfminer.pdfpage import PDFPage
    rm = PDFResourceManager()
    dev = PDFPageAggregator(rm, laparams=None)
    it = PDFPageInterpreter(rm, dev)
    res = []

    def walk(x):
        if isinstance(x, LTImage):
            res.append(x)
        elif isinstance(x, LTContainer):
            for y in x:
                walk(y)
    for page in PDFPage.get_pages(io.BytesIO(pdf)):
        it.process_page(page)
        walk(dev.get_result())
    return res


# ------------------------------------------------------------------ the property on the implementation

def judge_file(img: Dict[str, Any], name: Optional[str], blob: Optional[bytes], exc: Optional[str]):
    """None when the exported file reproduces the samples, else (what, expected, got)."""
    kind = img["kind"]
    data = bytes.fromhex(img["data"])
    if exc is not None or name is None or blob is None:
        return ("image export raised instead of writing the file", "a file", "exception " + str(exc))
    if kind.startswith("jpeg"):
        if not name.endswith(".jpg"):
            return ("DCT image not exported as .jpg", ".jpg", name)
        if blob != data:
            return ("exported JPEG differs from the stored DCT data", data.hex(), blob.hex())
        return None
    if not name.endswith(".bmp"):
        return ("bitmap image not exported as .bmp", ".bmp", name)
    dec = IL.read_bmp(blob)
    exp = (img["w"], img["h"], IL.expected_rgb(kind, img["w"], img["h"], data))
    if dec is None:
        return ("exported BMP is not a complete well-formed BMP file", "decodable file", "reader rejects " + blob[:60].hex())
    if dec != exp:
        return ("exported BMP decodes to other samples than stored", [exp[0], exp[1], exp[2].hex()],
                [dec[0], dec[1], dec[2].hex()])
    return None


def export_tags(img: Dict[str, Any]) -> Dict[str, Any]:
    return {"area": "export", "kind": img["kind"], "unfiltered": not img.get("filters"), "predictor": img.get("predictor"),
            "indirect": img.get("indirect", []), "cs_array": bool(img.get("cs_array")),
            "shape": sorted(k for k, v in (img.get("shape") or {}).items() if v),
            "rowpad": (not img["kind"].startswith("jpeg")) and IL.row_bytes(img["kind"], img["w"]) % 4 != 0,
            "place": img.get("place", "xobj")}


def shrink_image(img: Dict[str, Any], still_fails) -> Dict[str, Any]:
    """Greedy shrink of one image spec keeping the failure."""
    cur = dict(img)
    for fl in sorted((cur.get("shape") or {})):
        if cur["shape"].get(fl):
            t = dict(cur)
            t["shape"] = dict(cur["shape"], **{fl: False})
            try:
                if still_fails(t):
                    cur = t
            except Exception:  # noqa: BLE001
                pass
    for key in ("cs_array", "indirect"):
        if cur.get(key):
            t = dict(cur)
            t.pop(key)
            try:
                if still_fails(t):
                    cur = t
            except Exception:  # noqa: BLE001
                pass
    for k in list(cur.get("indirect", [])):
        t = dict(cur)
        t["indirect"] = [x for x in cur["indirect"] if x != k]
        try:
            if t["indirect"] and still_fails(t):
                cur = t
        except Exception:  # noqa: BLE001
            pass
    if cur["kind"].startswith("jpeg"):
        return cur
    for key, cands in (("h", [1, 2]), ("w", [1, 2, 3, 4, 5]), ("filters", [[]] + [[f] for f in cur.get("filters", [])[:1]])):
        for v in cands:
            if key in ("h", "w") and v >= cur[key]:
                continue
            t = dict(cur)
            t[key] = v
            n = t["h"] * IL.row_bytes(t["kind"], t["w"])
            t["data"] = bytes((17 + 31 * i) % 256 for i in range(n)).hex()
            try:
                if still_fails(t):
                    cur = t
                    break
            except Exception:  # noqa: BLE001
                pass
    return cur


OTHER_CS = [
    (["DeviceCMYK"], 4), (["CMYK"], 4), (["Indexed", "DeviceRGB", 255, "<000000ffffff>"], 1),
    (["I", "RGB", 1, "<000000ffffff>"], 1), (["Indexed", "DeviceGray", 3, "<00ff>"], 1),
    (["Indexed", "DeviceCMYK", 1, "<00000000ffffffff>"], 1), (["Separation", "Spot", "DeviceRGB", "<00>"], 1),
    (["Separation", "Spot", "DeviceGray", "<00>"], 1), (["CalRGB"], 3), (["CalGray"], 1), (["Lab"], 3),
    (["DeviceN", "<00>", "DeviceCMYK", "<00>"], 2), (None, 1), ([], 1), (["DeviceRGB"], 3), (["DeviceGray"], 1),
    (["RGB"], 3), (["G"], 1), (["Pattern"], 1),
]


def gen_other_image(rng, idx: int) -> Dict[str, Any]:
    cslist, ncomp = rng.choice(OTHER_CS)
    bits = rng.choice([1, 2, 4, 8, 8, 16, 16, 32, 33, 64])       # > 32 bits: implausible, kept undecoded as <name>.img
    named = cslist in (["DeviceRGB"], ["DeviceGray"], ["RGB"], ["G"]) and bits in (1, 8) and not (bits == 1 and ncomp == 3)
    if named:
        bits = rng.choice([2, 4, 16])
    w = rng.choice([1, 2, 3, 4, 5, 7, 8, 9, 17])
    h = rng.choice([1, 2, 3])
    n = h * ((w * bits * ncomp + 7) // 8)
    return {"kind": "other", "w": w, "h": h, "bits": bits, "ncomp": ncomp, "cslist": cslist,
            "cs_scalar": bool(cslist) and len(cslist) == 1 and rng.random() < 0.6,
            "data": gen_samples(rng, n).hex(),
            "filters": rng.choice([[], [], ["Flate"], ["A85"], ["Flate", "A85"], ["A85", "Flate"], ["RL"], ["A85", "DCT"], ["DCT"]]),
            "name": rng.choice(["Im0", "X", "o%d" % idx]), "place": "xobj", "domain": False}


def judge_other(img: Dict[str, Any], name: Optional[str], blob: Optional[bytes], exc: Optional[str]):
    """Images of kinds the property does not name: the export may fall back to a raw dump or need Pillow, but it must
    not crash otherwise, and it may take the bitmap path only when the sample data has the size that path assumes."""
    data = bytes.fromhex(img["data"])
    if exc is not None:
        if exc == "ImportError":
            return None               # documented: Pillow is needed for this kind
        return ("image export of an unnamed kind raised", "a file or ImportError(Pillow)", exc)
    if name.endswith(".img"):
        if blob != data:
            return ("raw image dump differs from the stored data", data.hex(), blob.hex())
        want = ".%d.%dx%d.img" % (img["bits"], img["w"], img["h"])
        if img["bits"] > 32:
            # _plausible_dimensions: the image is kept undecoded under the bare extension
            if name.endswith(want):
                return ("an image with implausible dimensions got a numbered raw-dump name", "<name>.img", name)
        elif not name.endswith(want):
            return ("raw image dump has a wrong name suffix", want, name)
        return None
    if name.endswith(".jpg"):
        return None if blob == data else ("exported JPEG differs from the stored DCT data", data.hex(), blob.hex())
    if name.endswith(".bmp"):
        dec = IL.read_bmp(blob)
        if dec is None:
            return ("exported BMP is not a complete well-formed BMP file", "decodable file", blob[:60].hex())
        depth = struct_depth(blob)
        rowb = (img["w"] * depth + 7) // 8
        if len(data) != img["h"] * rowb:
            return ("an image was written as a %d-bit bitmap although its sample data has another size" % depth,
                    "raw dump or a bitmap of matching geometry", {"name": name, "data_bytes": len(data),
                                                                   "bitmap_bytes": img["h"] * rowb})
        return None
    return ("unexpected file type", "bmp/jpg/img", name)


def struct_depth(blob: bytes) -> int:
    return int.from_bytes(blob[28:30], "little")


def check_export_direct(ctx: C.Ctx, imgs: List[Dict[str, Any]], pre: List[str], lines, impl, inputs, tag="gen"):
    res, listing, untouched = export_direct(imgs, ctx.rng, pre)
    branches = list(LAST_BRANCHES)
    existing = list(pre)
    names = []
    for (img, (name, blob, exc)), br in zip(zip(imgs, res), branches):
        if br is not None:
            lines.append("branch %s %s %d %d %d" % (flt_code(img.get("filters", [])), cs_wire(img), bits_of(img), img["w"], img["h"]))
            impl.append(br)
            inputs.append(("branch", {"images": [img], "pre": []}))
            ctx.branch("branch:" + br.split(" ")[0])
        data = bytes.fromhex(img["data"])
        nontriv = len(set(data)) > 1
        ctx.case(("exp", img["kind"], img["w"], img["h"], img["data"], tuple(img.get("filters", [])), img["name"]),
                 nontriv, sample={k: (v if k != "data" else v[:40]) for k, v in img.items()},
                 branch="export:" + img["kind"] + (":raw" if not img.get("filters") else ":filtered"))
        for f in img.get("filters", []):
            ctx.branch("filter:" + f)
        if img["kind"] != "other":
            ctx.branch("rowbytes%4=" + str(IL.row_bytes(img["kind"], img["w"]) % 4 if not img["kind"].startswith("jpeg") else "-"))
        # model line
        lines.append("export %s %s %d %d %d %s %s %s" % (
            flt_code(img.get("filters", [])), cs_wire(img), bits_of(img), img["w"], img["h"],
            C.hx(img["name"].encode("latin-1")), ",".join(C.hx(n.encode("latin-1")) for n in existing) or "-",
            C.hx(data)))
        impl.append("E:" + exc if exc else "OK %s %s" % (C.hx(name.encode("latin-1")), C.hx(blob)))
        inputs.append(("export", {"images": [img], "pre": list(existing)}))
        if name is not None:
            existing.append(name)
            names.append(name)
            if blob is not None and name.endswith(".bmp"):
                lines.append("readbmp " + C.hx(blob))
                dec = IL.read_bmp(blob)
                impl.append("none" if dec is None else "OK %d %d %s" % (dec[0], dec[1], C.hx(dec[2])))
                inputs.append(("readbmp", {"file": blob.hex()}))
        if img["kind"] == "other":
            bad = judge_other(img, name, blob, exc)
            ctx.branch("other:bits=%d" % img["bits"])
            ctx.branch("other:cs=" + ("none" if img["cslist"] is None else "/".join(str(x) for x in img["cslist"][:2]) or "[]"))
            ctx.branch("other:result=" + (exc or name.rsplit(".", 1)[-1]))
            if bad is not None:
                ctx.fail(C.Failure(bad[0], {"mode": "direct", "images": [img], "pre": []}, bad[1], bad[2],
                                   {"area": "other-kind", "bits": img["bits"], "cs": img["cslist"], "filters": img["filters"]}))
        elif img.get("domain", True):
            bad = judge_file(img, name, blob, exc)
            if bad is not None:
                def still(t):
                    r2, _, _ = export_direct([t], None, [])
                    return judge_file(t, *r2[0]) is not None
                small = shrink_image(img, still)
                r2, _, _ = export_direct([small], None, [])
                b2 = judge_file(small, *r2[0]) or bad
                ctx.fail(C.Failure(b2[0], {"mode": "direct", "images": [small], "pre": []}, b2[1], b2[2],
                                   export_tags(small)))
    # names: distinct, nothing pre-existing overwritten, one file per image
    ok_names = [n for n in names if n is not None]
    if len(set(ok_names)) != len(ok_names) or not untouched or any(n in pre for n in ok_names) or \
            (len(ok_names) == len(imgs) and len(listing) != len(pre) + len(imgs)):
        ctx.fail(C.Failure("exported image names are not distinct / an existing file was overwritten",
                           {"mode": "direct", "images": imgs, "pre": pre}, "distinct fresh names",
                           {"names": ok_names, "listing": listing, "untouched": untouched},
                           {"area": "names"}))


_PDF_FILTER = {"Flate": "FlateDecode", "DCT": "DCTDecode", "JPX": "JPXDecode", "JBIG2": "JBIG2Decode", "LZW": "LZWDecode",
               "CCF": "CCITTFaxDecode", "A85": "ASCII85Decode", "AHx": "ASCIIHexDecode", "RL": "RunLengthDecode"}
_TABLE_FILTERS = [[], ["Flate"], ["Flate", "Flate"], ["DCT"], ["Flate", "DCT"], ["DCT", "Flate"], ["JPX"], ["A85", "JPX"],
                  ["JPX", "Flate"], ["JBIG2"], ["JBIG2", "Flate"], ["JBIG2", "DCT"], ["Flate", "JBIG2"], ["LZW"], ["CCF"],
                  ["A85", "Flate"]]
_TABLE_CS = [None, ["DeviceGray"], ["DeviceRGB"], ["G"], ["RGB"], ["DeviceCMYK"], ["Indexed", "DeviceRGB", 1], ["Lab"],
             ["DeviceGray", "DeviceRGB"], []]
_TABLE_GEOM = [(1, 3, 2), (2, 3, 2), (8, 3, 2), (8, 1, 1), (16, 2, 1), (32, 1, 1), (33, 1, 1), (8, 0, 1), (1, 2 ** 31, 1)]


def run_branch_table(ctx: C.Ctx, lines, impl, inputs) -> None:
    """Round 6: the branch selection of export_image alone, over the whole cross product filters x colour space x
    (bits, w, h), with ImageMask / Decode entries thrown in (the code does not look at them): the `_save_*` methods are
    replaced by recording stubs, so nothing is decoded and JPX / JBIG2 / Pillow branches are reachable."""
    from pdfminer.image import ImageWriter
    from pdfminer.layout import LTImage
    from pdfminer.pdftypes import PDFStream
    d = tempfile.mkdtemp(prefix="c18t_")
    try:
        iw = ImageWriter(os.path.join(d, "out"))
        calls: List[Any] = []

        def _stub(meth):
            def w(*a, **k):
                calls.append((meth, a))
                return "stub"
            return w
        for meth in ("_save_jpeg", "_save_jpeg2000", "_save_jbig2", "_save_bmp", "_save_bytes", "_save_raw"):
            setattr(iw, meth, _stub(meth))
        combos = [(f, c, g) for f in _TABLE_FILTERS for c in _TABLE_CS for g in _TABLE_GEOM]
        if ctx.tier == "quick" and ctx.boost == 1:
            combos = [x for i, x in enumerate(combos) if i % 2 == ctx.rng.randrange(2) or x[0] in (["JPX"], ["JBIG2"])]
        for k, (flt, cs, (bits, w, h)) in enumerate(combos):
            attrs: Dict[str, Any] = {"Width": w, "Height": h, "BitsPerComponent": bits}
            if cs is not None:
                vals = [(_lit(x) if isinstance(x, str) else x) for x in cs]
                attrs["ColorSpace"] = vals[0] if len(vals) == 1 and k % 3 == 0 else vals
            if flt:
                attrs["Filter"] = _lit(_PDF_FILTER[flt[0]]) if len(flt) == 1 and k % 2 == 0 else [_lit(_PDF_FILTER[f]) for f in flt]
            if k % 5 == 0:
                attrs["ImageMask"] = True
            if k % 7 == 0:
                attrs["Decode"] = [1, 0]
            st = PDFStream(attrs, b"")
            st.data = b"\x01\x02\x03"          # already "decoded": the stubs never look at it
            calls.clear()
            try:
                iw.export_image(LTImage("T%d" % (k % 3), st, (0, 0, 1, 1)))
                br = _branch_of_calls(calls, True)
            except Exception as e:  # noqa: BLE001
                br = "E:" + type(e).__name__
            img = {"kind": "other", "filters": flt, "cslist": cs, "bits": bits, "w": w, "h": h, "name": "T", "data": "010203",
                   "place": "xobj", "domain": False}
            ctx.case(("branchtable", tuple(flt), str(cs), bits, w, h), True, branch="branch-table")
            ctx.branch("branch:" + br.split(" ")[0])
            lines.append("branch %s %s %d %d %d" % (flt_code(flt), cs_wire(img), bits, w, h))
            impl.append(br)
            inputs.append(("branch", {"table": True, "filters": flt, "cs": cs, "bits": bits, "w": w, "h": h,
                                      "imagemask": k % 5 == 0, "decode": k % 7 == 0}))
    finally:
        shutil.rmtree(d, ignore_errors=True)


def run_export(ctx: C.Ctx) -> None:
    rng = ctx.rng
    lines: List[str] = []
    impl: List[str] = []
    inputs: List[Any] = []
    n = ctx.n(1200, 20000)
    idx = 0
    run_branch_table(ctx, lines, impl, inputs)
    # systematic part: every kind x every row-byte residue x unfiltered/filtered
    for kind in ("gray8", "rgb8", "bit1"):
        for w in (1, 2, 3, 4, 5, 7, 8, 9, 16, 17, 33):
            for flt in ([], ["Flate"]):
                img = gen_image(rng, idx, force_kind=kind, force_w=w)
                img["filters"] = flt
                img["place"] = "xobj"
                idx += 1
                check_export_direct(ctx, [img], [], lines, impl, inputs)
    for i in range(n):
        if not ctx.time_left():
            break
        k = rng.choice([1, 1, 2, 3, 5])
        imgs = [gen_image(rng, idx + j) for j in range(k)]
        idx += k
        pre = []
        if rng.random() < 0.4:
            base = imgs[0]["name"]
            ext = ".jpg" if imgs[0]["kind"].startswith("jpeg") else ".bmp"
            pre = [base + ext] + [base + ".%d%s" % (j, ext) for j in range(rng.randint(0, 3))]
            if rng.random() < 0.3 and len(pre) > 1:
                pre.pop(rng.randrange(1, len(pre)))    # a gap in the numbering
        check_export_direct(ctx, imgs, pre, lines, impl, inputs)
    # kinds the property does not name (2/4/16-bit samples, Indexed, CMYK, Separation, Cal*, missing colour space):
    # tie for every format-choice branch, and the weaker demand `judge_other`
    for i in range(ctx.n(400, 6000)):
        img = gen_other_image(rng, idx)
        idx += 1
        check_export_direct(ctx, [img], [], lines, impl, inputs)
    ask_and_compare(ctx, lines, impl, inputs)


def ask_and_compare(ctx, lines, impl, inputs):
    if ctx.driver is None or not lines:
        return
    outs = ctx.driver.ask(lines)
    for inp, i_out, m_out in zip(inputs, impl, outs):
        if i_out != m_out:
            ctx.disagree(inp[0], inp[1], i_out[:400], m_out[:400])


# ------------------------------------------------------------------ full pipeline

def check_pipeline(ctx: C.Ctx, pages: List[Dict[str, Any]], in_domain: bool = True) -> None:
    pdf, plain = build_doc(pages, ctx.rng)
    names, files, text, exc = run_pipeline(pdf)
    _, _, text_plain, exc_plain = run_pipeline(plain, want_files=False)
    imgs = [img for pg in pages for img in pg["images"]]
    ctx.case(("doc", json.dumps(pages, sort_keys=True)), any(len(set(bytes.fromhex(i["data"]))) > 1 for i in imgs),
             branch="pipeline:%dpages" % len(pages))
    for img in imgs:
        ctx.branch("pipeline:" + img["place"] + ":" + img["kind"])
        if img.get("predictor"):
            ctx.branch("pipeline:predictor=%d" % img["predictor"])
    for pg in pages:
        ctx.branch("pipeline:contents-streams=%d" % pg.get("nstreams", 1))
        if pg.get("form"):
            ctx.branch("pipeline:images-in-form")
    if not in_domain:
        return

    def doc_fail(what, exp, got, tags, shrink=True):
        inp_pages = pages
        if shrink:
            # keep one page with one image when that still fails the same way
            for pg in pages:
                for img in pg["images"]:
                    single = [{"images": [img], "text": pg.get("text", "tail")}]
                    r = pipeline_verdict(single)
                    if r is not None and r[0] == what:
                        small = shrink_image(img, lambda t: (pipeline_verdict([{"images": [t], "text": "tail"}]) or
                                                              ("",))[0] == what)
                        inp_pages = [{"images": [small], "text": "tail"}]
                        r2 = pipeline_verdict(inp_pages)
                        if r2 is not None:
                            exp, got, tags = r2[1], r2[2], r2[3]
                        break
                else:
                    continue
                break
        ctx.fail(C.Failure(what, {"mode": "pipeline", "pages": inp_pages}, exp, got, tags))

    v = verdict_from(pages, names, files, text, exc, text_plain)
    if v is not None:
        doc_fail(*v)


def verdict_from(pages, names, files, text, exc, text_plain):
    imgs = [img for pg in pages for img in pg["images"]]
    first = imgs[0] if imgs else {"kind": "gray8", "w": 1, "h": 1, "data": "00"}
    if exc is not None:
        t = export_tags(first)
        t["exception"] = exc
        return ("extract_text_to_fp raised while exporting images", "no exception", exc, t)
    if len(names) != len(imgs):
        t = export_tags(first)
        t["area"] = "inline" if any(i["place"] == "inline" for i in imgs) else "export"
        t.update(inline_tags_of(imgs))
        return ("number of exported images differs from the number of images in the document", len(imgs), len(names), t)
    if len(set(names)) != len(names) or len(files) != len(names):
        return ("exported image names are not distinct", len(names), sorted(files), {"area": "names"})
    for img, name in zip(imgs, names):
        bad = judge_file(img, name, files.get(name), None)
        if bad is not None:
            t = export_tags(img)
            if img["place"] == "inline":
                t.update(inline_tags_of([img]))
                if t.get("data_ends_cr") and t.get("sep") == "0a":
                    t["area"] = "inline"
            return (bad[0], bad[1], bad[2], t)
    if text != text_plain:
        return ("text after images differs from the same page without the images", text_plain, text,
                dict(inline_tags_of(imgs), area="inline"))
    return None


def inline_tags_of(imgs):
    for img in imgs:
        if img["place"] == "inline":
            payload_last = IL.encode_image(img, None)[-1:]
            return {"data_ends_cr": payload_last == b"\r", "sep": img.get("sep", "0a"), "after": img.get("after", "0a"),
                    "abbr": img.get("abbr", True), "filtered": bool(img.get("filters"))}
    return {}


def pipeline_verdict(pages):
    pdf, plain = build_doc(pages, None)
    names, files, text, exc = run_pipeline(pdf)
    _, _, text_plain, _ = run_pipeline(plain, want_files=False)
    return verdict_from(pages, names, files, text, exc, text_plain)


def check_ltimage(ctx: C.Ctx, pages) -> None:
    pdf, _ = build_doc(pages, ctx.rng)
    imgs = [img for pg in pages for img in pg["images"]]
    try:
        lts = lt_images(pdf)
    except Exception as e:  # noqa: BLE001
        ctx.fail(C.Failure("layout pass raised on a document with images", {"mode": "ltimage", "pages": pages},
                           "no exception", type(e).__name__, dict(export_tags(imgs[0]), exception=type(e).__name__)))
        return
    ctx.case(("lt", json.dumps(pages, sort_keys=True)), True, branch="ltimage")
    if len(lts) != len(imgs):
        t = dict(inline_tags_of(imgs), area="inline" if any(i["place"] == "inline" for i in imgs) else "export")
        ctx.fail(C.Failure("number of LTImage items differs from the number of images", {"mode": "ltimage", "pages": pages},
                           len(imgs), len(lts), t))
        return
    for img, lt in zip(imgs, lts):
        try:
            got = (tuple(lt.srcsize), lt.bits, lt.stream.get_data())
        except Exception as e:  # noqa: BLE001
            got = ("EXC", type(e).__name__, b"")
        exp = ((img["w"], img["h"]), bits_of(img), bytes.fromhex(img["data"]))
        if got != exp:
            t = export_tags(img)
            if img["place"] == "inline":
                t.update(inline_tags_of([img]))
                t["area"] = "inline"
            ctx.fail(C.Failure("LTImage srcsize/bits/stream data differ from the stored image",
                               {"mode": "ltimage", "pages": [{"images": [img], "text": "tail"}]},
                               [list(exp[0]), exp[1], exp[2].hex()], [list(got[0]) if got[0] != "EXC" else "EXC", got[1],
                                                                      got[2].hex()], t))
            return


def gen_pages(rng, idx0: int) -> List[Dict[str, Any]]:
    pages = []
    for p in range(rng.choice([1, 1, 2, 3])):
        imgs = []
        for j in range(rng.choice([1, 1, 2, 3])):
            img = gen_image(rng, idx0 + j)
            if rng.random() < 0.5:
                img["name"] = "Im0"              # same name on several pages -> numbered file names
            if img["place"] == "inline":
                fix_inline(rng, img)
            else:
                if rng.random() < 0.35:
                    img["indirect"] = sorted(rng.sample(["ColorSpace", "Width", "Height", "BitsPerComponent", "Filter"],
                                                        rng.choice([1, 1, 2, 5])))
                    if not img.get("filters"):
                        img["indirect"] = [k for k in img["indirect"] if k != "Filter"]
                if rng.random() < 0.15:
                    img["cs_array"] = True
                if img.get("filters") and rng.random() < 0.6:
                    img["shape"] = {k: rng.random() < 0.4 for k in ("filter_array", "ind_filter_elems", "dp_array",
                                                                     "ind_dp_inner", "ind_dp_elems", "ind_dp")}
            imgs.append(img)
        pages.append({"images": imgs, "text": "t%d" % p, "nstreams": rng.choice([1, 1, 2, 3, 4]),
                      "form": rng.random() < 0.2})
    return pages


def fix_inline(rng, img) -> None:
    """Choose the syntax around an inline image and make sure its payload is inside the grammar."""
    img["sep"] = rng.choice(["0a", "0a", "0d0a", "0d"])
    img["after"] = rng.choice(["0a", "20", "0d0a", "09"])
    img["id_ws"] = rng.choice([" ", "\n"])
    img["abbr"] = rng.random() < 0.75
    if rng.random() < 0.5:
        img["spell"] = IL.random_spell(rng)      # every key / value spelled short or in full independently
    if rng.random() < 0.3:
        img["extras"] = IL.random_extras(rng)
    if img["kind"].startswith("jpeg"):
        img["filters"] = ["A85", "DCT"] if "A85" in img["filters"] else (["AHx", "DCT"] if rng.random() < 0.5 else ["DCT"])
    if (img.get("filters") or [""])[0] == "A85" and rng.random() < 0.6:
        img["a85_wrap"] = rng.choice([1, 2, 3, 4, 5, 16])
    for _ in range(50):
        payload = IL.encode_image(img, None)
        first = (img.get("filters") or [""])[0]
        a85_marker = first == "A85"      # do_keyword looks at /F and /Filter (round 6 fix; before: /F only)
        target = b"~>" if a85_marker else b"EI"
        body = payload[:-2] if a85_marker else payload
        if not IL.has_marker(body + bytes.fromhex(img["sep"]), target) and not \
                (first == "A85" and IL.has_marker(payload + bytes.fromhex(img["sep"]) + b"EI", b"~>") and False):
            return
        # regenerate the samples (binary payload happened to contain the end marker)
        n = len(bytes.fromhex(img["data"]))
        img["data"] = bytes(rng.randrange(256) for _ in range(n)).hex()
    img["filters"] = ["AHx"]


def run_pipeline_cases(ctx: C.Ctx) -> None:
    rng = ctx.rng
    for i in range(ctx.n(250, 4000)):
        if not ctx.time_left():
            break
        pages = gen_pages(rng, 1000 + 10 * i)
        check_pipeline(ctx, pages)
        if i % 3 == 0:
            check_ltimage(ctx, pages)


# ------------------------------------------------------------------ inline image scanning

def canon(o) -> str:
    from pdfminer.pdftypes import PDFStream
    from pdfminer.psparser import PSKeyword, PSLiteral
    if isinstance(o, PDFStream):
        return "img{" + ",".join(k + "=" + canon(v) for k, v in sorted(o.attrs.items())) + "}:" + C.hx(o.rawdata or b"")
    if isinstance(o, PSKeyword):
        return "k:" + o.name.decode("latin-1")
    if isinstance(o, PSLiteral):
        return "n:" + (o.name if isinstance(o.name, str) else o.name.decode("latin-1"))
    if isinstance(o, bool):
        return "b:%d" % o
    if isinstance(o, int):
        return "i:%d" % o
    if isinstance(o, float):
        return "r:%r" % o
    if isinstance(o, bytes):
        return "s:" + C.hx(o)
    if isinstance(o, list):
        return "[" + " ".join(canon(x) for x in o) + "]"
    if isinstance(o, dict):
        return "<<" + " ".join(k + " " + canon(v) for k, v in sorted(o.items())) + ">>"
    return "?" + type(o).__name__


def impl_tokens(content, bufsiz: int) -> Tuple[List[str], Optional[str]]:
    """Token stream of one content stream, or of the streams of a /Contents array (list of bytes)."""
    from pdfminer.pdfinterp import PDFContentParser
    from pdfminer.pdftypes import PDFStream
    from pdfminer.psparser import PSEOF
    streams = content if isinstance(content, list) else [content]
    p = PDFContentParser([PDFStream({}, c) for c in streams])
    p.BUFSIZ = bufsiz
    toks = []
    for _ in range(100000):
        try:
            (_, obj) = p.nextobject()
        except PSEOF:
            return toks, None
        except Exception as e:  # noqa: BLE001
            return toks, type(e).__name__
        toks.append(canon(obj))
    return toks, "nonterminating"


def impl_inline(content: bytes, start: int, target: bytes, bufsiz: int, length: Optional[int] = None) -> str:
    """PDFContentParser.get_inline_data called at `start` -> canonical reply of the model op `inline`."""
    from pdfminer.pdfinterp import PDFContentParser
    from pdfminer.pdftypes import PDFStream
    from pdfminer.psparser import PSEOF
    p = PDFContentParser([PDFStream({}, content)])
    p.BUFSIZ = bufsiz
    try:
        if length is None:
            (_, data) = p.get_inline_data(start, target=target)
        else:
            (_, data) = p.get_inline_data(start, target=target, length=length)
    except PSEOF:
        return "EOF"
    except Exception as e:  # noqa: BLE001
        return "E:" + type(e).__name__
    return "OK %s %d" % (C.hx(data), p.bufpos + (p.charpos if p.buf else 0) - start)


INL_ALPHABET = b"EI \r\n\t~>Q0aZ\x00\xff"


def gen_inline_data(rng) -> bytes:
    n = rng.choice([0, 1, 2, 3, 4, 5, 8, 13, 30, 64, 65, 200])
    m = rng.random()
    if m < 0.55:
        d = bytes(rng.choice(INL_ALPHABET) for _ in range(n))
    else:
        d = bytes(rng.randrange(256) for _ in range(n))
    if rng.random() < 0.35 and n:
        d = d[:-1] + rng.choice([b"E", b"\r", b"\r", b"\n", b"I", b" "])
    return d


def gen_inline_case(rng, in_domain: bool) -> Dict[str, Any]:
    sep = rng.choice([b"\n", b"\n", b"\r\n", b"\r"])
    after = rng.choice([b"\n", b" ", b"\r\n", b"\t", b""]) if rng.random() < 0.9 else b"\x00"
    if not in_domain:
        sep = rng.choice([b"", b" ", b"\n", b"\t", b"\n\n"])
    data = gen_inline_data(rng)
    if in_domain:
        for _ in range(200):
            if not IL.has_marker(data + sep) and not (data + sep).endswith(b"EI") and after != b"\x00":
                break
            data = gen_inline_data(rng)
            after = b"\n"
        else:
            data = b"abc"
    suffix = rng.choice([b"", b"Q", b"BT /F1 12 Tf (x) Tj ET", b"1 0 0 1 5 5 cm /Im0 Do", b"EI", b"(EI ) Tj"])
    if after == b"":
        suffix = b""              # EI is the last token of the stream
    prefix = rng.choice([b"", b"q ", b"q 1 0 0 1 2 3 cm\n", b"BT (a) Tj ET\n"])
    case = {"prefix": prefix.hex(), "data": data.hex(), "sep": sep.hex(), "after": after.hex(), "suffix": suffix.hex(),
            "id_ws": rng.choice(["20", "0a", "20", "0d"]), "abbr": rng.random() < 0.8,
            "bufsiz": rng.choice([1, 2, 3, 4, 5, 7, 8, 16, 33, 64, 4096, 4096])}
    case.update(inline_dims(rng, len(data), in_domain))
    if rng.random() < 0.5:
        case["spell"] = IL.random_spell(rng)
    if rng.random() < 0.3:
        case["extras"] = IL.random_extras(rng)
    if rng.random() < 0.35:
        # the image sits in the 2nd / 3rd stream of a /Contents array (streams are divided at token boundaries)
        case["pre_streams"] = [rng.choice([b"q\n", b"q 1 0 0 1 5 5 cm\n", b"BT /F1 9 Tf (ab) Tj ET\n", b"\n",
                                           b"% " + b"x" * rng.randint(1, 90) + b"\n0 g\n"]).hex()
                               for _ in range(rng.choice([1, 1, 2]))]
    return case


def inline_dims(rng, n: int, in_domain: bool) -> Dict[str, Any]:
    """Width/height/kind of the image dictionary: consistent with n data bytes (a well-formed image), or a
    filter entry (then the bytes are an opaque payload and the dictionary says nothing about their number)."""
    r = rng.random()
    if r < 0.15:
        return {"kind": "gray8", "w": rng.randint(1, 9), "h": rng.randint(1, 9), "flt": rng.choice(["Fl", "LZW", "DCT", "RL"])}
    if n == 0 or (not in_domain and r < 0.5):
        return {"kind": "gray8", "w": 2, "h": 2, "flt": None}          # size and data disagree: tie only
    opts = [("gray8", n, 1)]
    for hh in (2, 3, 5):
        if n % hh == 0:
            opts.append(("gray8", n // hh, hh))
    if n % 3 == 0:
        opts.append(("rgb8", n // 3, 1))
    # rows that do not fill whole bytes (every row is padded to a byte, so the size is NOT ceil(total bits / 8)):
    # 1-, 2-, 4-bit and 4-bit RGB images with one or several rows
    for kind in ("bit1", "bit1", "gray2", "gray4", "rgb4", "gray16", "cmyk8"):
        bpc, nc = IL.KIND_SHAPE[kind]
        for hh in (1, 2, 3, 4, 5, 7):
            if n % hh:
                continue
            rb = n // hh                      # bytes per row
            wmax = rb * 8 // (bpc * nc)
            wmin = ((rb - 1) * 8) // (bpc * nc) + 1
            if wmax >= wmin and wmax >= 1:
                opts.append((kind, rng.randint(max(1, wmin), wmax), hh))
    k, w, h = rng.choice(opts)
    return {"kind": k, "w": w, "h": h, "flt": None}


def inline_dict_of(case) -> Dict[str, Any]:
    img = {"kind": case.get("kind", "gray8"), "w": case.get("w", 2), "h": case.get("h", 2),
           "filters": [], "spell": case.get("spell"), "extras": case.get("extras")}
    d = IL.image_dict(img, True, case.get("abbr", True))
    if case.get("flt"):
        sp = case.get("spell") or {"F": case.get("abbr", True), "Fv": case.get("abbr", True)}
        d["F" if sp["F"] else "Filter"] = case["flt"] if sp["Fv"] else \
            {"Fl": "FlateDecode", "LZW": "LZWDecode", "DCT": "DCTDecode", "RL": "RunLengthDecode"}[case["flt"]]
    return d


def inline_wellformed(case) -> bool:
    if case.get("flt"):
        return True
    n = len(bytes.fromhex(case["data"]))
    return n == case.get("h", 2) * IL.row_bytes(case.get("kind", "gray8"), case.get("w", 2))


def inline_size_hint(case) -> Optional[int]:
    if case.get("flt"):
        return None
    return case.get("h", 2) * IL.row_bytes(case.get("kind", "gray8"), case.get("w", 2))


def inline_content(case) -> Tuple[bytes, int, bytes]:
    d = inline_dict_of(case)
    head = bytes.fromhex(case["prefix"]) + b"BI " + b" ".join(W.ser(k) + b" " + W.ser(v) for k, v in d.items()) + b" ID"
    start = len(head) + 1
    content = (head + bytes.fromhex(case["id_ws"]) + bytes.fromhex(case["data"]) + bytes.fromhex(case["sep"]) + b"EI" +
               bytes.fromhex(case["after"]) + bytes.fromhex(case["suffix"]))
    return content, start, head


def inline_verdict(case) -> Optional[Tuple[str, Any, Any, Dict[str, Any]]]:
    """The property on the implementation for one inline case (in the grammar)."""
    content, start, head = inline_content(case)
    bufsiz = case["bufsiz"]
    data = bytes.fromhex(case["data"])
    earlier = [bytes.fromhex(x) for x in case.get("pre_streams", [])]       # earlier streams of a /Contents array
    toks, exc = impl_tokens(earlier + [content] if earlier else content, bufsiz)
    pre = []
    for e in earlier:
        pre += impl_tokens(e, bufsiz)[0]
    pre += impl_tokens(bytes.fromhex(case["prefix"]), bufsiz)[0]
    suf, _ = impl_tokens(bytes.fromhex(case["suffix"]), bufsiz)
    d = inline_dict_of(case)
    imgtok = "img{" + ",".join(k + "=" + ("n:" + v if isinstance(v, str) else ("b:%d" % v if isinstance(v, bool) else "i:%d" % v))
                               for k, v in sorted(d.items())) + \
             "}:" + C.hx(data)
    exp = pre + [imgtok, "k:EI"] + suf
    tags = {"area": "inline", "data_ends_cr": data.endswith(b"\r"), "sep": case["sep"], "after": case["after"],
            "filtered": bool(case.get("flt")), "streams": 1 + len(earlier),
            "data_ends_E": data.endswith(b"E"), "eof_after_EI": case["after"] == "" and case["suffix"] == "",
            "bufsiz": bufsiz}
    if exc is not None:
        return ("content parser raised on a stream with an inline image", exp, exc, tags)
    if toks != exp:
        got_img = [t for t in toks if t.startswith("img{")]
        if len(got_img) == 1 and got_img[0] != imgtok and [t for t in toks if not t.startswith("img{")] == \
                [t for t in exp if not t.startswith("img{")]:
            return ("inline image data is not captured exactly", imgtok, got_img[0], tags)
        return ("tokens of a content stream with an inline image differ from prefix + image + EI + suffix", exp, toks, tags)
    return None


def shrink_inline(case, what):
    cur = dict(case)

    def fails(c):
        v = inline_verdict(c)
        return v is not None and v[0] == what
    if cur.get("pre_streams"):
        t = dict(cur)
        t.pop("pre_streams")
        if fails(t):
            cur = t
    for key in ("prefix", "suffix"):
        t = dict(cur)
        t[key] = ""
        if t["after"] == "" and key == "suffix":
            pass
        if fails(t):
            cur = t
    data = list(bytes.fromhex(cur["data"]))
    if len(data) > 1:
        def still(sub):
            t = dict(cur)
            t["data"] = bytes(sub).hex()
            if not cur.get("flt"):
                t.update(kind="gray8", w=len(sub), h=1)
            if IL.has_marker(bytes(sub) + bytes.fromhex(cur["sep"])):
                return False
            return fails(t)
        small = C.ddmin(data, still, 200)
        t = dict(cur)
        t["data"] = bytes(small).hex()
        if not cur.get("flt"):
            t.update(kind="gray8", w=len(small), h=1)
        if fails(t):
            cur = t
    for b in (4096, 1):
        t = dict(cur)
        t["bufsiz"] = b
        if fails(t):
            cur = t
            break
    return cur


def check_inline_case(ctx: C.Ctx, case, in_domain: bool, lines, impl, inputs) -> None:
    content, start, _ = inline_content(case)
    data = bytes.fromhex(case["data"])
    ctx.case(("inl", json.dumps(case, sort_keys=True)), len(data) > 0, sample=case,
             branch="inline:" + ("domain" if in_domain else "wild"))
    ctx.branch("inline:sep=" + (case["sep"] or "none"))
    ctx.branch("inline:after=" + (case["after"] or "eof"))
    ctx.branch("inline:buf=" + ("small" if case["bufsiz"] < 4096 else "4096"))
    ctx.branch("inline:streams=%d" % (1 + len(case.get("pre_streams", []))))
    if data.endswith(b"\r"):
        ctx.branch("inline:data-ends-CR")
    if data.endswith(b"E"):
        ctx.branch("inline:data-ends-E")
    lines.append("inline 4549 %s" % C.hx(content[start:]))
    impl.append(impl_inline(content, start, b"EI", case["bufsiz"]))
    inputs.append(("inline", case))
    hint = inline_size_hint(case)
    lines.append("inlinelen 4549 %s %s" % ("-" if hint is None else hint, C.hx(content[start:])))
    impl.append(impl_inline(content, start, b"EI", case["bufsiz"], hint))
    inputs.append(("inlinelen", case))
    ctx.branch("inline:" + ("filtered" if case.get("flt") else "unfiltered:" + case.get("kind", "gray8") +
                            ("" if inline_wellformed(case) else ":size-mismatch")))
    if in_domain and inline_wellformed(case):
        v = inline_verdict(case)
        if v is not None:
            small = shrink_inline(case, v[0])
            v2 = inline_verdict(small) or v
            ctx.fail(C.Failure(v2[0], {"mode": "inline", "case": small}, v2[1], v2[2], v2[3]))


# ---- round 6: the end-marker rule on arbitrary scanner input (C18_inline_scan_total / _ws_rule / _pseof)

_WS = b" \t\n\r\x0b\x0c"
SCAN_BODIES = [b"", b"a", b"E", b"I", b"EI", b"EIx", b"xEIx", b"EIEI", b"EE", b"aEIb E", b"\x00EI\x00", b"EI\x00 ", b"E I", b"aE",
               b"aI", b"abEIcdEI", b"~>", b"\r", b"\n", b"\r\n", b"E\n", b"I\r", b"EI\xff", b"\xffEIEIEIx", b"EEEI", b"EIE"]
SCAN_SEPS = [b"", b" ", b"\t", b"\n", b"\r", b"\r\n", b"\x00", b"\x0c", b"\x0b", b"  ", b"\n\n", b"x"]
SCAN_TAILS = [b"EI Q", b"EI\nQ", b"EI\tq EI ", b"EI", b"EI\x00Q", b"EIQ", b"", b"E", b"EI\rEI\n", b"EI\x0cBT"]


def scan_oracle(inp: bytes, reply: str) -> Optional[str]:
    """What holds for EVERY input (theorem C18_inline_scan_total), evaluated on the implementation's reply."""
    if not reply.startswith("OK "):
        return None
    _, dhex, n = reply.split(" ")
    d = b"" if dhex == "-" else bytes.fromhex(dhex)
    n = int(n)
    if n > len(inp):
        return "consumed more bytes than the content stream has"
    used = inp[:n]
    if len(used) >= 3 and used[-3:-1] == b"EI" and used[-1:] in [bytes((c,)) for c in _WS]:
        body = used[:-3]
    elif n == len(inp) and used.endswith(b"EI"):
        body = used[:-2]
    else:
        return "the bytes consumed for an inline image do not end in the end marker"
    if not body.startswith(d):
        return "inline image data is not a prefix of the bytes in front of the end marker"
    if len(body) - len(d) > 2:
        return "more than one end-of-line was cut from the inline image data"
    return None


def check_scan_input(ctx: C.Ctx, inp: bytes, hint: Optional[int], bufsiz: int, lines, impl, inputs) -> None:
    reply = impl_inline(inp, 0, b"EI", bufsiz, hint)
    ctx.case(("scan", inp, hint, bufsiz), len(inp) > 4, branch="scan:" + reply.split(" ")[0])
    if b"EI" in inp[:-3]:
        ctx.branch("scan:EI-bytes-inside")
    lines.append("inlinelen 4549 %s %s" % ("-" if hint is None else hint, C.hx(inp)))
    impl.append(reply)
    inputs.append(("inlinelen", {"mode": "scan", "input": inp.hex(), "hint": hint, "bufsiz": bufsiz}))
    bad = scan_oracle(inp, reply)
    if bad is not None:
        ctx.fail(C.Failure(bad, {"mode": "scan", "input": inp.hex(), "hint": hint, "bufsiz": bufsiz},
                           "body E I ws consumed, data a prefix of body", reply, {"area": "scan"}))


def run_scan_rule(ctx: C.Ctx, lines, impl, inputs) -> None:
    rng = ctx.rng
    combos = [(b, s_, t) for b in SCAN_BODIES for s_ in SCAN_SEPS for t in SCAN_TAILS]
    if ctx.tier == "quick" and ctx.boost == 1:
        combos = rng.sample(combos, 900)
    for b, s_, t in combos:
        inp = b + s_ + t
        hint = rng.choice([None, None, len(b), len(b), len(b) + 1, max(0, len(b) - 1), 0, 1000])
        check_scan_input(ctx, inp, hint, rng.choice([1, 2, 3, 5, 8, 4096]), lines, impl, inputs)
        ctx.branch("scan:sep=" + (s_.hex() or "none"))
    for _ in range(ctx.n(600, 20000)):
        inp = bytes(rng.choice(b"EEII \n\r\tx\x00") for _ in range(rng.randint(0, 14)))
        check_scan_input(ctx, inp, rng.choice([None, rng.randint(0, 12)]), rng.choice([1, 2, 3, 4096]), lines, impl, inputs)


def run_inline(ctx: C.Ctx) -> None:
    rng = ctx.rng
    lines: List[str] = []
    impl: List[str] = []
    inputs: List[Any] = []
    for i in range(ctx.n(5000, 100000)):
        if not ctx.time_left():
            break
        wild = i % 5 == 4
        case = gen_inline_case(rng, not wild)
        check_inline_case(ctx, case, not wild, lines, impl, inputs)
    run_scan_rule(ctx, lines, impl, inputs)
    # ASCII85 end marker `~>` (the tie only: the scanner is the same function with another target)
    for i in range(ctx.n(600, 10000)):
        body = bytes(rng.choice(b"~>ab!z \n\rEI") for _ in range(rng.choice([0, 1, 3, 9, 40])))
        content = body + rng.choice([b"~>\n", b"~> ", b"~>\r\n", b"~>", b"~~>\n", b"~>x~>\t"]) + b"EI Q"
        bs = rng.choice([1, 2, 3, 7, 4096])
        lines.append("inline 7e3e %s" % C.hx(content))
        impl.append(impl_inline(content, 0, b"~>", bs))
        inputs.append(("inline85", {"content": content.hex(), "bufsiz": bs}))
        ctx.case(("a85", content, bs), True, branch="inline:a85-target")
    ask_and_compare(ctx, lines, impl, inputs)



# ------------------------------------------------------------------ BI/ID dictionary assembly, do_EI, LTImage (glue)

def val_wire(o) -> str:
    from pdfminer.psparser import PSLiteral
    if isinstance(o, bool):
        return "b1" if o else "b0"
    if isinstance(o, int):
        return "i%d" % o
    if isinstance(o, W.Name):
        return "n" + C.hx(o.b)
    if isinstance(o, PSLiteral):
        nm = o.name if isinstance(o.name, bytes) else o.name.encode("latin-1")
        return "n" + C.hx(nm)
    if isinstance(o, (list, tuple)):
        return ",".join(["["] + [val_wire(x) for x in o] + ["]"])
    if o is None:
        return "none"
    if isinstance(o, bytes) and o:
        return "s"
    return "o"


DICT_KEYS = ["W", "Width", "H", "Height", "BPC", "BitsPerComponent", "CS", "ColorSpace", "F", "Filter", "IM", "ImageMask",
             "D", "Decode", "DP", "I", "Intent", "X"]
CS_NAMES = ["G", "RGB", "CMYK", "I", "DeviceGray", "DeviceRGB", "DeviceCMYK", "Indexed", "CalGray", "CalRGB", "Lab", "Pattern", "Zz"]
FLT_NAMES = ["A85", "ASCII85Decode", "Fl", "FlateDecode", "AHx", "DCT", "LZW", "RL", "Zz"]


_KEY_PAIRS = [("W", "Width"), ("H", "Height"), ("BPC", "BitsPerComponent"), ("CS", "ColorSpace"), ("IM", "ImageMask"),
              ("F", "Filter")]


def gen_dict_objs(rng):
    """Operand list between BI and ID: mostly a well-formed image dictionary, with rare keys/values of every kind."""
    objs = []
    n = rng.choice([2, 3, 4, 4, 5, 6])
    keys = rng.sample(DICT_KEYS, n)
    if rng.random() < 0.7:
        for must in (rng.choice(["W", "Width"]), rng.choice(["H", "Height"])):
            if must not in keys:
                keys.append(must)
    if rng.random() < 0.25:
        keys.append(rng.choice(keys))          # a key twice: the later value wins
    if rng.random() < 0.25:
        # round 6c: both spellings of one entry (the abbreviated key wins, wherever it stands), possibly repeated
        a, f = rng.choice(_KEY_PAIRS)
        keys += [a, f] + ([rng.choice([a, f])] if rng.random() < 0.4 else [])
    rng.shuffle(keys)
    for k in keys:
        objs.append(W.Name(k.encode()))
        if k in ("W", "Width", "H", "Height"):
            v = rng.choice([1, 2, 3, 5, 8, 0, -1, 70000, True, 1.5, W.Name(b"x")]) if rng.random() < 0.25 else rng.randint(1, 9)
        elif k in ("BPC", "BitsPerComponent"):
            v = rng.choice([1, 2, 4, 8, 8, 16, 0, 3, False, 8.0])
        elif k in ("CS", "ColorSpace"):
            r = rng.random()
            if r < 0.6:
                v = W.Name(rng.choice(CS_NAMES).encode())
            elif r < 0.85:
                v = [W.Name(rng.choice(CS_NAMES).encode()), W.Name(rng.choice(CS_NAMES).encode()), rng.randint(0, 255), b"\x00\xff"]
            else:
                v = rng.choice([[], 3, b"str", [7, W.Name(b"G")]])
        elif k in ("F", "Filter"):
            r = rng.random()
            if r < 0.5:
                v = W.Name(rng.choice(FLT_NAMES).encode())
            elif r < 0.85:
                v = [W.Name(rng.choice(FLT_NAMES).encode()) for _ in range(rng.randint(1, 3))]
            else:
                v = rng.choice([[], 5, True, [3, W.Name(b"A85")], b"s"])
        elif k in ("IM", "ImageMask", "I"):
            v = rng.choice([True, False, True, 1, W.Name(b"true")])
        else:
            v = rng.choice([[0, 1], 1.0, b"x", W.Name(b"n"), 7, {"K": 1}])
        objs.append(v)
    if rng.random() < 0.08 and objs:
        objs.pop()                                  # odd number of operands
    return objs


class _RecDevice:
    def __init__(self):
        self.images = []

    def begin_figure(self, *a):
        pass

    def end_figure(self, *a):
        pass

    def render_image(self, name, stream):
        from pdfminer.layout import LTImage
        self.images.append(LTImage(name, stream, (0, 0, 1, 1)))


def impl_inline_dict(objs, inp: bytes, bufsiz: int) -> str:
    from pdfminer import pdfinterp as PI
    from pdfminer.pdftypes import PDFStream
    from pdfminer.psparser import PSEOF, PSKeyword
    head = b"BI " + b" ".join(W.ser(o) for o in objs) + b" ID"
    content = head + b" " + inp
    p = PI.PDFContentParser([PDFStream({}, content)])
    p.BUFSIZ = bufsiz
    try:
        (pos, obj) = p.nextobject()
    except PSEOF:
        return "E:noimage"
    except (IndexError, TypeError) as e:
        return "E:" + type(e).__name__
    except Exception:  # noqa: BLE001
        return "E:noimage"
    if not isinstance(obj, PDFStream):
        return "E:noimage"
    after = p.bufpos + (p.charpos if p.buf else 0)
    push_ei = False
    try:
        (pos2, obj2) = p.nextobject()
        push_ei = isinstance(obj2, PSKeyword) and obj2 is p.KEYWORD_EI and pos2 == pos
    except Exception:  # noqa: BLE001
        pass
    size = PI.inline_image_size(obj.attrs)
    dev = _RecDevice()
    it = PI.PDFPageInterpreter(PI.PDFResourceManager(), dev)
    it.do_EI(obj)
    if dev.images:
        lt = dev.images[0]
        ltxt = "src=%s/%s;bits=%s;cs=%s;im=%s" % (val_wire(lt.srcsize[0]), val_wire(lt.srcsize[1]), val_wire(lt.bits),
                                                  "|".join(val_wire(x) for x in lt.colorspace), val_wire(lt.imagemask))
    else:
        ltxt = "none"
    return "OK ei=%d size=%s data=%s consumed=%d lt=%s" % (push_ei, "-" if size is None else size, C.hx(obj.rawdata or b""),
                                                             after - (len(head) + 1), ltxt)


def run_inline_dict(ctx: C.Ctx) -> None:
    rng = ctx.rng
    lines, impl, inputs = [], [], []
    for i in range(ctx.n(1500, 30000)):
        objs = gen_dict_objs(rng)
        data = gen_inline_data(rng)
        sep = rng.choice([b"\n", b"\r\n", b"\r", b" ", b""])
        if rng.random() < 0.3:
            body = bytes(rng.choice(b"ab!~>z") for _ in range(rng.randint(0, 6))) + b"~>" + rng.choice([b"\n", b" ", b""]) + b"EI\n Q"
        else:
            body = data + sep + b"EI" + rng.choice([b"\n", b" ", b"\t", b""]) + rng.choice([b"", b"Q", b"EI "])
        wire = ",".join(val_wire(o) for o in objs) or "-"
        bs = rng.choice([1, 3, 7, 4096, 4096])
        lines.append("inlinedict %s %s" % (wire, C.hx(body)))
        r = impl_inline_dict(objs, body, bs)
        impl.append(r)
        inputs.append(("inlinedict", {"objs": wire, "input": body.hex(), "bufsiz": bs}))
        ctx.case(("idict", wire, body), True, branch="inlinedict:" + (r.split(" ")[0] if r.startswith("E:") else
                                                                      ("lt" if not r.endswith("lt=none") else "no-lt")))
        knames = [o.b.decode("latin-1") if isinstance(o, W.Name) else None for o in objs[0::2]]
        if len(set(knames)) < len(knames):
            ctx.branch("inlinedict:key-repeated")
        if any(a in knames and f in knames for a, f in _KEY_PAIRS):
            ctx.branch("inlinedict:both-spellings")
        if " size=-" not in r and r.startswith("OK"):
            ctx.branch("inlinedict:size-known")
        if r.startswith("OK ei=0"):
            ctx.branch("inlinedict:a85-marker")
    if ctx.driver is None:
        return
    outs = ctx.driver.ask(lines)
    for inp, i_out, m_out in zip(inputs, impl, outs):
        if m_out in ("E:dropped", "E:EOF"):
            m_out = "E:noimage"
        if i_out != m_out:
            ctx.disagree(inp[0], inp[1], i_out[:300], m_out[:300])


# ------------------------------------------------------------------ translated definitions + reader twin

def run_small(ctx: C.Ctx) -> None:
    from pdfminer import image as I
    rng = ctx.rng
    lines, impl, inputs = [], [], []
    for x in list(range(0, 70)) + [rng.randrange(0, 10 ** 6) for _ in range(ctx.n(100, 3000))]:
        lines.append("align32 %d" % x)
        impl.append(str(I.align32(x)))
        inputs.append(("align32", x))
        ctx.case(("align32", x), x % 4 != 0, branch="align32")
        if I.align32(x) % 4 != 0 or not (x <= I.align32(x) < x + 4):
            ctx.fail(C.Failure("align32 is not the next multiple of 4", {"mode": "align32", "x": x},
                               (x + 3) // 4 * 4, I.align32(x), {"area": "align32"}))
    # reader twin on damaged files: both readers must take the same decision
    for i in range(ctx.n(600, 10000)):
        img = gen_image(rng, i, force_kind=rng.choice(["gray8", "rgb8", "bit1"]), force_w=rng.randint(1, 9))
        img["h"] = rng.randint(1, 3)
        img["data"] = gen_samples(rng, img["h"] * IL.row_bytes(img["kind"], img["w"])).hex()
        img["filters"] = ["Flate"]
        res, _, _ = export_direct([img], None, [])
        blob = res[0][1]
        if blob is None:
            continue
        b = bytearray(blob)
        m = rng.random()
        if m < 0.35:
            b = b[:rng.randrange(0, len(b))]
        elif m < 0.8:
            k = rng.randrange(0, min(len(b), 54))
            b[k] = rng.choice([0, 1, 8, 24, 40, 255, b[k] ^ 1])
        else:
            b += b"\0" * rng.randint(1, 4)
        lines.append("readbmp " + C.hx(bytes(b)))
        dec = IL.read_bmp(bytes(b))
        impl.append("none" if dec is None else "OK %d %d %s" % (dec[0], dec[1], C.hx(dec[2])))
        inputs.append(("readbmp", {"file": bytes(b).hex()}))
        ctx.case(("rb", bytes(b)), True, branch="readbmp:" + ("reject" if dec is None else "accept"))
    ask_and_compare(ctx, lines, impl, inputs)


# ------------------------------------------------------------------ corpus / replay / run

def replay(ctx: C.Ctx, doc, from_corpus: bool = False) -> None:
    inp = doc.get("input", {})
    mode = inp.get("mode")
    ctx.branch("corpus" if from_corpus else "replay")
    if mode == "direct":
        lines, impl, inputs = [], [], []
        check_export_direct(ctx, inp["images"], inp.get("pre", []), lines, impl, inputs)
        ask_and_compare(ctx, lines, impl, inputs)
    elif mode == "pipeline":
        check_pipeline(ctx, inp["pages"])
    elif mode == "ltimage":
        check_ltimage(ctx, inp["pages"])
    elif mode == "inline":
        lines, impl, inputs = [], [], []
        check_inline_case(ctx, inp["case"], True, lines, impl, inputs)
        ask_and_compare(ctx, lines, impl, inputs)
    elif mode == "scan":
        lines, impl, inputs = [], [], []
        check_scan_input(ctx, bytes.fromhex(inp["input"]), inp.get("hint"), inp.get("bufsiz", 4096), lines, impl, inputs)
        ask_and_compare(ctx, lines, impl, inputs)
    elif mode == "align32":
        from pdfminer import image as I
        x = inp["x"]
        ctx.case(("align32", x), True)
        if I.align32(x) != (x + 3) // 4 * 4:
            ctx.fail(C.Failure("align32 is not the next multiple of 4", inp, (x + 3) // 4 * 4, I.align32(x),
                               {"area": "align32"}))


def run_corpus(ctx: C.Ctx) -> None:
    for path in sorted(glob.glob(os.path.join(C.VERIF, "corpus", "C18", "*.json"))):
        with open(path) as fp:
            replay(ctx, json.load(fp), from_corpus=True)


def run(ctx: C.Ctx) -> None:
    import logging
    logging.getLogger("pdfminer").setLevel(logging.ERROR)      # damaged images are reported with warnings: not our output
    run_corpus(ctx)
    run_small(ctx)
    run_export(ctx)
    run_inline(ctx)
    run_inline_dict(ctx)
    run_pipeline_cases(ctx)
