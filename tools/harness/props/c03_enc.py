"""Reference ENCODERS for C03 (trusted; each has a Lean twin in lean/PdfVerif/Spec/FilterEnc.lean
and the harness checks Python output == Lean output on every generated case).

Every encoder is a pure function of the payload and an explicit *choice* argument, so that the
Lean theorems `decode (encode choices x) = x` quantify over exactly what is generated here.

    ahx_enc(x, cs, tail)            ASCIIHex: per byte c: bit0/bit1 upper-case hi/lo digit,
                                    (c//4)%7 white space between the digits, (c//28)%7 after;
                                    tail 0 '>' | 1 no EOD | 2 '>' with a final '0' digit dropped
    a85_body(x, cs)                 ASCII85 groups: per group c: bit0 'z' for a zero group,
                                    (c//2)%6 white space after the group
    a85_enc(x, cs, pre, post)       pre/post = (mode, a, b, c): framing `<~` … `~>` with white space
    rl_enc(segs, eod)               RunLength from an explicit segmentation
    lzw_enc(x, clears)              LZW, early change, Clear first, extra Clear after the n-th
                                    data code for n in clears, forced Clear after 3839 codes, EOD
    png_enc(colors, columns, bpc, fts, x)   PNG predictor rows with filter types fts
    tiff_enc(colors, columns, x)    TIFF predictor 2, 8 bits per component
"""

from __future__ import annotations

from typing import Iterable, List, Sequence, Tuple

WS7 = [b"", b" ", b"\t", b"\n", b"\r", b"\x0c", b"\x0b"]      # all of Python's \s
WS6 = [b"", b" ", b"\t", b"\n", b"\r", b"\x0b"]               # a85decode's ignorechars


# ----------------------------------------------------------------------------- ASCIIHex

def hexdigit(n: int, upper: bool) -> bytes:
    return bytes([48 + n]) if n < 10 else bytes([(55 if upper else 87) + n])


def ahx_enc(x: bytes, cs: Sequence[int], tail: int) -> bytes:
    out = bytearray()
    n = len(x)
    for i, b in enumerate(x):
        c = cs[i] if i < len(cs) else 0
        drop = (tail == 2 and i == n - 1 and b % 16 == 0)
        out += hexdigit(b // 16, c % 2 == 1)
        out += WS7[(c // 4) % 7]
        if not drop:
            out += hexdigit(b % 16, (c // 2) % 2 == 1)
        out += WS7[(c // 28) % 7]
    if tail != 1:
        out += b">"
    return bytes(out)


# ----------------------------------------------------------------------------- ASCII85

def a85_digits(v: int) -> bytes:
    ds = []
    for _ in range(5):
        ds.append(33 + v % 85)
        v //= 85
    return bytes(reversed(ds))


def a85_body(x: bytes, cs: Sequence[int]) -> bytes:
    out = bytearray()
    g = 0
    for i in range(0, len(x), 4):
        c = cs[g] if g < len(cs) else 0
        g += 1
        chunk = x[i:i + 4]
        if len(chunk) == 4:
            v = int.from_bytes(chunk, "big")
            if v == 0 and c % 2 == 1:
                out += b"z"
            else:
                out += a85_digits(v)
        else:
            v = int.from_bytes(chunk + b"\0" * (4 - len(chunk)), "big")
            out += a85_digits(v)[:len(chunk) + 1]
        out += WS6[(c // 2) % 6]
    return bytes(out)


def a85_pre(p: Tuple[int, int, int, int]) -> bytes:
    m, a, b, c = p
    if m == 0:
        return WS6[a % 6]
    if m == 1:
        return WS6[a % 6] + b"~" + WS6[c % 6]
    return WS6[a % 6] + b"<" + WS6[b % 6] + b"~" + WS6[c % 6]


def a85_post(p: Tuple[int, int, int, int]) -> bytes:
    m, a, b, c = p
    if m == 0:
        return WS6[a % 6]
    if m == 1:
        return WS6[a % 6] + b"~" + WS6[c % 6]
    return WS6[a % 6] + b"~" + WS6[b % 6] + b">" + WS6[c % 6]


def a85_enc(x: bytes, cs: Sequence[int], pre=(0, 0, 0, 0), post=(2, 0, 0, 0)) -> bytes:
    return a85_pre(pre) + a85_body(x, cs) + a85_post(post)


# ----------------------------------------------------------------------------- RunLength

Seg = Tuple  # ("L", bytes 1..128) | ("R", n 2..128, byte)


def rl_enc(segs: Iterable[Seg], eod: bool) -> bytes:
    out = bytearray()
    for s in segs:
        if s[0] == "L":
            assert 1 <= len(s[1]) <= 128
            out.append(len(s[1]) - 1)
            out += s[1]
        else:
            assert 2 <= s[1] <= 128
            out.append(257 - s[1])
            out.append(s[2])
    if eod:
        out.append(128)
    return bytes(out)


def rl_flat(segs: Iterable[Seg]) -> bytes:
    return b"".join(s[1] if s[0] == "L" else bytes([s[2]]) * s[1] for s in segs)


# ----------------------------------------------------------------------------- LZW

LZW_MAXSEG = 3839   # data codes per Clear segment: the next code would need 13 bits


def lzw_width(j: int) -> int:
    """Width of the next code when j data codes were emitted since the last Clear
    (the decoder's table then has 257 + j entries for j >= 1; early change)."""
    ln = 257 + j
    if ln < 511:
        return 9
    if ln < 1023:
        return 10
    if ln < 2047:
        return 11
    return 12


def lzw_codes(x: bytes, clears) -> List[int]:
    """Code sequence: 256, greedy longest-match codes, optional 256s, 257."""
    codes = [256]
    table = {}
    nxt = 258
    w = b""
    j = 0          # data codes since the last Clear
    total = 0      # data codes emitted in all
    for b in x:
        if not w:
            w = bytes([b])
            continue
        wc = w + bytes([b])
        if wc in table:
            w = wc
            continue
        codes.append(w[0] if len(w) == 1 else table[w])
        j += 1
        total += 1
        if j >= LZW_MAXSEG or total in clears:
            codes.append(256)
            table = {}
            nxt = 258
            j = 0
        else:
            table[wc] = nxt
            nxt += 1
        w = bytes([b])
    if w:
        codes.append(w[0] if len(w) == 1 else table[w])
    codes.append(257)
    return codes


def lzw_pack(codes: Sequence[int]) -> bytes:
    acc = 0
    nacc = 0
    out = bytearray()
    j = 0
    for c in codes:
        wd = lzw_width(j)
        acc = (acc << wd) | c
        nacc += wd
        while nacc >= 8:
            out.append((acc >> (nacc - 8)) & 255)
            nacc -= 8
        acc &= (1 << nacc) - 1
        if c == 256:
            j = 0
        elif c != 257:
            j += 1
    if nacc:
        out.append((acc << (8 - nacc)) & 255)
    return bytes(out)


def lzw_enc(x: bytes, clears=frozenset()) -> bytes:
    return lzw_pack(lzw_codes(x, clears))


# ----------------------------------------------------------------------------- predictors

def paeth(a: int, b: int, c: int) -> int:
    p = a + b - c
    pa, pb, pc = abs(p - a), abs(p - b), abs(p - c)
    if pa <= pb and pa <= pc:
        return a
    if pb <= pc:
        return b
    return c


def png_geometry(colors: int, columns: int, bpc: int) -> Tuple[int, int]:
    nbytes = (colors * columns * bpc + 7) // 8
    bpp = max(1, colors * bpc // 8)
    return nbytes, bpp


def png_enc(colors: int, columns: int, bpc: int, fts: Sequence[int], x: bytes) -> bytes:
    nbytes, bpp = png_geometry(colors, columns, bpc)
    if nbytes == 0:
        assert len(x) == 0
        return bytes(fts)
    assert len(x) % nbytes == 0 and len(fts) == len(x) // nbytes
    out = bytearray()
    prior = bytes(nbytes)
    for r, ft in enumerate(fts):
        row = x[r * nbytes:(r + 1) * nbytes]
        out.append(ft)
        for j, v in enumerate(row):
            a = row[j - bpp] if j >= bpp else 0
            b = prior[j]
            c = prior[j - bpp] if j >= bpp else 0
            p = [0, a, b, (a + b) // 2, paeth(a, b, c)][ft]
            out.append((v - p) & 255)
        prior = row
    return bytes(out)


def tiff_enc(colors: int, columns: int, x: bytes) -> bytes:
    nbytes = colors * columns
    assert nbytes > 0 and len(x) % nbytes == 0
    out = bytearray()
    for r in range(0, len(x), nbytes):
        row = x[r:r + nbytes]
        for j, v in enumerate(row):
            out.append((v - (row[j - colors] if j >= colors else 0)) & 255)
    return bytes(out)
