"""C08 - layout analysis conserves content and keeps its hierarchy well-formed.

Three relations on every run:
  (tie)   Lean model `PdfVerif.Layout.analyze` (drv_c08)  ==  LTLayoutContainer.analyze of the
          implementation, compared on a canonical dump of the whole result tree (page children,
          lines, glyph ids, annos, exact bounding boxes, indices, the group hierarchy);
  (prop)  the implementation's result tree itself satisfies C08 (layout_lib.check_case):
          every glyph/item exactly once, bbox = union of members, one trailing line break,
          line order, indices 0..n-1 in output order, text = concatenation, boxes = leaves of
          the group hierarchy;
  (proof) lean/PdfVerif/Props/C08.lean: the same statements for ALL glyph lists / LAParams of the model.
"""

from __future__ import annotations

import glob
import json
import os
from fractions import Fraction as F
from typing import Any, Dict, List

from harness import common as C
from harness import layout_lib as L

LEVEL = "proof"
RULE = ("pages built from real LTChar objects with exact dyadic boxes: text-like runs whose gaps / line pitches / "
        "offsets sit on, just below and just above the char_margin, word_margin, line_margin and line_overlap "
        "thresholds, scattered glyphs, zero-size / blank / empty-text / multi-character glyphs, off-page and far "
        "(|coord| > 2^31) glyphs, other items and nested figures; LAParams incl. 0, negative, huge, "
        "boxes_flow in {None,-1..1}, detect_vertical, all_texts; plus documents written as PDF and read through "
        "extract_pages. A case is non-trivial when it is a distinct input with >= 2 glyphs that produced >= 1 text box")
TRUSTED_BASE = [
    "hand model lean/PdfVerif/Model/Layout.lean of pdfminer/layout.py (group_objects, LTTextLine*.add, "
    "LTExpandableContainer.add, find_neighbors, group_textlines, group_textboxes, IndexAssigner, analyze, "
    "LTTextBox*/LTTextGroup*.analyze) - tied to the code by the differential tree-dump correspondence on every run",
    "hand model lean/PdfVerif/Model/Plane.lean of utils.Plane (C20) and the regenerated drange (Gen/Utils.lean)",
    "regenerated tables Gen/Layout.lean (LAParams defaults, Plane gridsize) from pdfminer/layout.py, utils.py",
    "exact rationals stand for Python floats (no rounding modelled); Python str.isspace modelled by a code-point table "
    "that the harness compares with the interpreter on every run",
    "heap of group_textboxes: modelled as a list popped at its least element under the tuple order "
    "(skip_isany, d, seq1, seq2) with creation numbers (the code's order since fix 0d18780; the shape of the heap "
    "tuples is re-checked by the translator on every run); C08_heap_order proves that this order is total and "
    "antisymmetric and C08_pop_least that popMin returns THE least entry, so heapq's internal layout cannot matter; "
    "cases with equal minimal distances (flag `tie`) are compared completely; the theorems are moreover proved for "
    "EVERY heap comparison",
]
ASSUMPTIONS = [
    "coordinates and LAParams are exact rationals (fractions.Fraction on the Python side); IEEE rounding is not modelled",
    "glyph boxes are well formed (x0<=x1, y0<=y1) as LTChar.__init__ guarantees; every item is a distinct object",
    "an LTFigure is analysed as its own layout container (all_texts) and is an opaque item of its parent",
]
STATEMENT_STATUS: Dict[str, str] = {
    "C08_terminates": "proved (fuel 3n^2+1 of the group_textboxes loop never exhausted; for every heap comparison)",
    "C08_gtb_fuel_suffices": "proved",
    "C08_no_internal_error": "proved (no KeyError in plane.remove, no dangling heap entry)",
    "C08_group_objects_conserve": "proved (order-preserving)",
    "C08_group_textlines_conserve": "proved (partition invariant; uses C20 plane_find; page box well formed)",
    "C08_group_textboxes_conserve": "proved (for every heap comparison, i.e. every id() tie-break)",
    "C08_conserve_glyphs": "proved (multiset of glyphs in the result = input)",
    "C08_conserve_others": "proved",
    "C08_figure": "proved (definition of LTFigure.analyze; nested figures are analysed container by container)",
    "C08_lines": "proved (>=1 glyph, bbox = tight hull, one orientation, exactly one trailing line break)",
    "C08_boxes": "proved (>=1 line, bbox = tight hull, lines in descending y1 / x1)",
    "C08_index": "proved for both boxes_flow branches (after fix bdb2e94)",
    "C08_hierarchy": "proved (leaves in DFS order = output boxes; group bbox, class, member order)",
    "C08_text_line": "proved (definitional)", "C08_text_box": "proved (definitional)",
    "C08_text_group": "proved (definitional)", "C08_text_line_break": "proved",
    "C08_box_uniform": "proved (a box only holds lines of its own class)",
    "C08_conserve_glyphs_figures": "proved (figures inside figures, any depth, all_texts on or off)",
    "C08_conserve_glyphs_nested": "proved: multiset of glyphs over the WHOLE page tree incl. nested figures is conserved",
    "C08_heap_order": "proved (HEntry.le = tuple order (skip_isany, d, seq1, seq2) is total, transitive, antisymmetric)",
    "C08_pop_least": "proved (popMin returns a member below every entry, the rest is the heap minus it, and it is the "
                     "ONLY least member: independent of heapq's layout); tied to heapq.heappop by op `heapmin`",
    "C08_heap_shape": "proved over the regenerated Gen.Layout.HEAP_SHAPE (pushes, pop, sequence numbers, liveness test "
                      "of group_textboxes as the model assumes them)",
    "C08_pop_some": "proved (a non-empty heap pops, for every comparison)",
    "C08_anno_group_objects": "proved (members of every line of group_objects = word-margin specification of its glyphs)",
    "C08_anno_exact": "proved (every line of the result has EXACTLY the specified members: glyphs in content order, "
                      "a space iff the documented predicate holds between consecutive glyphs, one final line break); "
                      "checked on the implementation's lines by op `annospec`",
    "C08_detect_vertical": "proved (detect_vertical off: every line, every box and every group at any depth is of the "
                           "horizontal / LRTB class); oracle: vertical-without-detect_vertical, box-orientation-uniform, group class",
    "C08_no_glyphs": "proved (a page without glyphs is returned unchanged, no groups)",
    "C08_single_root": "proved (group_textboxes ends with at most one object in the plane, for every heap comparison)",
}

CLASSIFIERS = {
    # kept for the record: both were fixed in the repo, no open finding uses them
    "c08_index_unassigned_boxes_flow_none": lambda f: f.tags.get("check") == "box-index" and f.tags.get("boxes_flow_none"),
    "c08_bbox_beyond_int_sentinel": lambda f: str(f.tags.get("check", "")).startswith("bbox-") and f.tags.get("far"),
}


# --------------------------------------------------------------------------- evaluation of one case

def far(case) -> bool:
    lim = (1 << 31) - 1

    def rec(items):
        for it in items:
            if it[0] == "f":
                if rec(it[6]):
                    return True
            elif any(abs(F(v)) >= lim for v in it[2:6]):
                return True
        return False
    return rec(case["items"])


def impl_failures(case):
    """Property C08 evaluated on the implementation. Returns (page|None, [(check, expected, got)])."""
    page, err = L.run_impl(case)
    if err is not None:
        return None, [("exception", "analysis terminates normally", "%s: %s" % (type(err).__name__, str(err)[:100]))]
    return page, [(name if not path else name + "@fig", exp, got) for path, name, exp, got in L.check_case(case, page)]


def shrink(case, check_name):
    """ddmin over the top-level items, keeping a failure of the same check."""
    def still(items):
        c2 = dict(case, items=items)
        _, fl = impl_failures(c2)
        return any(f[0] == check_name for f in fl)
    items = C.ddmin(list(case["items"]), still, max_tests=150)
    c2 = dict(case, items=items)
    _, fl = impl_failures(c2)
    hit = [f for f in fl if f[0] == check_name]
    if not hit:
        return case, None
    return c2, hit[0]


def report_failure(ctx: C.Ctx, case, first):
    name = first[0]
    seen = ctx.extra.setdefault("_failure_kinds", {})
    seen[name] = seen.get(name, 0) + 1
    if seen[name] > 2:
        return                      # the same check already has a minimised replay
    if "AnalysisTimeout" in str(first[2]) or seen[name] > 1 or not ctx.time_left():
        small, hit = case, first    # every shrinking step could cost a whole time-out
    else:
        small, hit = shrink(case, name)
        if hit is None:
            small, hit = case, first
    tags = {"check": name.split("@")[0], "boxes_flow_none": small["la"].get("boxes_flow") is None,
            "far": far(small), "glyphs": L.n_glyphs(small)}
    ctx.fail(C.Failure("layout analysis breaks C08: " + name.split("@")[0], small, hit[1], hit[2], tags))


def uniform_requests(case, page):
    """One request per pair of consecutive glyphs of every text line: the pair has to satisfy the DOCUMENTED
    join predicate of the line's class ("every line holds glyphs of one orientation")."""
    from pdfminer.layout import LTChar, LTTextBox, LTTextLine, LTTextLineVertical
    la = case["la"]
    reqs, meta = [], []
    for path, mode, bbox, items in L.containers(case):
        if mode == "fig0":
            continue
        cont = L.find_container(page, path)
        if cont is None:
            continue
        lines = []
        for o in cont:
            if isinstance(o, LTTextBox):
                lines.extend(l for l in o if isinstance(l, LTTextLine))
            elif isinstance(o, LTTextLine):
                lines.append(o)
        for l in lines:
            chars = [e for e in l if isinstance(e, LTChar)]
            name = "valign" if isinstance(l, LTTextLineVertical) else "halign"
            for c0, c1 in zip(chars, chars[1:]):
                nums = [F(la["line_overlap"]), F(la["char_margin"])] + [F(v) for v in c0.bbox] + [F(v) for v in c1.bbox]
                reqs.append("pred %s %s" % (name, " ".join(L.fs(x) for x in nums)))
                meta.append((name, getattr(c0, "_vid", "?"), getattr(c1, "_vid", "?")))
    return reqs, meta


def uniform_failure(ctx: C.Ctx, case):
    """(expected, got) of the first non-uniform line of `case`, or None (used while shrinking)."""
    if ctx.driver is None:
        return None
    page, err = L.run_impl(case)
    if err is not None:
        return None
    reqs, meta = uniform_requests(case, page)
    if not reqs:
        return None
    for (name, i0, i1), out in zip(meta, ctx.driver.ask(reqs)):
        if out.split()[1] != "1":
            return ("consecutive glyphs of a %s line satisfy the documented %s join predicate"
                    % ("vertical" if name == "valign" else "horizontal", name), "glyphs c%s, c%s do not" % (i0, i1))
    return None


def anno_requests(case, page):
    """One request per text line (in a box or kept as an empty line) of every analysed container: the line's members
    must be EXACTLY what the word-margin specification (`Spec.lineElemsBreak`, theorem C08_anno_exact) prescribes
    for the line's glyphs - every space and line-break annotation accounted for, nothing else inserted."""
    from pdfminer.layout import LTChar, LTTextBox, LTTextLine, LTTextLineVertical
    la = case["la"]
    reqs, meta = [], []
    for path, mode, bbox, items in L.containers(case):
        if mode == "fig0":
            continue
        cont = L.find_container(page, path)
        if cont is None:
            continue
        lines = []
        for o in cont:
            if isinstance(o, LTTextBox):
                lines += list(o)
            elif isinstance(o, LTTextLine):
                lines.append(o)
        for l in lines:
            chars = [e for e in l if isinstance(e, LTChar)]
            try:
                nums = " ".join("%s %s" % (getattr(c, "_vid", 0), " ".join(L.fs(F(v)) for v in c.bbox)) for c in chars)
            except (OverflowError, ValueError, TypeError):
                continue
            cls = "V" if isinstance(l, LTTextLineVertical) else "H"
            reqs.append("annospec %s %s %d %s" % (cls, L.fs(F(la["word_margin"])), len(chars), nums))
            meta.append((cls, " ".join(L.dump_elem(e) for e in l)))
    return reqs, meta


def anno_failure(ctx: C.Ctx, case):
    """(expected, got) of the first line of `case` whose members differ from the specification, or None."""
    if ctx.driver is None:
        return None
    page, err = L.run_impl(case)
    if err is not None:
        return None
    reqs, meta = anno_requests(case, page)
    if not reqs:
        return None
    for (cls, got), out in zip(meta, ctx.driver.ask(reqs)):
        if out != got:
            return ("members of the %s line as specified by word_margin: %s" % (cls, out), got)
    return None


class Batch:
    """Collects model requests of many cases, asks the driver once, compares."""

    def __init__(self, ctx: C.Ctx):
        self.ctx = ctx
        self.lines: List[str] = []
        self.meta: List[Any] = []
        self.ureqs: List[str] = []
        self.umeta: List[Any] = []
        self.areqs: List[str] = []
        self.ameta: List[Any] = []

    def add(self, case, page):
        r, m = uniform_requests(case, page)
        if r:
            self.ureqs += r
            self.umeta += [(case, x) for x in m]
        r, m = anno_requests(case, page)
        if r:
            self.areqs += r
            self.ameta += [(case, x) for x in m]
        for path, mode, bbox, items in L.containers(case):
            cont = L.find_container(page, path)
            if cont is None:
                continue
            full, weak = L.dump_container(cont)
            self.lines.append(L.model_line(bbox, case["la"], items, mode))
            self.meta.append((case, path, full, weak))

    def flush_uniform(self):
        ctx = self.ctx
        reqs, meta = self.ureqs, self.umeta
        self.ureqs, self.umeta = [], []
        if ctx.driver is None or not reqs:
            return
        bad_cases = []
        for (case, (name, i0, i1)), out in zip(meta, ctx.driver.ask(reqs)):
            ctx.branch("uniform-pair:" + name)
            if out.split()[1] != "1" and not any(c is case for c in bad_cases):
                bad_cases.append(case)
        for case in bad_cases[:3]:
            ctx.branch("fail:line-uniform")
            seen = ctx.extra.setdefault("_failure_kinds", {})
            seen["line-uniform"] = seen.get("line-uniform", 0) + 1
            small = case
            if seen["line-uniform"] == 1:
                items = C.ddmin(list(case["items"]), lambda its: uniform_failure(ctx, dict(case, items=its)) is not None,
                                max_tests=80)
                if uniform_failure(ctx, dict(case, items=items)) is not None:
                    small = dict(case, items=items)
            hit = uniform_failure(ctx, small) or ("uniform line", "not uniform")
            ctx.fail(C.Failure("layout analysis breaks C08: line-uniform", small, hit[0], hit[1],
                               {"check": "line-uniform", "boxes_flow_none": small["la"].get("boxes_flow") is None,
                                "far": far(small), "glyphs": L.n_glyphs(small)}))

    def flush_anno(self):
        ctx = self.ctx
        reqs, meta = self.areqs, self.ameta
        self.areqs, self.ameta = [], []
        if ctx.driver is None or not reqs:
            return
        bad_cases = []
        for (case, (cls, got)), out in zip(meta, ctx.driver.ask(reqs)):
            ctx.branch("anno-line:%s:%s" % (cls, "spaces" if " s" in got else "no-space"))
            if out != got and not any(c is case for c in bad_cases):
                bad_cases.append(case)
        for case in bad_cases[:3]:
            ctx.branch("fail:anno-exact")
            seen = ctx.extra.setdefault("_failure_kinds", {})
            seen["anno-exact"] = seen.get("anno-exact", 0) + 1
            small = case
            if seen["anno-exact"] == 1:
                items = C.ddmin(list(case["items"]), lambda its: anno_failure(ctx, dict(case, items=its)) is not None,
                                max_tests=80)
                if anno_failure(ctx, dict(case, items=items)) is not None:
                    small = dict(case, items=items)
            elif seen["anno-exact"] > 2:
                continue
            hit = anno_failure(ctx, small) or ("members as specified", "differ")
            ctx.fail(C.Failure("layout analysis breaks C08: anno-exact", small, hit[0], hit[1],
                               {"check": "anno-exact", "boxes_flow_none": small["la"].get("boxes_flow") is None,
                                "far": far(small), "glyphs": L.n_glyphs(small)}))

    def flush(self):
        ctx = self.ctx
        self.flush_uniform()
        self.flush_anno()
        if ctx.driver is None or not self.lines:
            self.lines, self.meta = [], []
            return
        outs = ctx.driver.ask(self.lines)
        for (case, path, full, weak), out in zip(self.meta, outs):
            parts = out.split(" ||| ")
            if len(parts) != 3:
                ctx.disagree("analyze", case, full, out[:300])
                continue
            m_full, m_weak, flags = parts
            ctx.branch("model:" + flags.replace(" ", "+"))
            if "fuel" in flags:
                ctx.disagree("analyze.fuel", case, full, "model ran out of fuel")
            elif m_full != full:
                # since fix 0d18780 the heap of group_textboxes is ordered by (skip_isany, d, seq1, seq2) with
                # creation numbers - exactly `HEntry.le` of the model - so a case with equal minimal distances
                # (flag `tie`) is decided completely, like every other case
                if "tie" in flags:
                    ctx.branch("model:tie-full-tree-differs")
                ctx.disagree("analyze", {"case": case, "path": path}, full, m_full)
        self.lines, self.meta = [], []


def stats(ctx: C.Ctx, case, page):
    from pdfminer.layout import LTAnno, LTTextBox, LTTextBoxVertical, LTTextLine
    kids = list(page)
    nb = sum(isinstance(o, LTTextBox) for o in kids)
    ctx.branch("boxes:%s" % ("0" if nb == 0 else "1" if nb == 1 else "2-4" if nb <= 4 else "5+"))
    if any(isinstance(o, LTTextBoxVertical) for o in kids):
        ctx.branch("vertical-box")
    if any(isinstance(o, LTTextLine) for o in kids):
        ctx.branch("empty-line")
    if any(isinstance(o, LTTextBox) and len(o) > 1 for o in kids):
        ctx.branch("multi-line-box")
    if any(isinstance(e, LTAnno) and e.get_text() == " " for o in kids if isinstance(o, LTTextBox) for l in o for e in l):
        ctx.branch("space-inserted")
    for o in kids:
        if isinstance(o, LTTextBox) and len(o) > 1:
            vert = isinstance(o, LTTextBoxVertical)
            far = [F(l.x1) if vert else F(l.y1) for l in o]
            near = [F(l.x0) if vert else F(l.y0) for l in o]
            if vert:
                ctx.branch("vertical-box:multi-line")
            if sorted(range(len(far)), key=lambda i: (-far[i], i)) != sorted(range(len(near)), key=lambda i: (-near[i], i)):
                ctx.branch("box:near-edge-order-differs:" + ("V" if vert else "H"))
    ctx.branch("boxes_flow:" + ("None" if case["la"].get("boxes_flow") is None else "num"))
    if any(it[0] == "f" for it in case["items"]):
        ctx.branch("figure:" + ("all_texts" if case["la"].get("all_texts") else "opaque"))
    if any(it[0] == "o" for it in case["items"]):
        ctx.branch("other-items")
    return nb


def eval_case(ctx: C.Ctx, case, batch: Batch, kind: str) -> None:
    page, fl = impl_failures(case)
    n = L.n_glyphs(case)
    if page is not None:
        nb = stats(ctx, case, page)
        batch.add(case, page)
    else:
        nb = 0
    ctx.case(json.dumps(case, sort_keys=True), n >= 2 and nb >= 1,
             sample={"la": case["la"], "bbox": case["bbox"], "items": case["items"][:6], "n_items": len(case["items"])},
             branch="gen:" + kind)
    if fl:
        kinds = []
        for f in fl:
            if f[0] not in kinds:
                kinds.append(f[0])
                ctx.branch("fail:" + f[0])
                if len(kinds) <= 6:
                    report_failure(ctx, case, f)      # one (minimised) replay per KIND of broken invariant


# --------------------------------------------------------------------------- float mode and the PDF path

def float_cross_check(ctx: C.Ctx, case) -> None:
    """The same case with Python floats (all values are small dyadics, so float arithmetic is
    exact): the tree must be the one obtained with Fractions."""
    p1, e1 = L.run_impl(case, "frac")
    p2, e2 = L.run_impl(case, "float")
    ctx.branch("float-cross-check")
    if (e1 is None) != (e2 is None):
        ctx.disagree("float-vs-fraction", case, repr(e1), repr(e2))
        return
    if p1 is None:
        return
    for path, mode, bbox, items in L.containers(case):
        c1, c2 = L.find_container(p1, path), L.find_container(p2, path)
        if c1 is None or c2 is None:
            continue
        d1, d2 = L.dump_container(c1), L.dump_container(c2)
        if d1[1] != d2[1]:
            ctx.disagree("float-vs-fraction", case, d1[1][:400], d2[1][:400])


def pdf_case(rng, n_chars: int):
    """A one-page document: runs of text shown with Tj/Td at dyadic positions in a font whose
    widths and descent make every glyph box dyadic."""
    from harness import pdfwriter as W
    font = {"Type": "Font", "Subtype": "Type1", "BaseFont": "VerifSans", "FirstChar": 32, "LastChar": 126,
            "Widths": [500] * 95, "FontDescriptor": W.Ref(4), "Encoding": "WinAnsiEncoding"}
    fd = {"Type": "FontDescriptor", "FontName": "VerifSans", "Flags": 32, "FontBBox": [0, -250, 1000, 750],
          "ItalicAngle": 0, "Ascent": 750, "Descent": -250, "CapHeight": 700, "StemV": 80}
    ops = [b"BT"]
    size = rng.choice([8, 8, 12, 16])
    ops.append(b"/F1 %d Tf" % size)
    x, y = rng.choice([72, 100]), 700
    ops.append(b"%d %d Td" % (x, y))
    left = n_chars
    words = [b"ab", b"c", b"layout", b"x y", b" ", b"Hello", b"42", b"q"]
    while left > 0:
        w = rng.choice(words)
        ops.append(W.ser_string(w) + b" Tj")
        left -= len(w)
        r = rng.random()
        if r < 0.4:
            ops.append(b"%s 0 Td" % W.ser_real(F(rng.choice([1, 2, 4, 9, 40, 80]), rng.choice([1, 2]))))
        elif r < 0.8:
            ops.append(b"%d %s Td" % (rng.choice([0, 0, 0, 3, -20, 150]),
                                     W.ser_real(-F(size) * rng.choice([F(1), F(5, 4), F(3, 2), F(2), F(4)]))))
        elif r < 0.9:
            size = rng.choice([8, 12, 16])
            ops.append(b"/F1 %d Tf" % size)
    ops.append(b"ET")
    if rng.random() < 0.5:
        ops.append(b"10 10 100 50 re S")
    return W.simple_doc(b"\n".join(ops), resources={"Font": {"F1": W.Ref(3)}}, extra_objs={3: font, 4: fd})


def run_pdf(ctx: C.Ctx, batch: Batch) -> None:
    import io
    from pdfminer.converter import PDFPageAggregator
    from pdfminer.layout import LTChar
    from pdfminer.pdfinterp import PDFPageInterpreter, PDFResourceManager
    from pdfminer.pdfpage import PDFPage
    rng = ctx.rng
    for i in range(ctx.n(25, 400)):
        if not ctx.time_left():
            break
        data = pdf_case(rng, rng.randint(1, 40))
        la = L.gen_la(rng, wild=False)
        la["all_texts"] = False
        try:
            rm = PDFResourceManager()
            dev = PDFPageAggregator(rm, laparams=None)
            interp = PDFPageInterpreter(rm, dev)
            pages = list(PDFPage.get_pages(io.BytesIO(data)))
            interp.process_page(pages[0])
            raw = dev.get_result()
        except Exception as e:  # noqa: BLE001
            raise C.Infra("generated PDF unreadable: %r" % e)
        items = []
        k = 0
        for o in raw:
            k += 1
            o._vid = k
            if isinstance(o, LTChar):
                items.append(["c", k] + [L.fs(F(v)) for v in (o.x0, o.y0, o.x1, o.y1)] + [o.get_text()])
            else:
                items.append(["o", k] + [L.fs(F(v)) for v in (o.x0, o.y0, o.x1, o.y1)] + ["rect"])
        case = {"bbox": [L.fs(F(v)) for v in raw.bbox], "la": la, "items": items}
        dy = all(F(v).denominator <= 1024 for it in items for v in it[2:6])
        # analyse the REAL page object (float arithmetic, real LTChar from the interpreter)
        try:
            raw.analyze(L.make_laparams(la, "float"))
        except Exception as e:  # noqa: BLE001
            ctx.fail(C.Failure("layout analysis breaks C08: exception", case, "terminates", repr(e),
                               {"check": "exception", "pdf": True}))
            continue
        fl = L.check_container(raw, items, la, True)
        ctx.case(("pdf", data), len(items) >= 2, branch="gen:pdf" + (":dyadic" if dy else ":nondyadic"))
        if fl:
            ctx.fail(C.Failure("layout analysis breaks C08: " + fl[0][0], case, fl[0][1], fl[0][2],
                               {"check": fl[0][0], "pdf": True, "boxes_flow_none": la["boxes_flow"] is None,
                                "far": False}))
        if dy:
            full, weak = L.dump_container(raw)
            batch.lines.append(L.model_line(case["bbox"], la, items, "page"))
            batch.meta.append((case, [], full, weak))


# --------------------------------------------------------------------------- figures through the real device

def gen_form_doc(rng):
    """A one-page document with a DAG of form XObjects: forms that draw nothing (empty stream, only
    graphics-state operators, only invocations of other empty forms), forms with text / shapes, forms invoked
    twice, nesting up to 4.  Returns (pdf bytes, expected canonical tree of the page)."""
    from harness import pdfwriter as W
    font = {"Type": "Font", "Subtype": "Type1", "BaseFont": "VerifSans", "FirstChar": 32, "LastChar": 126,
            "Widths": [500] * 95, "FontDescriptor": W.Ref(4), "Encoding": "WinAnsiEncoding"}
    fd = {"Type": "FontDescriptor", "FontName": "VerifSans", "Flags": 32, "FontBBox": [0, -250, 1000, 750],
          "ItalicAngle": 0, "Ascent": 750, "Descent": -250, "CapHeight": 700, "StemV": 80}
    nforms = rng.randint(1, 5)
    kinds = ["empty", "gs", "text", "rect", "do", "do", "empty-do"]

    def pieces(i, depth_left):
        # form i may only invoke forms with a larger number: no cycles
        out = []
        shape = rng.random()
        n = 0 if shape < 0.25 else rng.randint(1, 4)
        for _ in range(n):
            k = rng.choice(kinds)
            if k in ("do", "empty-do") and i < nforms:
                out.append(("do", rng.randint(i + 1, nforms)))
            elif k == "text":
                out.append(("text", rng.choice([b"a", b"ab c", b"Hello", b" "]), rng.randint(10, 300), rng.randint(10, 600)))
            elif k == "rect":
                out.append(("rect", rng.randint(5, 200), rng.randint(5, 200)))
            elif k == "gs":
                out.append(("gs",))
        return out
    defs = {i: pieces(i, 4) for i in range(1, nforms + 1)}
    if rng.random() < 0.5:
        defs[nforms] = [] if rng.random() < 0.6 else [("gs",)]      # a leaf that draws nothing
    page = pieces(0, 4)
    if not any(p[0] == "do" for p in page):
        page.append(("do", rng.randint(1, nforms)))

    def content(ps) -> bytes:
        ops = []
        for p_ in ps:
            if p_[0] == "do":
                ops.append(b"/Fm%d Do" % p_[1])
            elif p_[0] == "text":
                ops.append(b"BT /F1 8 Tf %d %d Td " % (p_[2], p_[3]) + W.ser_string(p_[1]) + b" Tj ET")
            elif p_[0] == "rect":
                # one single-subpath shape: a rectangle, a straight line or a curve
                ops.append([b"%d %d 20 10 re S", b"%d %d m 300 310 l S", b"%d %d m 10 20 30 40 50 60 c S"][(p_[1] + p_[2]) % 3]
                           % (p_[1], p_[2]))
            elif p_[0] == "gs":
                ops.append(b"q 1 0 0 1 3 4 cm 2 w 0.5 g Q")
        return b"\n".join(ops)

    def canon(ps, depth=0):
        nch = sum(len(p_[1]) for p_ in ps if p_[0] == "text")
        nsh = sum(1 for p_ in ps if p_[0] == "rect")
        figs = [["Fm%d" % p_[1], canon(defs[p_[1]], depth + 1)] for p_ in ps if p_[0] == "do"]
        return [nch, nsh, figs]
    objs = {3: font, 4: fd}
    for i, ps in defs.items():
        res = {"Font": {"F1": W.Ref(3)}}
        kids = sorted({p_[1] for p_ in ps if p_[0] == "do"})
        if kids:
            res["XObject"] = {"Fm%d" % j: W.Ref(20 + j) for j in kids}
        d = {"Type": "XObject", "Subtype": "Form", "BBox": [0, 0, 400, 700], "Resources": res}
        if rng.random() < 0.5:
            d["Matrix"] = [1, 0, 0, 1, rng.randint(0, 40), rng.randint(0, 40)]
        objs[20 + i] = W.Stream(d, content(ps))
    resources = {"Font": {"F1": W.Ref(3)}, "XObject": {"Fm%d" % j: W.Ref(20 + j) for j in range(1, nforms + 1)}}
    data = W.simple_doc(content(page), resources=resources, extra_objs=objs)
    return data, canon(page)


def canon_container(cont):
    """[glyphs, shapes, [[figure name, canon], ...]] of a layout container of the implementation: glyphs and
    shapes anywhere below it but not inside a nested figure; figures in order."""
    from pdfminer.layout import LTChar, LTContainer, LTCurve, LTFigure, LTImage
    nch = nsh = 0
    figs = []

    def walk(o):
        nonlocal nch, nsh
        if isinstance(o, LTFigure):
            figs.append([o.name, canon_container(o)])
        elif isinstance(o, LTChar):
            nch += 1
        elif isinstance(o, (LTCurve, LTImage)):
            nsh += 1
        elif isinstance(o, LTContainer):
            for x in o:
                walk(x)
    for x in cont:
        walk(x)
    return [nch, nsh, figs]


def check_form_doc(ctx: C.Ctx, data: bytes, expected, la, from_replay=False) -> None:
    """The page tree delivered by the real device (PDFPageAggregator behind PDFPageInterpreter, with and
    without layout analysis, and through extract_pages) holds every figure, glyph and shape exactly once."""
    import io
    from pdfminer.converter import PDFPageAggregator
    from pdfminer.high_level import extract_pages
    from pdfminer.pdfinterp import PDFPageInterpreter, PDFResourceManager
    from pdfminer.pdfpage import PDFPage
    modes = [("raw", None), ("analysed", la), ("extract_pages", la)]
    for mode, lap in modes:
        try:
            if mode == "extract_pages":
                page = next(iter(extract_pages(io.BytesIO(data), laparams=L.make_laparams(lap, "float"))))
            else:
                rm = PDFResourceManager()
                dev = PDFPageAggregator(rm, laparams=None if lap is None else L.make_laparams(lap, "float"))
                PDFPageInterpreter(rm, dev).process_page(next(PDFPage.get_pages(io.BytesIO(data))))
                page = dev.get_result()
            got = canon_container(page)
        except Exception as e:  # noqa: BLE001
            got = "EXC:%s: %s" % (type(e).__name__, str(e)[:80])
        ctx.branch("forms:" + mode)
        if got != expected:
            ctx.fail(C.Failure("layout analysis breaks C08: conserve-figures", {"pdf_hex": data.hex(), "la": la,
                                                                             "expected_tree": expected, "mode": mode},
                               expected, got, {"check": "conserve-figures", "mode": mode, "pdf": True,
                                               "boxes_flow_none": bool(lap) and lap.get("boxes_flow") is None, "far": False}))
            return


def count_empty(tree) -> int:
    return sum((1 if f[1] == [0, 0, []] else 0) + count_empty(f[1]) for f in tree[2])


def run_forms(ctx: C.Ctx) -> None:
    rng = ctx.rng
    for i in range(ctx.n(60, 1500)):
        if not ctx.time_left():
            break
        data, expected = gen_form_doc(rng)
        la = L.gen_la(rng, wild=False)
        ne = count_empty(expected)
        ctx.case(("forms", data), True, sample={"forms": expected}, branch="gen:forms")
        if ne:
            ctx.branch("forms:with-empty-figure")
        if any(f[1][0] == 0 and f[1][1] == 0 and f[1][2] for f in expected[2]):
            ctx.branch("forms:figure-of-only-figures")
        check_form_doc(ctx, data, expected, la)
    # the same at device level: begin_figure / end_figure in arbitrary nesting, nothing drawn
    from pdfminer.converter import PDFPageAggregator
    from pdfminer.pdfinterp import PDFResourceManager
    from pdfminer.pdfpage import PDFPage
    for i in range(ctx.n(30, 500)):
        class P:                       # what begin_page reads of a PDFPage
            mediabox = (0, 0, 612, 792)
            rotate = 0
            pageid = 1
        dev = PDFPageAggregator(PDFResourceManager(), laparams=None if i % 2 else L.make_laparams(L.gen_la(rng, wild=False), "float"))
        ident = (1, 0, 0, 1, 0, 0)
        seq = []

        def tree(depth):
            out = []
            for _ in range(rng.randint(0, 3 if depth < 3 else 0)):
                name = "X%d" % rng.randint(1, 9)
                seq.append(("b", name))
                sub = tree(depth + 1)
                seq.append(("e", name))
                out.append([name, [0, 0, sub]])
            return out
        expected = [0, 0, tree(0)]
        try:
            dev.set_ctm(ident)             # what PDFPageInterpreter.init_state does before begin_page
            dev.begin_page(P(), ident)
            for op, name in seq:
                if op == "b":
                    dev.begin_figure(name, (0, 0, 100, 100), ident)
                else:
                    dev.end_figure(name)
            dev.end_page(P())
            got = canon_container(dev.get_result())
        except Exception as e:  # noqa: BLE001
            got = "EXC:%s: %s" % (type(e).__name__, str(e)[:80])
        ctx.case(("devseq", tuple(seq)), bool(seq), branch="gen:device-figures")
        if got != expected:
            ctx.fail(C.Failure("layout analysis breaks C08: conserve-figures", {"device_calls": seq, "expected_tree": expected},
                               expected, got, {"check": "conserve-figures", "mode": "device", "pdf": False,
                                               "boxes_flow_none": False, "far": False}))
            break


# --------------------------------------------------------------------------- str.isspace table of the model

def run_isspace(ctx: C.Ctx) -> None:
    if ctx.driver is None:
        return
    cps = list(range(0, 0x3100)) + [0xFEFF, 0xFFFF, 0x10000, 0x1D7FF, 0xE0020, 0x10FFFF]
    cps = [c for c in cps if not (0xD800 <= c <= 0xDFFF)]
    outs = ctx.driver.ask(["isspace " + " ".join(map(str, cps[i:i + 512])) for i in range(0, len(cps), 512)])
    got = "".join(outs)
    exp = "".join("1" if chr(c).isspace() else "0" for c in cps)
    ctx.branch("isspace-table", len(cps))
    if got != exp:
        k = next(i for i in range(len(exp)) if i >= len(got) or got[i] != exp[i])
        ctx.disagree("isspace", cps[k], exp[k], got[k] if k < len(got) else "?")


# --------------------------------------------------------------------------- large-format pages (Plane overflow list)

def gen_large_format(rng):
    """Pages whose size and whose glyph sizes span several orders of magnitude (10 .. 6000 units; type from 1/2 to
    2500 units): mixtures of huge and tiny paragraphs, so that text lines / boxes / groups are filed both in the
    50-unit grid of `utils.Plane` and - covering more than MAXCELLS = 1024 cells - on its overflow list `_big`, in
    group_textlines AND group_textboxes (add -> find -> remove -> iterate on the same Plane)."""
    W = F(rng.choice([10, 200, 612, 1500, 3000, 3000, 4000, 6000]))
    H = F(rng.choice([10, 300, 792, 1500, 3000, 3000, 4000, 6000]))
    la = L.gen_la(rng, wild=False)
    if rng.random() < 0.8:
        la["boxes_flow"] = L.fs(rng.choice([F(1, 2), F(0), F(-1, 2), F(1), F(-1), F(1, 4)]))
    if rng.random() < 0.7:
        la["detect_vertical"] = False
    items, cid = [], 0
    sizes = [F(1, 2), F(2), F(10), F(12), F(60), F(300), F(900), F(1700), F(1800), F(2500)]
    npar = rng.randint(2, 5)
    for k in range(npar):
        fit = [z for z in sizes if z <= max(W, H)] or [F(1, 2)]
        size = rng.choice(fit[-3:]) if (k == 0 and rng.random() < 0.7) else rng.choice(fit)
        rows, cols = rng.randint(1, 3), rng.randint(1, 4)
        if size >= 300:
            rows, cols = rng.randint(1, 2), rng.randint(1, 2)
        x = F(rng.randint(0, max(1, int(W)))) if rng.random() < 0.8 else F(rng.randint(-200, 200))
        y = F(rng.randint(0, max(1, int(H))))
        pitch = size * rng.choice([F(1), F(9, 8), F(5, 4), F(2)])
        for r in range(rows):
            for c in range(cols):
                cid += 1
                x0, y0 = x + c * size, y - r * pitch
                items.append(["c", cid, L.fs(x0), L.fs(y0), L.fs(x0 + size), L.fs(y0 + size), rng.choice("abcxyz")])
    if rng.random() < 0.3:
        cid += 1
        items.insert(rng.randrange(len(items) + 1), ["o", cid, "1", "1", "20", "20", "rect"])
    return {"bbox": ["0", "0", L.fs(W), L.fs(H)], "la": la, "items": items}


def plane_cells(o) -> int:
    import math
    try:
        nx = math.floor(F(o.x1) / 50) - math.floor(F(o.x0) / 50) + 1
        ny = math.floor(F(o.y1) / 50) - math.floor(F(o.y0) / 50) + 1
    except (OverflowError, ValueError, TypeError):
        return 0
    return max(nx, 0) * max(ny, 0)


def run_large_format(ctx: C.Ctx, batch: "Batch") -> None:
    from pdfminer.layout import LTTextBox, LTTextGroup
    rng = ctx.rng
    for i in range(ctx.n(60, 600)):
        if not ctx.time_left():
            break
        case = gen_large_format(rng)
        eval_case(ctx, case, batch, "large-format")
        page, err = L.run_impl(case)
        if page is None:
            continue
        boxes = [o for o in page if isinstance(o, LTTextBox)]
        nbig = sum(plane_cells(b) > 1024 for b in boxes)
        nbig_lines = sum(plane_cells(l) > 1024 for b in boxes for l in b)
        groups = []

        def walk(g):
            if isinstance(g, LTTextGroup):
                groups.append(g)
                for ch in g:
                    walk(ch)
        for g in (page.groups or []):
            walk(g)
        ctx.branch("plane:overflow-boxes:%s/boxes:%s" % ("0" if nbig == 0 else "1+", "1" if len(boxes) <= 1 else "2+"))
        if nbig_lines:
            ctx.branch("plane:overflow-line-in-group_textlines")
        if any(plane_cells(g) > 1024 for g in groups):
            ctx.branch("plane:overflow-group-in-group_textboxes")
        if nbig and len(boxes) >= 2 and case["la"].get("boxes_flow") is not None:
            ctx.branch("plane:overflow-box-merged-with-others")
        if len(batch.lines) >= 100:
            batch.flush()


# --------------------------------------------------------------------------- heap order of group_textboxes

def run_heap(ctx: C.Ctx) -> None:
    """`popMin HEntry.le` of the model against Python's `heapq` on tuples shaped like the entries of
    `group_textboxes` - `(skip_isany, d, seq1, seq2, obj1, obj2)` with real (unorderable) layout objects at the end -
    with many equal flags / distances / first numbers, after random pushes and pops (arbitrary internal layout)."""
    import heapq
    from pdfminer.layout import LTComponent
    if ctx.driver is None:
        return
    rng = ctx.rng
    reqs, exp = [], []
    for _ in range(ctx.n(150, 1500)):
        n = rng.randint(1, 12)
        nobj = rng.randint(2, 6)
        objs = [LTComponent((0, 0, 1, 1)) for _ in range(nobj)]
        dvals = [F(rng.randint(-3, 3), rng.choice([1, 2, 4]))for _ in range(rng.randint(1, 3))]
        keys = set()
        n = min(n, 2 * len(set(dvals)) * nobj * nobj)       # no more entries than distinct keys exist
        while len(keys) < n:
            a, b = rng.randrange(nobj), rng.randrange(nobj)
            keys.add((rng.random() < 0.3, rng.choice(dvals), a, b))
        entries = [(k[0], k[1], k[2], k[3], objs[k[2]], objs[k[3]]) for k in keys]
        rng.shuffle(entries)
        heap = []
        for e in entries:                       # pushes interleaved with pops: arbitrary heap layouts
            heapq.heappush(heap, e)
            if rng.random() < 0.2 and len(heap) > 1:
                heapq.heappop(heap)
        order = list(heap)                      # the list as heapq holds it
        try:
            m = heapq.heappop(heap)
        except (TypeError, ValueError) as e:    # two entries compared equal up to the objects
            ctx.disagree("heapmin", [list(map(str, x[:4])) for x in order], "TypeError: %s" % e, "total order")
            continue
        reqs.append("heapmin %d %s" % (len(order), " ".join("%d %s %d %d" % (x[0], L.fs(x[1]), x[2], x[3]) for x in order)))
        exp.append((order, str(next(i for i, x in enumerate(order) if x is m))))
        ties = sum(1 for x in order if x[:2] == m[:2])
        ctx.branch("heapmin:" + ("tie-on-flag-and-distance" if ties > 1 else "unique-distance"))
        ctx.case(("heapmin", reqs[-1]), len(order) >= 2, branch="gen:heap")
    for (order, want), out in zip(exp, ctx.driver.ask(reqs) if reqs else []):
        if out != want:
            ctx.disagree("heapmin", [[str(v) for v in x[:4]] for x in order], want, out)


# --------------------------------------------------------------------------- entry points

def run_corpus(ctx: C.Ctx, batch: Batch) -> None:
    for path in sorted(glob.glob(os.path.join(C.VERIF, "corpus", "C08", "*.json"))):
        with open(path) as fp:
            doc = json.load(fp)
        eval_case(ctx, doc["input"], batch, "corpus")


def replay(ctx: C.Ctx, doc) -> None:
    batch = Batch(ctx)
    inp = doc.get("input", {})
    if isinstance(inp, dict) and "pdf_hex" in inp:
        ctx.case(("replay-forms", inp["pdf_hex"][:64]), True, branch="replay:forms")
        check_form_doc(ctx, bytes.fromhex(inp["pdf_hex"]), inp["expected_tree"], inp["la"])
        return
    if isinstance(inp, dict) and "device_calls" in inp:
        ctx.notes.append("device-call replays are re-generated by the run, not replayed from the file")
        return
    if isinstance(inp, dict) and "case" in inp:
        inp = inp["case"]
    eval_case(ctx, inp, batch, "replay")
    batch.flush()
    finish(ctx)


def finish(ctx: C.Ctx) -> None:
    kinds = ctx.extra.pop("_failure_kinds", None)
    if kinds:
        ctx.extra["failure_kinds"] = kinds


def run(ctx: C.Ctx) -> None:
    rng = ctx.rng
    batch = Batch(ctx)
    run_corpus(ctx, batch)
    run_isspace(ctx)
    run_heap(ctx)
    n = ctx.n(1500, 6000)
    big = 40 if ctx.tier == "quick" else 300
    for i in range(n):
        if not ctx.time_left():
            ctx.notes.append("time budget reached after %d generated cases" % i)
            break
        if sum(1 for f in ctx.failures if "AnalysisTimeout" in str(f.got)) >= 2:
            ctx.notes.append("stopped generating: the implementation keeps running into the per-page time-out")
            break
        extreme = i % 8 == 7
        size = big if i % 50 == 49 else rng.choice([3, 6, 12, 25, 40])
        case = L.gen_case(rng, size, extreme=extreme)
        eval_case(ctx, case, batch, "extreme" if extreme else "layout")
        if i % 10 == 0 and not extreme and L.float_exact(case):
            float_cross_check(ctx, case)
        if len(batch.lines) >= 200:
            batch.flush()
    run_large_format(ctx, batch)
    run_pdf(ctx, batch)
    run_forms(ctx)
    batch.flush()
    finish(ctx)
