"""C08 - layout analysis conserves content and keeps its hierarchy well-formed.

Three relations on every run:
  (tie)   Lean model `PdfVerif.Layout.analyze` (drv_c08)  ==  LTLayoutContainer.analyze of the
          implementation, compared on a canonical dump of the whole result tree (page children,
          lines, glyph ids, annos, exact bounding boxes, indices, the group hierarchy);
  (prop)  the implementation's result tree itself satisfies C08 (layout_lib.check_case):
          every glyph/item exactly once, bbox = union of members, one trailing line break,
          line order, indices 0..n-1 in output order, text = concatenation, boxes = leaves of
          the group hierarchy;
  (proof) lean/PdfVerif/Props/C08.lean: the same statements for ALL glyph lists / LAParams of the model.
"""

from __future__ import annotations

import glob
import json
import os
from fractions import Fraction as F
from typing import Any, Dict, List

from harness import common as C
from harness import layout_lib as L

LEVEL = "proof"
RULE = ("pages built from real LTChar objects with exact dyadic boxes: text-like runs whose gaps / line pitches / "
        "offsets sit on, just below and just above the char_margin, word_margin, line_margin and line_overlap "
        "thresholds, scattered glyphs, zero-size / blank / empty-text / multi-character glyphs, off-page and far "
        "(|coord| > 2^31) glyphs, other items and nested figures; LAParams incl. 0, negative, huge, "
        "boxes_flow in {None,-1..1}, detect_vertical, all_texts; plus documents written as PDF and read through "
        "extract_pages. A case is non-trivial when it is a distinct input with >= 2 glyphs that produced >= 1 text box")
TRUSTED_BASE = [
    "hand model lean/PdfVerif/Model/Layout.lean of pdfminer/layout.py (group_objects, LTTextLine*.add, "
    "LTExpandableContainer.add, find_neighbors, group_textlines, group_textboxes, IndexAssigner, analyze, "
    "LTTextBox*/LTTextGroup*.analyze) - tied to the code by the differential tree-dump correspondence on every run",
    "hand model lean/PdfVerif/Model/Plane.lean of utils.Plane (C20) and the regenerated drange (Gen/Utils.lean)",
    "regenerated tables Gen/Layout.lean (LAParams defaults, Plane gridsize) from pdfminer/layout.py, utils.py",
    "exact rationals stand for Python floats (no rounding modelled); Python str.isspace modelled by a code-point table "
    "that the harness compares with the interpreter on every run",
    "object identity (id()) order is not modelled by the compiled driver: when two live heap entries of "
    "group_textboxes have equal distance it reports a tie and only the merge-order-independent part of the tree is "
    "compared; the theorems, however, are proved for EVERY heap comparison, hence for every id() order",
]
ASSUMPTIONS = [
    "coordinates and LAParams are exact rationals (fractions.Fraction on the Python side); IEEE rounding is not modelled",
    "glyph boxes are well formed (x0<=x1, y0<=y1) as LTChar.__init__ guarantees; every item is a distinct object",
    "an LTFigure is analysed as its own layout container (all_texts) and is an opaque item of its parent",
]
STATEMENT_STATUS: Dict[str, str] = {
    "C08_terminates": "proved (fuel 3n^2+1 of the group_textboxes loop never exhausted; for every heap comparison)",
    "C08_gtb_fuel_suffices": "proved",
    "C08_no_internal_error": "proved (no KeyError in plane.remove, no dangling heap entry)",
    "C08_group_objects_conserve": "proved (order-preserving)",
    "C08_group_textlines_conserve": "proved (partition invariant; uses C20 plane_find; page box well formed)",
    "C08_group_textboxes_conserve": "proved (for every heap comparison, i.e. every id() tie-break)",
    "C08_conserve_glyphs": "proved (multiset of glyphs in the result = input)",
    "C08_conserve_others": "proved",
    "C08_figure": "proved (definition of LTFigure.analyze; nested figures are analysed container by container)",
    "C08_lines": "proved (>=1 glyph, bbox = tight hull, one orientation, exactly one trailing line break)",
    "C08_boxes": "proved (>=1 line, bbox = tight hull, lines in descending y1 / x1)",
    "C08_index": "proved for both boxes_flow branches (after fix bdb2e94)",
    "C08_hierarchy": "proved (leaves in DFS order = output boxes; group bbox, class, member order)",
    "C08_text_line": "proved (definitional)", "C08_text_box": "proved (definitional)",
    "C08_text_group": "proved (definitional)", "C08_text_line_break": "proved",
    "C08_box_uniform": "proved (a box only holds lines of its own class)",
    "C08_conserve_glyphs_figures": "proved (figures inside figures, any depth, all_texts on or off)",
    "C08_conserve_glyphs_nested": "proved: multiset of glyphs over the WHOLE page tree incl. nested figures is conserved",
    "C08_single_root": "proved (group_textboxes ends with at most one object in the plane, for every heap comparison)",
}

CLASSIFIERS = {
    # kept for the record: both were fixed in the repo, no open finding uses them
    "c08_index_unassigned_boxes_flow_none": lambda f: f.tags.get("check") == "box-index" and f.tags.get("boxes_flow_none"),
    "c08_bbox_beyond_int_sentinel": lambda f: str(f.tags.get("check", "")).startswith("bbox-") and f.tags.get("far"),
}


# --------------------------------------------------------------------------- evaluation of one case

def far(case) -> bool:
    lim = (1 << 31) - 1

    def rec(items):
        for it in items:
            if it[0] == "f":
                if rec(it[6]):
                    return True
            elif any(abs(F(v)) >= lim for v in it[2:6]):
                return True
        return False
    return rec(case["items"])


def impl_failures(case):
    """Property C08 evaluated on the implementation. Returns (page|None, [(check, expected, got)])."""
    page, err = L.run_impl(case)
    if err is not None:
        return None, [("exception", "analysis terminates normally", "%s: %s" % (type(err).__name__, str(err)[:100]))]
    return page, [(name if not path else name + "@fig", exp, got) for path, name, exp, got in L.check_case(case, page)]


def shrink(case, check_name):
    """ddmin over the top-level items, keeping a failure of the same check."""
    def still(items):
        c2 = dict(case, items=items)
        _, fl = impl_failures(c2)
        return any(f[0] == check_name for f in fl)
    items = C.ddmin(list(case["items"]), still, max_tests=150)
    c2 = dict(case, items=items)
    _, fl = impl_failures(c2)
    hit = [f for f in fl if f[0] == check_name]
    if not hit:
        return case, None
    return c2, hit[0]


def report_failure(ctx: C.Ctx, case, first):
    name = first[0]
    seen = ctx.extra.setdefault("_failure_kinds", {})
    seen[name] = seen.get(name, 0) + 1
    if seen[name] > 2:
        return                      # the same check already has a minimised replay
    if "AnalysisTimeout" in str(first[2]) or seen[name] > 1 or not ctx.time_left():
        small, hit = case, first    # every shrinking step could cost a whole time-out
    else:
        small, hit = shrink(case, name)
        if hit is None:
            small, hit = case, first
    tags = {"check": name.split("@")[0], "boxes_flow_none": small["la"].get("boxes_flow") is None,
            "far": far(small), "glyphs": L.n_glyphs(small)}
    ctx.fail(C.Failure("layout analysis breaks C08: " + name.split("@")[0], small, hit[1], hit[2], tags))


def uniform_requests(case, page):
    """One request per pair of consecutive glyphs of every text line: the pair has to satisfy the DOCUMENTED
    join predicate of the line's class ("every line holds glyphs of one orientation")."""
    from pdfminer.layout import LTChar, LTTextBox, LTTextLine, LTTextLineVertical
    la = case["la"]
    reqs, meta = [], []
    for path, mode, bbox, items in L.containers(case):
        if mode == "fig0":
            continue
        cont = L.find_container(page, path)
        if cont is None:
            continue
        lines = []
        for o in cont:
            if isinstance(o, LTTextBox):
                lines.extend(l for l in o if isinstance(l, LTTextLine))
            elif isinstance(o, LTTextLine):
                lines.append(o)
        for l in lines:
            chars = [e for e in l if isinstance(e, LTChar)]
            name = "valign" if isinstance(l, LTTextLineVertical) else "halign"
            for c0, c1 in zip(chars, chars[1:]):
                nums = [F(la["line_overlap"]), F(la["char_margin"])] + [F(v) for v in c0.bbox] + [F(v) for v in c1.bbox]
                reqs.append("pred %s %s" % (name, " ".join(L.fs(x) for x in nums)))
                meta.append((name, getattr(c0, "_vid", "?"), getattr(c1, "_vid", "?")))
    return reqs, meta


def uniform_failure(ctx: C.Ctx, case):
    """(expected, got) of the first non-uniform line of `case`, or None (used while shrinking)."""
    if ctx.driver is None:
        return None
    page, err = L.run_impl(case)
    if err is not None:
        return None
    reqs, meta = uniform_requests(case, page)
    if not reqs:
        return None
    for (name, i0, i1), out in zip(meta, ctx.driver.ask(reqs)):
        if out.split()[1] != "1":
            return ("consecutive glyphs of a %s line satisfy the documented %s join predicate"
                    % ("vertical" if name == "valign" else "horizontal", name), "glyphs c%s, c%s do not" % (i0, i1))
    return None


class Batch:
    """Collects model requests of many cases, asks the driver once, compares."""

    def __init__(self, ctx: C.Ctx):
        self.ctx = ctx
        self.lines: List[str] = []
        self.meta: List[Any] = []
        self.ureqs: List[str] = []
        self.umeta: List[Any] = []

    def add(self, case, page):
        r, m = uniform_requests(case, page)
        if r:
            self.ureqs += r
            self.umeta += [(case, x) for x in m]
        for path, mode, bbox, items in L.containers(case):
            cont = L.find_container(page, path)
            if cont is None:
                continue
            full, weak = L.dump_container(cont)
            self.lines.append(L.model_line(bbox, case["la"], items, mode))
            self.meta.append((case, path, full, weak))

    def flush_uniform(self):
        ctx = self.ctx
        reqs, meta = self.ureqs, self.umeta
        self.ureqs, self.umeta = [], []
        if ctx.driver is None or not reqs:
            return
        bad_cases = []
        for (case, (name, i0, i1)), out in zip(meta, ctx.driver.ask(reqs)):
            ctx.branch("uniform-pair:" + name)
            if out.split()[1] != "1" and not any(c is case for c in bad_cases):
                bad_cases.append(case)
        for case in bad_cases[:3]:
            ctx.branch("fail:line-uniform")
            seen = ctx.extra.setdefault("_failure_kinds", {})
            seen["line-uniform"] = seen.get("line-uniform", 0) + 1
            small = case
            if seen["line-uniform"] == 1:
                items = C.ddmin(list(case["items"]), lambda its: uniform_failure(ctx, dict(case, items=its)) is not None,
                                max_tests=80)
                if uniform_failure(ctx, dict(case, items=items)) is not None:
                    small = dict(case, items=items)
            hit = uniform_failure(ctx, small) or ("uniform line", "not uniform")
            ctx.fail(C.Failure("layout analysis breaks C08: line-uniform", small, hit[0], hit[1],
                               {"check": "line-uniform", "boxes_flow_none": small["la"].get("boxes_flow") is None,
                                "far": far(small), "glyphs": L.n_glyphs(small)}))

    def flush(self):
        ctx = self.ctx
        self.flush_uniform()
        if ctx.driver is None or not self.lines:
            self.lines, self.meta = [], []
            return
        outs = ctx.driver.ask(self.lines)
        for (case, path, full, weak), out in zip(self.meta, outs):
            parts = out.split(" ||| ")
            if len(parts) != 3:
                ctx.disagree("analyze", case, full, out[:300])
                continue
            m_full, m_weak, flags = parts
            ctx.branch("model:" + flags.replace(" ", "+"))
            if "fuel" in flags:
                ctx.disagree("analyze.fuel", case, full, "model ran out of fuel")
            elif "tie" in flags:
                if m_weak != weak:
                    ctx.disagree("analyze.weak", {"case": case, "path": path}, weak, m_weak)
            elif m_full != full:
                ctx.disagree("analyze", {"case": case, "path": path}, full, m_full)
        self.lines, self.meta = [], []


def stats(ctx: C.Ctx, case, page):
    from pdfminer.layout import LTAnno, LTTextBox, LTTextBoxVertical, LTTextLine
    kids = list(page)
    nb = sum(isinstance(o, LTTextBox) for o in kids)
    ctx.branch("boxes:%s" % ("0" if nb == 0 else "1" if nb == 1 else "2-4" if nb <= 4 else "5+"))
    if any(isinstance(o, LTTextBoxVertical) for o in kids):
        ctx.branch("vertical-box")
    if any(isinstance(o, LTTextLine) for o in kids):
        ctx.branch("empty-line")
    if any(isinstance(o, LTTextBox) and len(o) > 1 for o in kids):
        ctx.branch("multi-line-box")
    if any(isinstance(e, LTAnno) and e.get_text() == " " for o in kids if isinstance(o, LTTextBox) for l in o for e in l):
        ctx.branch("space-inserted")
    for o in kids:
        if isinstance(o, LTTextBox) and len(o) > 1:
            vert = isinstance(o, LTTextBoxVertical)
            far = [F(l.x1) if vert else F(l.y1) for l in o]
            near = [F(l.x0) if vert else F(l.y0) for l in o]
            if vert:
                ctx.branch("vertical-box:multi-line")
            if sorted(range(len(far)), key=lambda i: (-far[i], i)) != sorted(range(len(near)), key=lambda i: (-near[i], i)):
                ctx.branch("box:near-edge-order-differs:" + ("V" if vert else "H"))
    ctx.branch("boxes_flow:" + ("None" if case["la"].get("boxes_flow") is None else "num"))
    if any(it[0] == "f" for it in case["items"]):
        ctx.branch("figure:" + ("all_texts" if case["la"].get("all_texts") else "opaque"))
    if any(it[0] == "o" for it in case["items"]):
        ctx.branch("other-items")
    return nb


def eval_case(ctx: C.Ctx, case, batch: Batch, kind: str) -> None:
    page, fl = impl_failures(case)
    n = L.n_glyphs(case)
    if page is not None:
        nb = stats(ctx, case, page)
        batch.add(case, page)
    else:
        nb = 0
    ctx.case(json.dumps(case, sort_keys=True), n >= 2 and nb >= 1,
             sample={"la": case["la"], "bbox": case["bbox"], "items": case["items"][:6], "n_items": len(case["items"])},
             branch="gen:" + kind)
    if fl:
        for f in fl[:3]:
            ctx.branch("fail:" + f[0])
        report_failure(ctx, case, fl[0])


# --------------------------------------------------------------------------- float mode and the PDF path

def float_cross_check(ctx: C.Ctx, case) -> None:
    """The same case with Python floats (all values are small dyadics, so float arithmetic is
    exact): the tree must be the one obtained with Fractions."""
    p1, e1 = L.run_impl(case, "frac")
    p2, e2 = L.run_impl(case, "float")
    ctx.branch("float-cross-check")
    if (e1 is None) != (e2 is None):
        ctx.disagree("float-vs-fraction", case, repr(e1), repr(e2))
        return
    if p1 is None:
        return
    for path, mode, bbox, items in L.containers(case):
        c1, c2 = L.find_container(p1, path), L.find_container(p2, path)
        if c1 is None or c2 is None:
            continue
        d1, d2 = L.dump_container(c1), L.dump_container(c2)
        if d1[1] != d2[1]:
            ctx.disagree("float-vs-fraction", case, d1[1][:400], d2[1][:400])


def pdf_case(rng, n_chars: int):
    """A one-page document: runs of text shown with Tj/Td at dyadic positions in a font whose
    widths and descent make every glyph box dyadic."""
    from harness import pdfwriter as W
    font = {"Type": "Font", "Subtype": "Type1", "BaseFont": "VerifSans", "FirstChar": 32, "LastChar": 126,
            "Widths": [500] * 95, "FontDescriptor": W.Ref(4), "Encoding": "WinAnsiEncoding"}
    fd = {"Type": "FontDescriptor", "FontName": "VerifSans", "Flags": 32, "FontBBox": [0, -250, 1000, 750],
          "ItalicAngle": 0, "Ascent": 750, "Descent": -250, "CapHeight": 700, "StemV": 80}
    ops = [b"BT"]
    size = rng.choice([8, 8, 12, 16])
    ops.append(b"/F1 %d Tf" % size)
    x, y = rng.choice([72, 100]), 700
    ops.append(b"%d %d Td" % (x, y))
    left = n_chars
    words = [b"ab", b"c", b"layout", b"x y", b" ", b"Hello", b"42", b"q"]
    while left > 0:
        w = rng.choice(words)
        ops.append(W.ser_string(w) + b" Tj")
        left -= len(w)
        r = rng.random()
        if r < 0.4:
            ops.append(b"%s 0 Td" % W.ser_real(F(rng.choice([1, 2, 4, 9, 40, 80]), rng.choice([1, 2]))))
        elif r < 0.8:
            ops.append(b"%d %s Td" % (rng.choice([0, 0, 0, 3, -20, 150]),
                                     W.ser_real(-F(size) * rng.choice([F(1), F(5, 4), F(3, 2), F(2), F(4)]))))
        elif r < 0.9:
            size = rng.choice([8, 12, 16])
            ops.append(b"/F1 %d Tf" % size)
    ops.append(b"ET")
    if rng.random() < 0.5:
        ops.append(b"10 10 100 50 re S")
    return W.simple_doc(b"\n".join(ops), resources={"Font": {"F1": W.Ref(3)}}, extra_objs={3: font, 4: fd})


def run_pdf(ctx: C.Ctx, batch: Batch) -> None:
    import io
    from pdfminer.converter import PDFPageAggregator
    from pdfminer.layout import LTChar
    from pdfminer.pdfinterp import PDFPageInterpreter, PDFResourceManager
    from pdfminer.pdfpage import PDFPage
    rng = ctx.rng
    for i in range(ctx.n(25, 400)):
        if not ctx.time_left():
            break
        data = pdf_case(rng, rng.randint(1, 40))
        la = L.gen_la(rng, wild=False)
        la["all_texts"] = False
        try:
            rm = PDFResourceManager()
            dev = PDFPageAggregator(rm, laparams=None)
            interp = PDFPageInterpreter(rm, dev)
            pages = list(PDFPage.get_pages(io.BytesIO(data)))
            interp.process_page(pages[0])
            raw = dev.get_result()
        except Exception as e:  # noqa: BLE001
            raise C.Infra("generated PDF unreadable: %r" % e)
        items = []
        k = 0
        for o in raw:
            k += 1
            o._vid = k
            if isinstance(o, LTChar):
                items.append(["c", k] + [L.fs(F(v)) for v in (o.x0, o.y0, o.x1, o.y1)] + [o.get_text()])
            else:
                items.append(["o", k] + [L.fs(F(v)) for v in (o.x0, o.y0, o.x1, o.y1)] + ["rect"])
        case = {"bbox": [L.fs(F(v)) for v in raw.bbox], "la": la, "items": items}
        dy = all(F(v).denominator <= 1024 for it in items for v in it[2:6])
        # analyse the REAL page object (float arithmetic, real LTChar from the interpreter)
        try:
            raw.analyze(L.make_laparams(la, "float"))
        except Exception as e:  # noqa: BLE001
            ctx.fail(C.Failure("layout analysis breaks C08: exception", case, "terminates", repr(e),
                               {"check": "exception", "pdf": True}))
            continue
        fl = L.check_container(raw, items, la, True)
        ctx.case(("pdf", data), len(items) >= 2, branch="gen:pdf" + (":dyadic" if dy else ":nondyadic"))
        if fl:
            ctx.fail(C.Failure("layout analysis breaks C08: " + fl[0][0], case, fl[0][1], fl[0][2],
                               {"check": fl[0][0], "pdf": True, "boxes_flow_none": la["boxes_flow"] is None,
                                "far": False}))
        if dy:
            full, weak = L.dump_container(raw)
            batch.lines.append(L.model_line(case["bbox"], la, items, "page"))
            batch.meta.append((case, [], full, weak))


# --------------------------------------------------------------------------- str.isspace table of the model

def run_isspace(ctx: C.Ctx) -> None:
    if ctx.driver is None:
        return
    cps = list(range(0, 0x3100)) + [0xFEFF, 0xFFFF, 0x10000, 0x1D7FF, 0xE0020, 0x10FFFF]
    cps = [c for c in cps if not (0xD800 <= c <= 0xDFFF)]
    outs = ctx.driver.ask(["isspace " + " ".join(map(str, cps[i:i + 512])) for i in range(0, len(cps), 512)])
    got = "".join(outs)
    exp = "".join("1" if chr(c).isspace() else "0" for c in cps)
    ctx.branch("isspace-table", len(cps))
    if got != exp:
        k = next(i for i in range(len(exp)) if i >= len(got) or got[i] != exp[i])
        ctx.disagree("isspace", cps[k], exp[k], got[k] if k < len(got) else "?")


# --------------------------------------------------------------------------- entry points

def run_corpus(ctx: C.Ctx, batch: Batch) -> None:
    for path in sorted(glob.glob(os.path.join(C.VERIF, "corpus", "C08", "*.json"))):
        with open(path) as fp:
            doc = json.load(fp)
        eval_case(ctx, doc["input"], batch, "corpus")


def replay(ctx: C.Ctx, doc) -> None:
    batch = Batch(ctx)
    inp = doc.get("input", {})
    if isinstance(inp, dict) and "case" in inp:
        inp = inp["case"]
    eval_case(ctx, inp, batch, "replay")
    batch.flush()
    finish(ctx)


def finish(ctx: C.Ctx) -> None:
    kinds = ctx.extra.pop("_failure_kinds", None)
    if kinds:
        ctx.extra["failure_kinds"] = kinds


def run(ctx: C.Ctx) -> None:
    rng = ctx.rng
    batch = Batch(ctx)
    run_corpus(ctx, batch)
    run_isspace(ctx)
    n = ctx.n(1500, 6000)
    big = 40 if ctx.tier == "quick" else 300
    for i in range(n):
        if not ctx.time_left():
            ctx.notes.append("time budget reached after %d generated cases" % i)
            break
        if sum(1 for f in ctx.failures if "AnalysisTimeout" in str(f.got)) >= 2:
            ctx.notes.append("stopped generating: the implementation keeps running into the per-page time-out")
            break
        extreme = i % 8 == 7
        size = big if i % 50 == 49 else rng.choice([3, 6, 12, 25, 40])
        case = L.gen_case(rng, size, extreme=extreme)
        eval_case(ctx, case, batch, "extreme" if extreme else "layout")
        if i % 10 == 0 and not extreme and L.float_exact(case):
            float_cross_check(ctx, case)
        if len(batch.lines) >= 200:
            batch.flush()
    run_pdf(ctx, batch)
    batch.flush()
    finish(ctx)
