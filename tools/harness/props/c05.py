"""C05 - text model: each glyph gets the position, advance and state PDF assigns.

Relations exercised on every run
  (tie)   lean/PdfVerif/Model/Interp.lean (what pdfminer does)  ==  pdfminer on the same generated PDF
  (prop)  pdfminer's LTChars  ==  lean/PdfVerif/Spec/TextModel.lean (ISO 32000-1 9.3-9.4) on every case of the
          property's domain (domain membership is decided by the spec itself: it answers `OUT` otherwise);
          a Python twin of the spec (`SpecMachine`, exact Fractions) is cross-checked against the Lean spec and
          is the oracle when the driver did not build
  (proof) lean/PdfVerif/Props/C05.lean: model = spec on the whole domain, by induction over programs

A case = fonts (width tables) + form XObjects (Matrix/Resources/body) + page program (list of
instructions = operands + operator) + a split of the serialised program into 1-4 content streams.
"""

from __future__ import annotations

import glob
import io
import json
import logging
import os
from fractions import Fraction as F
from typing import Any, Dict, List, Optional, Tuple

from harness import common as C
from harness import pdfwriter as W

LEVEL = "proof"
RULE = ("operator programs following the content-stream grammar of ISO 32000-1 Figure 9 (q Q cm, colour operators, "
        "text state, BT..ET with positioning and showing operators, Do of form XObjects nested <= 3 with own "
        "Matrix/Resources; interleaved with the operators outside the property's list - general graphics state, path "
        "construction / painting / clipping and sh at page level, marked content and BX/EX also inside text objects), dyadic operands, random width tables incl. code 32 and codes outside the table, a share of "
        "operators with missing / ill-typed operands, serialised and split into 1-4 streams at token boundaries; a second "
        "'wild' stream (excess operands, unknown operators, text operators outside BT, q/Q inside BT, unknown resources) "
        "is used for the model/implementation tie only.  Resources define colour spaces (aliases, ICCBased, CIE-based, "
        "Separation, Indexed, DeviceN) under a small pool of names shared by all pages, forms and cases; 30% of the documents "
        "have 2-3 pages with resources of their own (later pages may start with an operator lacking operands; pages may end "
        "with left-over operands); every later page is also interpreted on its own first and must be reported identically "
        "(page independence); a failure is re-evaluated in a fresh process, alone or after the documents interpreted before "
        "it, so that the replay is self-contained.  A case is non-trivial when it is a distinct program that shows "
        ">= 2 glyphs and contains a positioning or spacing operator")
TRUSTED_BASE = [
    "hand model lean/PdfVerif/Model/Interp.lean of PDFPageInterpreter / PDFTextDevice / LTChar (correspondence-checked "
    "on generated PDFs through the real parser, interpreter and PDFPageAggregator(laparams=None))",
    "tools/translate/gen_c05.py (operator arities from the do_* signatures, PREDEFINED_COLORSPACE, arithmetic of "
    "do_Td/do_T_a/render_string/LTChar.__init__) - every translated definition is used by the model and so exercised "
    "by the correspondence",
    "the harness's PDF writer / serialiser of content streams; the byte-level front end (C14's lexer model + the "
    "assembler of Model/ContentLex.lean) is run on the very bytes pdfminer reads and compared with it every run",
    "exact rationals stand for Python floats; comparison within 2^-30 relative tolerance",
    "font tables (Widths/FirstChar/MissingWidth, W/W2/DW2, FontMatrix, Descent) are inputs shared by model and spec "
    "(C06/C07 own their extraction from the font dictionaries)",
]
ASSUMPTIONS = [
    "operands are dyadic rationals of moderate size so that float arithmetic is exact up to the 0.001/0.01 constants",
    "domain = programs the ISO text model gives a meaning to (Spec.run answers some): Figure-9 nesting, no excess "
    "operands, balanced q/Q per stream/form, fonts/forms/colour spaces that exist, colour components in [0,1], "
    "forms inherit the caller's graphics state (a page whose Do reaches a form that shows text before any font was selected is outside the domain)",
    "graphicstate.ncolor None is read as 'initial colour'",
    "operators outside the property's list: the text model admits them by Figure 9 placement (paths/painting/clipping/sh not "
    "inside a text object) and operand count; the path-object sub-grammar (construction -> clipping -> painting) is not "
    "enforced; inline images BI..ID..EI are covered at token level by C05_unlisted_frame only (not generated, not in the byte-level front end)",
    "cs/CS with a name that is neither a ColorSpace resource of the current content nor a device colour space is ignored "
    "(a family name that needs parameters, and Pattern, are outside the domain); a form that is already being painted "
    "is not painted again by pdfminer - the text model gives such a page no meaning (outside the domain)",
]
STATEMENT_STATUS: Dict[str, str] = {
    "C05_program": "proved: for every env (fonts incl. Type 3 / CID / vertical, forms), CTM, resources, split into streams: "
                   "TextModel.runPage = some gl -> Interp.runPage reports exactly gl (induction over programs, any q/Q and "
                   "form nesting <= fuel; forms inherit the caller's graphics state)",
    "C05_program_bytes": "proved: the same starting from the bytes of the streams (lexer model of C14 + assembler)",
    "C05_program_any_budget": "proved: the same at every larger nesting budget",
    "C05_budget_suffices": "proved: a budget of forms.length + 1 is never exhausted, for any program and any form table "
                           "(pdfminer ignores a form that is already being painted)",
    "C05_fuel_stable": "proved: raising the nesting budget never changes a result",
    "C05_step": "proved: one instruction preserves the simulation relation R and yields the same glyphs",
    "C05_forms": "proved: Interp.runForm = TextModel.runForm at every budget from related initial states: a form "
                 "inherits the caller's graphics state (no prologue restriction any more)",
    "C05_split": "proved: streams one after the other = their concatenation (state, operand stack, glyphs)",
    "C05_split_page": "proved",
    "C05_lex_streams": "proved: PDFContentParser over a Contents array = lexer over the concatenated bytes",
    "C05_split_bytes": "proved: any division of the bytes into streams gives the same token-level program",
    "C05_split_at_token_boundary": "proved: at a token boundary, lexing the streams independently (ISO 7.8.2) = "
                                   "pdfminer's single scanner",
    "C05_split_at_white_space": "proved: a stream ending in white space after a complete number / operator / name "
                                "is such a boundary",
    "C05_form_frame": "proved: interpreter state of the caller after Do = before, device CTM = caller's CTM",
    "C05_form_frame_spec": "proved",
    "C05_illtyped": "proved: an instruction with missing/ill-typed operands (no booleans, no excess) leaves the "
                    "interpreter state unchanged and shows nothing",
    "C05_illtyped_spec": "proved (by definition of the spec)",
    "C05_string_displacement": "proved: render_string_horizontal = 9.4.4 displacement for every string and font",
    "C05_string_displacement_vertical": "proved: render_string_vertical = 9.4.4 (ty not scaled by Th)",
    "C05_font_scale": "proved: pdfminer's hscale/vscale (constants, Type 3 FontMatrix) are the scales of 9.6.5",
    "C05_glyph": "proved: LTChar.__init__ = glyph of the text model, horizontal and vertical writing",
    "C05_glyph_bbox": "proved: for every matrix (negative scale, rotation, skew, singular) LTChar.bbox = bounding box of the "
                      "four transformed corners of the text-space glyph box (contains them, every side touches one), the "
                      "swaps never fire, size = its height / width >= 0",
    "C05_glyph_bbox_axis": "proved: closed form for [a 0 0 d e f], any signs; size = |d*Tfs|",
    "C05_glyph_bbox_quarter": "proved: closed form for [0 b c 0 e f]; size = |b*adv|",
    "C05_glyph_upright": "proved: LTChar.upright (regenerated) = the text model's uprightOf(Trm, Th) for every matrix; the "
                         "field is part of the glyph record C05_program equates",
    "C05_upright_axis": "proved: axis-parallel matrix, Th > 0: upright <-> a*d > 0",
    "C05_upright_quarter": "proved: a quarter turn is never upright",
    "C05_unlisted_frame": "proved (unconditional): any keyword outside the 33 listed operators (paths, painting, clipping, "
                          "marked content, BX/EX, sh, general graphics state, BI/ID/EI, unknown) shows no glyph and changes "
                          "nothing of the interpreter/device state but takes its operands off the operand stack",
    "C05_unlisted_noop": "proved: a neutral operator (ISO Tables 57, 59-61, 77, 320, 32) with at most its operands leaves the "
                         "interpreter exactly as it was (arity from the regenerated do_* table)",
    "C05_unlisted_erase": "proved: deleting every unlisted operator from a program the text model gives a meaning to leaves "
                          "final state and glyphs unchanged (induction over programs)",
    "C05_unlisted_erase_page": "proved: ... for pages, and the interpreter reports exactly the glyphs of the page without them",
    "C05_unlisted_spec": "proved: where the text model admits such an operator it changes nothing and shows nothing",
    "C05_unlisted_admitted": "proved: the text model admits each of them with <= its ISO operand count - all at page level, "
                             "general graphics state / marked content / BX EX also inside a text object",
}

TOL = F(1, 2 ** 30)

logging.getLogger("pdfminer").setLevel(logging.ERROR)


# ------------------------------------------------------------------------------------------ syntax
# operand: ["n","3/4"] number | ["s","4142"] string (hex) | ["/","F1"] name | ["a",[operand...]] array | ["z"] null
#          ["b",1] boolean (wild only)
# instruction: [op, [operand...]]

NUM_OPS = {"cm": 6, "Tc": 1, "Tw": 1, "Tz": 1, "TL": 1, "Ts": 1, "Tr": 1, "Td": 2, "TD": 2, "Tm": 6,
           "g": 1, "G": 1, "rg": 3, "RG": 3, "k": 4, "K": 4}
SIG = {op: "n" * k for op, k in NUM_OPS.items()}
SIG.update({"q": "", "Q": "", "BT": "", "ET": "", "T*": "", "Tf": "/n", "Tj": "s", "TJ": "a", "'": "s", '"': "nns",
            "cs": "/", "CS": "/", "Do": "/"})
DYN = ("sc", "scn", "SC", "SCN")
ALL_OPS = sorted(SIG) + list(DYN)
TEXT_STATE = ("Tc", "Tw", "Tz", "TL", "Tf", "Tr", "Ts")
COLOUR = ("g", "G", "rg", "RG", "k", "K", "cs", "CS", "sc", "scn", "SC", "SCN")
POSITION = ("Td", "TD", "Tm", "T*")
# operators outside the property's list (ISO Tables 57, 59-61, 77, 320, 32): number of operands.  The text model gives
# them no effect on text state, CTM, colours or glyphs (Spec/TextModel.lean `neutralTable`; C05_unlisted_*).
NEUTRAL = {"w": 1, "J": 1, "j": 1, "M": 1, "d": 2, "ri": 1, "i": 1, "gs": 1,
           "m": 2, "l": 2, "c": 6, "v": 4, "y": 4, "h": 0, "re": 4,
           "S": 0, "s": 0, "f": 0, "F": 0, "f*": 0, "B": 0, "B*": 0, "b": 0, "b*": 0, "n": 0,
           "W": 0, "W*": 0, "sh": 1, "MP": 1, "DP": 2, "BMC": 1, "BDC": 2, "EMC": 0, "BX": 0, "EX": 0}
NEUTRAL_IN_TEXT = ("w", "J", "j", "M", "d", "ri", "i", "gs", "MP", "DP", "BMC", "BDC", "EMC", "BX", "EX")
NEUTRAL_PAGE_ONLY = tuple(k for k in NEUTRAL if k not in NEUTRAL_IN_TEXT)
SHOW = ("Tj", "TJ", "'", '"')
DEVICE_CS = {"DeviceGray": 1, "DeviceRGB": 3, "DeviceCMYK": 4}
CS_POOL = ["CS0", "CS1", "Cs2", "Sp"]          # resource names of colour spaces, shared by all pages / forms / cases
KNOWN_FAMILY = ("DeviceGray", "DeviceRGB", "DeviceCMYK", "CalGray", "CalRGB", "Lab", "ICCBased", "Indexed", "Separation",
                "DeviceN")
NEEDS_PARAMS = ("CalRGB", "CalGray", "Lab", "Separation", "Indexed", "Pattern")


def cs_resolve(res: dict, name: str):
    """("defined", family, n) | ("undefined",) | ("outside",) - what `cs` / `CS` name."""
    ent = (res.get("cspaces") or {}).get(name)
    if ent is not None:
        fam, n = ent[0], ent[1]
        return ("defined", fam, n) if (fam in KNOWN_FAMILY and n >= 1) else ("outside",)
    if name in DEVICE_CS:
        return ("defined", name, DEVICE_CS[name])
    return ("outside",) if name in NEEDS_PARAMS else ("undefined",)


def initial_colour(fam: str, n: int):
    if fam == "DeviceCMYK":
        return (F(0), F(0), F(0), F(1))
    return tuple([F(1) if fam in ("Separation", "DeviceN") else F(0)] * n)


def gen_cspaces(rng, wild: bool) -> dict:
    out = {}
    names = list(CS_POOL)
    rng.shuffle(names)
    for nm in names[:rng.choice([0, 0, 1, 1, 2, 3])]:
        r = rng.random()
        if r < 0.35:
            fam = rng.choice(list(DEVICE_CS))
            out[nm] = [fam, DEVICE_CS[fam], "alias"]
        elif r < 0.55:
            out[nm] = ["ICCBased", rng.choice([1, 3, 4, 2]), "icc"]
        elif r < 0.7:
            fam = rng.choice(["CalRGB", "CalGray", "Lab"])
            out[nm] = [fam, {"CalRGB": 3, "CalGray": 1, "Lab": 3}[fam], "cie"]
        elif r < 0.8:
            out[nm] = ["Separation", 1, "sep"]
        elif r < 0.88:
            out[nm] = ["Indexed", 1, "indexed"]
        else:
            out[nm] = ["DeviceN", rng.choice([1, 2, 3, 4, 5, 2]), "devn"]     # any number of colorants
    return out
PREDEFINED = [("DeviceGray", 1), ("CalRGB", 3), ("CalGray", 1), ("Lab", 3), ("DeviceRGB", 3), ("DeviceCMYK", 4),
              ("Separation", 1), ("Indexed", 1), ("Pattern", 1)]


def num(x) -> list:
    return ["n", str(F(x))]


def fs(x) -> str:
    return C.frac_str(x)


# ------------------------------------------------------------------------------------------ generator

def dy(rng, lo, hi, den):
    return F(rng.randint(lo * den, hi * den), den)


def gen_matrix(rng):
    r = rng.random()
    if r < 0.3:
        s = rng.choice([F(1), F(1), F(2), F(1, 2), F(3, 2), F(-1)])
        return [s, F(0), F(0), rng.choice([s, s, F(1), -s]), dy(rng, -100, 300, 4), dy(rng, -100, 300, 4)]
    if r < 0.45:
        a, b, c, d = rng.choice([(0, 1, -1, 0), (0, -1, 1, 0), (-1, 0, 0, -1), (0, 2, -2, 0)])
        return [F(a), F(b), F(c), F(d), dy(rng, -50, 300, 4), dy(rng, -50, 300, 4)]
    return [dy(rng, -2, 2, 4), dy(rng, -2, 2, 4), dy(rng, -2, 2, 4), dy(rng, -2, 2, 4), dy(rng, -100, 300, 4),
            dy(rng, -100, 300, 4)]


def gen_string(rng, font, maxlen=5) -> str:
    n = rng.randint(0, maxlen) if rng.random() < 0.9 else rng.randint(0, 12)
    first, cnt = font["first"], len(font["widths"])
    multi = font.get("kind", "simple") in ("cidh", "cidv")
    out = []
    for _ in range(n):
        r = rng.random()
        if r < 0.2:
            c = 32
        elif r < 0.9 and cnt:
            c = rng.randint(first, first + cnt - 1)
        else:
            c = rng.randint(0, 65535 if multi else 255)
        if multi:
            c = min(c, 65535)
            out += [c >> 8, c & 255]
        else:
            out.append(min(c, 255))
    if multi and rng.random() < 0.08:
        out.append(rng.randint(0, 255))       # a trailing odd byte is not a code
    return bytes(out).hex()


def gen_font(rng, idx):
    first = rng.choice([0, 32, 32, 32, 33, 65, 20])
    cnt = rng.choice([0, 1, 26, 60, 95, 224 - first if first < 224 else 5])
    kind = rng.random()
    ws = []
    for _ in range(cnt):
        if kind < 0.5:
            ws.append(rng.choice([250, 500, 750, 1000, 125, 0, 2000]))      # /1000 often exact in binary
        else:
            ws.append(rng.randint(0, 1200))
    f = {"name": "Vf%c%d" % (65 + idx, rng.randint(0, 9)), "first": first, "widths": ws,
         "mw": rng.choice([0, 0, 500, 300, 1000]), "descent": rng.choice([0, -200, -250, -120, -500]), "kind": "simple"}
    r = rng.random()
    if r < 0.14:
        # Type 3: glyph space -> text space by the FontMatrix (skew terms included), descent from the FontBBox
        f["kind"] = "type3"
        a = rng.choice([F(1, 1000), F(1, 1024), F(1, 512), F(1, 100), F(1, 2048)])
        d = rng.choice([a, F(1, 1000), F(1, 512), -a])
        f["fm"] = [str(a), str(rng.choice([F(0), F(0), F(1, 4096), -F(1, 2048)])),
                   str(rng.choice([F(0), F(0), F(1, 4096), F(1, 1024)])), str(d), "0", "0"]
        f["descent"] = rng.choice([0, -200, -128, 64])
    elif r < 0.26:
        f["kind"] = "cidh"            # Type0 / Identity-H: two-byte codes, no word spacing
        f["first"] = rng.choice([0, 1, 32, 300])
    elif r < 0.42:
        f["kind"] = "cidv"            # Type0 / Identity-V: vertical writing
        f["first"] = rng.choice([0, 1, 32, 300])
        f["widths"] = [rng.choice([-1000, -1000, -500, -880, 0, 600, -rng.randint(0, 1200)]) for _ in ws]
        f["disps"] = [[rng.choice([500, 250, 0, 440, -100]), rng.choice([880, 800, 1000, 0, 500])] for _ in ws]
        f["mw"] = rng.choice([-1000, -1000, -500, 0])
        f["dvy"] = rng.choice([880, 880, 1000, 0])
    return f


def font_decode(font: dict, b: bytes) -> List[int]:
    if font.get("kind", "simple") in ("cidh", "cidv"):
        return [b[i] * 256 + b[i + 1] for i in range(0, len(b) - 1, 2)]
    return list(b)


ILL = [["/", "Zz"], ["s", "7a51"], ["z"], ["a", []], ["a", [["n", "1"]]]]


class Gen:
    def __init__(self, rng, wild: bool, nops: int, ill_rate: float = 0.06):
        self.rng = rng
        self.wild = wild
        self.nops = nops
        self.ill_rate = ill_rate
        self.fonts = [gen_font(rng, i) for i in range(rng.randint(1, 3))]
        self.forms: List[dict] = []

    # -- resources
    def gen_res(self, max_form: int) -> dict:
        rng = self.rng
        names = ["F1", "F2", "Fa", "T1_0"]
        rng.shuffle(names)
        fonts = {}
        for nm in names[:rng.randint(1, min(3, len(names)))]:
            fonts[nm] = rng.randrange(len(self.fonts))
        xobjs = {}
        if max_form > 0:
            xn = ["X0", "Fm1", "Im2"]
            rng.shuffle(xn)
            for nm in xn[:rng.randint(1, 2)]:
                xobjs[nm] = rng.randrange(max_form)
        return {"fonts": fonts, "xobjs": xobjs, "cspaces": gen_cspaces(rng, self.wild)}

    def args_for(self, op: str, res: dict, st: dict) -> list:
        rng = self.rng
        if op in ("cm", "Tm"):
            return [num(x) for x in gen_matrix(rng)]
        if op in ("Tc", "Tw"):
            return [num(rng.choice([F(0), dy(rng, -2, 6, 8), dy(rng, -2, 6, 8)]))]
        if op == "Tz":
            return [num(rng.choice([100, 100, 50, 200, 75, 150, F(25, 2), 110, 33, -100]))]
        if op == "TL":
            return [num(dy(rng, -10, 30, 4))]
        if op == "Ts":
            return [num(dy(rng, -6, 6, 4))]
        if op == "Tr":
            return [num(rng.randint(0, 7))]
        if op in ("Td", "TD"):
            return [num(dy(rng, -40, 80, 4)), num(dy(rng, -40, 40, 4))]
        if op in ("g", "G"):
            return [num(dy(rng, 0, 1, 8))]
        if op in ("rg", "RG"):
            return [num(dy(rng, 0, 1, 8)) for _ in range(3)]
        if op in ("k", "K"):
            return [num(dy(rng, 0, 1, 8)) for _ in range(4)]
        if op in ("cs", "CS"):
            if self.wild and rng.random() < 0.3:
                return [["/", rng.choice(["Pattern", "Lab", "CalGray"])]]
            r = rng.random()
            own = list(res.get("cspaces") or {})
            if r < 0.4 and own:
                return [["/", rng.choice(own)]]               # a colour space of the current resources
            if r < 0.65:
                return [["/", rng.choice(CS_POOL + ["Nope"])]]   # maybe defined here, maybe only on another page / in the caller
            return [["/", rng.choice(list(DEVICE_CS))]]
        if op in DYN:
            n = st["ncs" if op in ("sc", "scn") else "scs"]
            return [num(dy(rng, 0, 1, 8)) for _ in range(n)]
        if op == "Tf":
            fn = list(res["fonts"])
            name = rng.choice(fn)
            if self.wild and rng.random() < 0.25:
                name = rng.choice(["Nofont", "F1", "F2", "Fa", "T1_0"])     # maybe only defined on another page / in the caller
            return [["/", name], num(rng.choice([10, 12, 8, F(15, 2), 1, 24, F(1, 2), 0, -10]))]
        if op in ("Tj", "'"):
            return [["s", gen_string(rng, self.cur_font(res, st))]]
        if op == '"':
            return [num(dy(rng, -2, 6, 8)), num(dy(rng, -2, 6, 8)), ["s", gen_string(rng, self.cur_font(res, st))]]
        if op == "TJ":
            el = []
            for _ in range(rng.randint(0, 5)):
                if rng.random() < 0.45:
                    el.append(num(rng.choice([rng.randint(-600, 600), dy(rng, -300, 300, 2)])))
                else:
                    el.append(["s", gen_string(rng, self.cur_font(res, st), 3)])
            if self.wild and rng.random() < 0.2:
                el.insert(rng.randint(0, len(el)), rng.choice([["/", "x"], ["z"]]))
            return [["a", el]]
        if op in NEUTRAL:
            if op == "d":
                return [["a", [num(rng.randint(0, 6)) for _ in range(rng.randint(0, 3))]], num(rng.randint(0, 4))]
            if op in ("ri", "gs", "sh", "MP", "BMC"):
                return [["/", rng.choice(["GS0", "Sh0", "Span", "P", "Perceptual", "F1"])]]
            if op in ("DP", "BDC"):
                return [["/", rng.choice(["OC", "P", "Span"])], ["/", rng.choice(["MC0", "Pr1"])]]
            if op in ("J", "j"):
                return [num(rng.randint(0, 2))]
            if op in ("w", "M", "i"):
                return [num(dy(rng, 0, 12, 4))]
            return [num(dy(rng, -50, 300, 4)) for _ in range(NEUTRAL[op])]
        if op == "Do":
            xn = list(res["xobjs"])
            name = rng.choice(xn) if xn else "Nox"
            if self.wild and rng.random() < 0.25:
                name = rng.choice(["Nox", "X0", "Fm1", "Im2"])
            return [["/", name]]
        return []

    def cur_font(self, res, st):
        f = st.get("font")
        if f is None or f not in res["fonts"]:
            return self.fonts[0]
        return self.fonts[res["fonts"][f]]

    def damage(self, op: str, args: list) -> list:
        """missing or ill-typed operands (never excess)"""
        rng = self.rng
        if not args:
            return args
        r = rng.random()
        if r < 0.4:
            k = rng.randint(0, len(args) - 1)
            return args[len(args) - k:] if rng.random() < 0.5 else args[:k]
        a = list(args)
        i = rng.randrange(len(a))
        cands = [x for x in ILL if not (x[0] == a[i][0])]
        if op in ("Tj", "'", '"', "TJ") and a[i][0] in ("s", "a"):
            cands = cands + [["n", "5"]]
        elif a[i][0] in ("/", "s", "a"):
            cands = cands + [["n", "3"]]
        a[i] = rng.choice(cands)
        return a

    def prologue(self, res: dict, st: dict) -> list:
        rng = self.rng
        out = []
        op = rng.choice(["g", "rg", "k"])
        out.append([op, self.args_for(op, res, st)])
        st["ncs"] = {"g": 1, "rg": 3, "k": 4}[op]
        op = rng.choice(["G", "RG", "K"])
        out.append([op, self.args_for(op, res, st)])
        st["scs"] = {"G": 1, "RG": 3, "K": 4}[op]
        for op in ("Tc", "Tw", "Tz", "TL", "Tf", "Tr", "Ts"):
            a = self.args_for(op, res, st)
            if op == "Tf":
                a[0] = ["/", rng.choice(list(res["fonts"]))]
                st["font"] = a[0][1]
            out.append([op, a])
        return out

    def body(self, res: dict, n: int, is_form: bool) -> list:
        """A program following Figure 9 (when not wild)."""
        rng = self.rng
        st = {"ncs": 1, "scs": 1, "font": None}
        out: List[list] = []
        stack: List[dict] = []
        in_text = False
        if is_form and rng.random() < 0.35:
            out += self.prologue(res, st)
        elif is_form and rng.random() < 0.6:
            st["font"] = "?"          # relies on the font / colour / text state the caller hands over
        elif not self.wild or rng.random() < 0.8:
            a = self.args_for("Tf", res, st)
            out.append(["Tf", a])
            st["font"] = a[0][1]
        while len(out) < n:
            r = rng.random()
            if self.wild and r < 0.12:
                op = rng.choice(ALL_OPS + ["xyz", "BX", "EX", "n"])
            elif in_text:
                if rng.random() < 0.1:
                    op = rng.choice(NEUTRAL_IN_TEXT)
                elif r < 0.42:
                    op = rng.choice(SHOW)
                elif r < 0.67:
                    op = rng.choice(POSITION)
                elif r < 0.85:
                    op = rng.choice(TEXT_STATE)
                elif r < 0.93:
                    op = rng.choice(COLOUR)
                else:
                    op = "ET"
            else:
                if rng.random() < 0.16:
                    op = rng.choice(NEUTRAL_PAGE_ONLY if rng.random() < 0.7 else NEUTRAL_IN_TEXT)
                elif r < 0.3:
                    op = "BT"
                elif r < 0.42:
                    op = "q"
                elif r < 0.52:
                    # on a page a Q with nothing saved restores nothing (a form's Q would reach into its caller's stack)
                    op = "Q" if (stack or (not is_form and rng.random() < 0.3)) else "q"
                elif r < 0.64:
                    op = "cm"
                elif r < 0.76:
                    op = rng.choice(TEXT_STATE)
                elif r < 0.88:
                    op = rng.choice(COLOUR)
                else:
                    op = "Do" if res["xobjs"] else "BT"
            if op in SIG or op in DYN or op in NEUTRAL:
                args = self.args_for(op, res, st)
            else:
                args = []
            well = True
            if rng.random() < self.ill_rate:
                a2 = self.damage(op, args)
                well = a2 == args
                args = a2
            elif self.wild and rng.random() < 0.06:
                args = [rng.choice([num(7), ["/", "Q"], ["s", "41"], ["b", 1], ["s", "4a4b"]])] + args   # excess / odd
                well = False
            out.append([op, args])
            # track what later generation depends on
            if op == "BT":
                in_text = True
            elif op == "ET":
                in_text = False
            elif op == "q":
                stack.append(dict(st))
            elif op == "Q" and stack:
                st = stack.pop()
            elif well and op in ("g", "rg", "k"):
                st["ncs"] = {"g": 1, "rg": 3, "k": 4}[op]
            elif well and op in ("G", "RG", "K"):
                st["scs"] = {"G": 1, "RG": 3, "K": 4}[op]
            elif well and op in ("cs", "CS"):
                rr = cs_resolve(res, args[0][1])
                if rr[0] == "defined":
                    st["ncs" if op == "cs" else "scs"] = rr[2]
            elif well and op == "Tf":
                st["font"] = args[0][1]
        if not self.wild or rng.random() < 0.7:
            if in_text:
                out.append(["ET", []])
            if is_form or rng.random() < 0.6:
                for _ in stack:
                    out.append(["Q", []])
            # else: the page ends with states still saved - they are dropped with the page
        return out

    def case(self) -> dict:
        rng = self.rng
        nforms = rng.choice([0, 0, 1, 2, 3])
        for i in range(nforms):
            own = rng.random() < 0.75
            res = self.gen_res(i) if own else None
            self.forms.append({"matrix": [str(x) for x in gen_matrix(rng)] if rng.random() < 0.8 else None,
                               "bbox": [0, 0, rng.randint(1, 500), rng.randint(1, 500)],
                               "res": res, "prog": None})
        page_res = self.gen_res(nforms)
        # bodies: a form without own resources is generated against the page's (it inherits the caller's; with
        # nesting the caller may be another form: then names may be undefined -> out of the domain, tie only)
        for i, fm in enumerate(self.forms):
            r = fm["res"] or {"fonts": page_res["fonts"], "xobjs": {k: v for k, v in page_res["xobjs"].items() if v < i},
                              "cspaces": page_res["cspaces"]}
            fm["prog"] = self.body(r, rng.randint(10, max(11, self.nops // 3)), True)
        prog = self.body(page_res, self.nops, False)
        x0, y0 = rng.choice([(0, 0), (0, 0), (-20, 10), (36, -18)])
        case = {"mediabox": [x0, y0, x0 + 612, y0 + 792], "rotate": rng.choice([0, 0, 0, 90, 180, 270]),
                "fonts": self.fonts, "forms": self.forms, "res": page_res, "prog": prog, "trail": [],
                "splits": [], "style": rng.randint(0, 3)}
        if rng.random() < (0.2 if self.wild else 0.1):
            case["trail"] = rng.choice([[num(3)], [num(7), num(F(1, 2))], [["/", "Zz"]], [num(1), num(0), num(0), num(1), num(5)]])
        nlex = len(lex_tokens(case["prog"], case["trail"], case["style"]))
        k = rng.choice([0, 1, 1, 2, 3])
        if nlex > 2:
            case["splits"] = sorted({(rng.randint(1, nlex - 1)) for _ in range(k)})
            case["splitmode"] = [rng.randint(0, 2) for _ in case["splits"]]
        else:
            case["splitmode"] = []
        # further pages of the same document: their own resources (the same pool of names, defined differently or
        # not at all), interpreted by the same interpreter / resource manager / process after the first page
        if rng.random() < 0.3:
            case["more_pages"] = []
            for _ in range(rng.choice([1, 1, 2])):
                r2 = self.gen_res(nforms)
                pg = {"res": r2, "prog": self.body(r2, max(6, self.nops // 3), False)}
                if rng.random() < 0.4:
                    # begin with a Q: nothing is saved on a new page, whatever the page before left on its stack
                    pg["prog"] = [["Q", []]] * rng.choice([1, 1, 2]) + pg["prog"]
                if rng.random() < 0.4:
                    # begin with an operator whose operands are missing: it must not find any left over by the page before
                    op0 = rng.choice(["Tc", "Tw", "TL", "Tz", "g", "rg", "cm", "Ts"])
                    pg["prog"] = [[op0, []]] + pg["prog"]
                case["more_pages"].append(pg)
        case["caching"] = rng.random() < 0.5
        if self.wild and rng.random() < 0.5:
            total = sum(len(b) for b in serialise(case["prog"], case["trail"], case["style"], case["splits"], case["splitmode"]))
            if total > 2:
                case["bytecuts"] = [rng.randint(1, total - 1) for _ in range(rng.choice([1, 1, 2]))]
        return case


# ------------------------------------------------------------------------------------------ serialiser

def ser_num(s: str, style: int) -> bytes:
    f = F(s)
    if f.denominator == 1:
        if style == 1 and f >= 0:
            return b"+%d" % f.numerator if f.numerator % 3 == 0 else b"%d" % f.numerator
        if style == 2:
            return b"%d.0" % f.numerator
        return b"%d" % f.numerator
    b = W.ser_real(f)
    if style == 3 and b.startswith(b"0."):
        b = b[1:]
    elif style == 3 and b.startswith(b"-0."):
        b = b"-" + b[2:]
    return b


def lex_operand(o: list, style: int) -> List[bytes]:
    k = o[0]
    if k == "n":
        return [ser_num(o[1], style)]
    if k == "s":
        b = bytes.fromhex(o[1])
        if style in (1, 3) or (style == 2 and len(b) % 2 == 0):
            return [b"<" + o[1].encode() + b">"]
        return [W.ser_string(b).replace(b"\n", b"\\n")]
    if k == "/":
        return [W.ser_name(o[1].encode("latin-1"))]
    if k == "a":
        out = [b"["]
        for e in o[1]:
            out += lex_operand(e, style)
        return out + [b"]"]
    if k == "z":
        return [b"null"]
    if k == "b":
        return [b"true" if o[1] else b"false"]
    raise ValueError(o)


def lex_tokens(prog: list, trail: list, style: int) -> List[bytes]:
    out: List[bytes] = []
    for op, args in prog:
        for a in args:
            out += lex_operand(a, style)
        out.append(op.encode("latin-1"))
    for a in trail:
        out += lex_operand(a, style)
    return out


def serialise(prog: list, trail: list, style: int, splits: List[int], modes: List[int]) -> List[bytes]:
    toks = lex_tokens(prog, trail, style)
    ws = [b" ", b"\n", b"\r\n", b"  "][style % 4]
    streams: List[bytes] = []
    cur = bytearray()
    sp = {s: m for s, m in zip(splits, modes)}
    for i, t in enumerate(toks):
        if i in sp and i > 0:
            m = sp[i]
            if m in (0, 2):
                cur += ws
            streams.append(bytes(cur))
            cur = bytearray()
            if m in (1, 2):
                cur += b"\n"
        elif i > 0:
            cur += ws if (i % 7) else b"\n"
        cur += t
    if style != 3:
        cur += b"\n"
    streams.append(bytes(cur))
    return streams


def byte_streams(case: dict) -> List[bytes]:
    """The Contents array as written to the PDF: the token-boundary split, then (wild cases) extra cuts at
    arbitrary byte offsets - also in the middle of a token: pdfminer's scanner survives a stream boundary."""
    streams = serialise(case["prog"], case.get("trail", []), case.get("style", 0), case.get("splits", []),
                        case.get("splitmode", []))
    for cut in case.get("bytecuts", []):
        out, done = [], False
        for b in streams:
            if not done and 0 < cut < len(b):
                out += [b[:cut], b[cut:]]
                done = True
            else:
                out.append(b)
                if not done:
                    cut -= len(b)
        streams = out
    return streams


# ------------------------------------------------------------------------------------------ implementation adapter

def page_ctm(mediabox, rotate):
    (x0, y0, x1, y1) = [F(v) for v in mediabox]
    if rotate == 90:
        return (F(0), F(-1), F(1), F(0), -y0, x1)
    if rotate == 180:
        return (F(-1), F(0), F(0), F(-1), x1, y1)
    if rotate == 270:
        return (F(0), F(1), F(-1), F(0), y1, -x0)
    return (F(1), F(0), F(0), F(1), -x0, -y0)


def build_pdf(case: dict) -> bytes:
    objs: Dict[int, Any] = {}
    for i, f in enumerate(case["fonts"]):
        kind = f.get("kind", "simple")
        desc = {"Type": "FontDescriptor", "FontName": f["name"], "Flags": 32, "Descent": f["descent"],
                "MissingWidth": f["mw"], "FontBBox": [0, -200, 1000, 800]}
        if kind == "simple":
            d = {"Type": "Font", "Subtype": "Type1", "BaseFont": f["name"], "FirstChar": f["first"],
                 "LastChar": f["first"] + max(0, len(f["widths"]) - 1), "Widths": list(f["widths"]),
                 "FontDescriptor": desc}
        elif kind == "type3":
            desc = dict(desc, FontBBox=[0, f["descent"], 1000, 800])
            d = {"Type": "Font", "Subtype": "Type3", "FontBBox": [0, f["descent"], 1000, 800],
                 "FontMatrix": [F(x) for x in f["fm"]], "CharProcs": {}, "FirstChar": f["first"],
                 "LastChar": f["first"] + max(0, len(f["widths"]) - 1), "Widths": list(f["widths"]),
                 "FontDescriptor": desc}
        else:
            cid = {"Type": "Font", "Subtype": "CIDFontType2", "BaseFont": f["name"],
                   "CIDSystemInfo": {"Registry": b"Adobe", "Ordering": b"Identity", "Supplement": 0},
                   "FontDescriptor": {k: v for k, v in desc.items() if k != "MissingWidth"}}
            if kind == "cidh":
                cid["DW"] = f["mw"]
                if f["widths"]:
                    cid["W"] = [f["first"], list(f["widths"])]
            else:
                cid["DW2"] = [f["dvy"], f["mw"]]
                if f["widths"]:
                    flat = []
                    for w, (vx, vy) in zip(f["widths"], f["disps"]):
                        flat += [w, vx, vy]
                    cid["W2"] = [f["first"], flat]
            objs[60 + i] = cid
            d = {"Type": "Font", "Subtype": "Type0", "BaseFont": f["name"],
                 "Encoding": "Identity-H" if kind == "cidh" else "Identity-V", "DescendantFonts": [W.Ref(60 + i)]}
        objs[20 + i] = d

    def cs_obj(ent):
        fam, n, kind = ent
        if kind == "alias":
            return W.Name(fam.encode())
        if kind == "icc":
            objs[80 + len([k for k in objs if 80 <= k < 100])] = W.Stream({"N": n}, b"")
            return [W.Name(b"ICCBased"), W.Ref(max(k for k in objs if 80 <= k < 100))]
        if kind == "cie":
            return [W.Name(fam.encode()), {"WhitePoint": [1, 1, 1]}]
        if kind == "sep":
            return [W.Name(b"Separation"), W.Name(b"Spot"), W.Name(b"DeviceGray"), {"FunctionType": 2, "Domain": [0, 1], "N": 1}]
        if kind == "indexed":
            return [W.Name(b"Indexed"), W.Name(b"DeviceRGB"), 1, W.HexStr(bytes.fromhex("000000ffffff"))]
        return [W.Name(b"DeviceN"), [W.Name(b"C%d" % i) for i in range(n)], W.Name(b"DeviceRGB"),
                {"FunctionType": 2, "Domain": [0, 1], "N": 1}]

    def res_obj(res):
        d: Dict[str, Any] = {"Font": {k: W.Ref(20 + v) for k, v in res["fonts"].items()}}
        if res["xobjs"]:
            d["XObject"] = {k: W.Ref(40 + v) for k, v in res["xobjs"].items()}
        if res.get("cspaces"):
            d["ColorSpace"] = {k: cs_obj(v) for k, v in res["cspaces"].items()}
        return d

    for i, fm in enumerate(case["forms"]):
        d = {"Type": "XObject", "Subtype": "Form", "BBox": list(fm["bbox"])}
        if fm["matrix"] is not None:
            d["Matrix"] = [F(x) for x in fm["matrix"]]
        if fm["res"] is not None:
            d["Resources"] = res_obj(fm["res"])
        data = serialise(fm["prog"], [], case.get("style", 0), [], [])[0]
        objs[40 + i] = W.Stream(d, data)
    # pages: 100.. contents, 200.. page objects
    kids = []
    pages = [(case["res"], byte_streams(case))] + [(pg["res"], serialise(pg["prog"], [], case.get("style", 0), [], []))
                                                  for pg in case.get("more_pages", [])]
    n = 100
    for k, (res, streams) in enumerate(pages):
        refs = []
        for part in streams:
            objs[n] = W.Stream({}, bytes(part))
            refs.append(W.Ref(n))
            n += 1
        pg = {"Type": "Page", "Parent": W.Ref(2), "Contents": refs[0] if len(refs) == 1 else refs,
              "Resources": res_obj(res), "MediaBox": list(case["mediabox"])}
        if case.get("rotate"):
            pg["Rotate"] = case["rotate"]
        objs[200 + k] = pg
        kids.append(W.Ref(200 + k))
    objs[1] = {"Type": "Catalog", "Pages": W.Ref(2)}
    objs[2] = {"Type": "Pages", "Kids": kids, "Count": len(kids)}
    return W.build_pdf(objs, 1)


def run_impl(case: dict):
    """Returns ("ok", [glyph...], dep) or ("exc", "Type@where", None).  glyph = dict of exact Fractions.
    `dep`: None, or (page index, field) when a page of a multi-page document is reported differently after the
    pages before it than on its own (fresh resource manager, device and interpreter, run BEFORE the others)."""
    from pdfminer.converter import PDFPageAggregator
    from pdfminer.layout import LTChar, LTFigure
    from pdfminer.pdfdocument import PDFDocument
    from pdfminer.pdfinterp import PDFPageInterpreter, PDFResourceManager
    from pdfminer.pdfpage import PDFPage
    from pdfminer.pdfparser import PDFParser
    pdf = build_pdf(case)

    def glyphs_of(lt):
        out: List[dict] = []

        def walk(c):
            for o in c:
                if isinstance(o, LTChar):
                    col = o.graphicstate.ncolor
                    if col is None:
                        cc = None
                    elif isinstance(col, (tuple, list)):
                        cc = [F(x) for x in col]
                    else:
                        cc = [F(col)]
                    out.append({"m": [F(x) for x in o.matrix], "adv": F(o.adv), "bbox": [F(x) for x in o.bbox],
                                "size": F(o.size), "font": o.fontname, "col": cc, "upright": bool(o.upright)})
                elif isinstance(o, LTFigure):
                    walk(o)
        walk(lt)
        return out

    def interpret(pages):
        rm = PDFResourceManager(caching=bool(case.get("caching", False)))
        dev = PDFPageAggregator(rm, laparams=None)
        it = PDFPageInterpreter(rm, dev)
        res = []
        for page in pages:
            it.process_page(page)
            res.append(glyphs_of(dev.get_result()))
        return res

    try:
        doc = PDFDocument(PDFParser(io.BytesIO(pdf)))
        pages = list(PDFPage.create_pages(doc))
        alone = {}
        if len(pages) > 1:
            # later pages on their own first: nothing of this document has been interpreted yet
            for k in range(len(pages) - 1, 0, -1):
                try:
                    alone[k] = interpret([pages[k]])[0]
                except RecursionError:
                    raise
                except Exception as e:  # noqa: BLE001
                    alone[k] = "EXC:" + type(e).__name__
        per_page = interpret(pages)
    except RecursionError:
        return ("exc", "RecursionError", None)
    except Exception as e:  # noqa: BLE001
        import traceback
        tb = traceback.extract_tb(e.__traceback__)
        where = next((f"{os.path.basename(fr.filename)}:{fr.name}" for fr in reversed(tb) if "pdfminer" in fr.filename), "?")
        return ("exc", f"{type(e).__name__}@{where}", None)
    dep = None
    for k, a in sorted(alone.items()):
        if isinstance(a, str):
            dep = (k, "exception alone: " + a)
            break
        d = seq_diff(a, per_page[k])
        if d is not None:
            dep = (k, d[1])
            break
    return ("ok", [g for pg in per_page for g in pg], dep)


# ------------------------------------------------------------------------------------------ Python twin of the spec

class Out(Exception):
    """The ISO text model gives no meaning to the program: outside the property's domain."""


def mmul(m1, m0):
    (a1, b1, c1, d1, e1, f1) = m1
    (a0, b0, c0, d0, e0, f0) = m0
    return (a0 * a1 + c0 * b1, b0 * a1 + d0 * b1, a0 * c1 + c0 * d1, b0 * c1 + d0 * d1,
            a0 * e1 + c0 * f1 + e0, b0 * e1 + d0 * f1 + f0)


def mtrans(x, y):
    return (F(1), F(0), F(0), F(1), x, y)


IDENT = (F(1), F(0), F(0), F(1), F(0), F(0))


def mapply(m, p):
    (a, b, c, d, e, f) = m
    return (a * p[0] + c * p[1] + e, b * p[0] + d * p[1] + f)


def font_width(font: dict, code: int) -> F:
    i = code - font["first"]
    return F(font["widths"][i] if 0 <= i < len(font["widths"]) else font["mw"])


def font_scales(font: dict) -> Tuple[F, F]:
    if font.get("kind") == "type3":
        return F(font["fm"][0]), F(font["fm"][3])      # 9.6.5: (w, 0) x FontMatrix = (w a, ...)
    return F(1, 1000), F(1, 1000)


def observe(trm, font: dict, tfs, th, rise, code: int, col) -> dict:
    """What LTChar reports for a glyph the text model places with Tm x CTM = trm."""
    hs, vs = font_scales(font)
    w = font_width(font, code) * hs
    if font.get("kind") == "cidv":
        adv = w * tfs
        i = code - font["first"]
        if 0 <= i < len(font["disps"]):
            vx = F(font["disps"][i][0]) / 1000 * tfs
            vy0 = F(font["disps"][i][1])
        else:
            vx = tfs / 2
            vy0 = F(font["dvy"])
        vy = (1000 - vy0) / 1000 * tfs
        box = (-vx, vy + rise + adv, -vx + tfs, vy + rise)
    else:
        adv = w * tfs * th
        desc = F(font["descent"]) * vs * tfs
        box = (F(0), desc + rise, adv, desc + rise + tfs)
    pts = [mapply(trm, (x, y)) for x in (box[0], box[2]) for y in (box[1], box[3])]
    x0, x1 = min(p[0] for p in pts), max(p[0] for p in pts)
    y0, y1 = min(p[1] for p in pts), max(p[1] for p in pts)
    return {"m": list(trm), "adv": adv, "bbox": [x0, y0, x1, y1],
            "size": (x1 - x0) if font.get("kind") == "cidv" else (y1 - y0), "font": font["name"],
            "col": None if col is None else list(col),
            # not rotated, not mirrored (th = Th/100; its sign decides like Th's)
            "upright": trm[0] * trm[3] * th > 0 and trm[1] * trm[2] <= 0}


class SpecMachine:
    """ISO 32000-1 8.4 (graphics state, q/Q, cm), 8.6 (colour operators), 8.10 (forms), 9.3-9.4 (text)."""

    def __init__(self, case: dict):
        self.case = case
        self.glyphs: List[dict] = []

    def run(self) -> List[dict]:
        g = {"ctm": page_ctm(self.case["mediabox"], self.case.get("rotate", 0)),
             "ncs": 1, "ncol": None, "scs": 1, "scol": None,
             "Tc": F(0), "Tw": F(0), "Th": F(100), "Tl": F(0), "font": None, "Tfs": F(0), "Tmode": 0, "Trise": F(0)}
        self.active: List[int] = []
        self.stream(self.case["prog"], dict(g), self.case["res"], 0)
        for pg in self.case.get("more_pages", []):      # every page starts from the initial graphics state
            self.stream(pg["prog"], dict(g), pg["res"], 0)
        return self.glyphs

    def stream(self, prog, g, res, depth):
        """Executes one content stream (page or form body) under Figure 9; returns the final graphics state."""
        if depth > 8:
            raise Out("nesting")
        stack: List[dict] = []
        txt = None      # None outside a text object, else {"Tm":..., "Tlm":...}
        for op, args in prog:
            g, txt = self.step(op, args, g, txt, stack, res, depth)
        if txt is not None or (stack and depth > 0):      # what a page leaves saved is dropped with the page
            raise Out("unbalanced")
        return g

    def step(self, op, args, g, txt, stack, res, depth):
        if op in NEUTRAL:
            # general graphics state, paths, painting, clipping, shading, marked content, BX/EX: nothing of the text
            # model depends on them; Figure 9 admits only some of them inside a text object
            if txt is not None and op not in NEUTRAL_IN_TEXT:
                raise Out("context")
            if any(a[0] == "b" for a in args):
                raise Out("boolean operand")
            if len(args) > NEUTRAL[op]:
                raise Out("excess operands")
            return g, txt
        if op not in SIG and op not in DYN:
            raise Out("operator " + op)
        page_ok = op in ("q", "Q", "cm", "Do", "BT") or op in TEXT_STATE or op in COLOUR
        text_ok = op in POSITION or op in SHOW or op == "ET" or op in TEXT_STATE or op in COLOUR
        if not (text_ok if txt is not None else page_ok):
            raise Out("context")
        sig = SIG.get(op)
        if sig is None:
            sig = "n" * (g["ncs"] if op in ("sc", "scn") else g["scs"])
        if any(a[0] == "b" for a in args):
            raise Out("boolean operand")
        if len(args) > len(sig):
            raise Out("excess operands")
        if len(args) < len(sig) or any(a[0] != t for a, t in zip(args, sig)):
            return g, txt                               # missing / ill-typed: affects nothing
        v = [F(a[1]) if a[0] == "n" else a[1] for a in args]
        g = dict(g)
        if op == "q":
            stack.append(dict(g))
        elif op == "Q":
            if not stack:
                if depth > 0:
                    raise Out("Q without q")              # would reach into the caller's saved states
            else:
                g = stack.pop()
        elif op == "cm":
            g["ctm"] = mmul(tuple(v), g["ctm"])
        elif op in ("g", "rg", "k", "G", "RG", "K"):
            if any(x < 0 or x > 1 for x in v):
                raise Out("colour range")
            k = "n" if op.islower() else "s"
            g[k + "cs"], g[k + "col"] = len(v), tuple(v)
        elif op in ("cs", "CS"):
            rr = cs_resolve(res, v[0])
            if rr[0] == "outside":
                raise Out("colour space")
            if rr[0] == "defined":
                k = "n" if op == "cs" else "s"
                g[k + "cs"] = rr[2]
                g[k + "col"] = initial_colour(rr[1], rr[2])
            # an undefined name: the operator is ignored
        elif op in DYN:
            if any(x < 0 or x > 1 for x in v):
                raise Out("colour range")
            g[("n" if op in ("sc", "scn") else "s") + "col"] = tuple(v)
        elif op == "Tc":
            g["Tc"] = v[0]
        elif op == "Tw":
            g["Tw"] = v[0]
        elif op == "Tz":
            g["Th"] = v[0]
        elif op == "TL":
            g["Tl"] = v[0]
        elif op == "Ts":
            g["Trise"] = v[0]
        elif op == "Tr":
            if v[0].denominator != 1:
                raise Out("Tr operand")
            g["Tmode"] = int(v[0])
        elif op == "Tf":
            if v[0] not in res["fonts"]:
                raise Out("font resource")
            g["font"], g["Tfs"] = res["fonts"][v[0]], v[1]
        elif op == "BT":
            txt = {"Tm": IDENT, "Tlm": IDENT}
        elif op == "ET":
            txt = None
        elif op == "Td":
            txt = self.td(txt, v[0], v[1])
        elif op == "TD":
            g["Tl"] = -v[1]
            txt = self.td(txt, v[0], v[1])
        elif op == "Tm":
            txt = {"Tm": tuple(v), "Tlm": tuple(v)}
        elif op == "T*":
            txt = self.td(txt, F(0), -g["Tl"])
        elif op == "Tj":
            txt = self.show(g, txt, [["s", v[0]]])
        elif op == "'":
            txt = self.td(txt, F(0), -g["Tl"])
            txt = self.show(g, txt, [["s", v[0]]])
        elif op == '"':
            g["Tw"], g["Tc"] = v[0], v[1]
            txt = self.td(txt, F(0), -g["Tl"])
            txt = self.show(g, txt, [["s", v[2]]])
        elif op == "TJ":
            if any(e[0] not in ("n", "s") for e in v[0]):
                raise Out("TJ element")
            txt = self.show(g, txt, v[0])
        elif op == "Do":
            if v[0] not in res["xobjs"]:
                raise Out("xobject resource")
            fi = res["xobjs"][v[0]]
            fm = self.case["forms"][fi]
            if fi in self.active:
                raise Out("form invokes itself")
            self.active.append(fi)
            g2 = dict(g)                                 # q
            if fm["matrix"] is not None:
                g2["ctm"] = mmul(tuple(F(x) for x in fm["matrix"]), g2["ctm"])   # Matrix cm
            self.stream(fm["prog"], g2, fm["res"] if fm["res"] is not None else res, depth + 1)
            self.active.pop()
            # Q : g unchanged
        return g, txt

    @staticmethod
    def td(txt, tx, ty):
        tlm = mmul(mtrans(tx, ty), txt["Tlm"])
        return {"Tm": tlm, "Tlm": tlm}

    def show(self, g, txt, seq):
        if g["font"] is None:
            raise Out("no font")
        font = self.case["fonts"][g["font"]]
        kind = font.get("kind", "simple")
        vertical, multi = kind == "cidv", kind in ("cidh", "cidv")
        hs, _ = font_scales(font)
        tm = txt["Tm"]
        th = g["Th"] / 100
        for e in seq:
            if e[0] == "n":
                t = -F(e[1]) / 1000 * g["Tfs"]
                tm = mmul(mtrans(F(0), t) if vertical else mtrans(t * th, F(0)), tm)
            else:
                for code in font_decode(font, bytes.fromhex(e[1])):
                    w = font_width(font, code) * hs
                    self.glyphs.append(observe(mmul(tm, g["ctm"]), font, g["Tfs"], th, g["Trise"], code, g["ncol"]))
                    d = w * g["Tfs"] + g["Tc"] + (g["Tw"] if (code == 32 and not multi) else 0)
                    tm = mmul(mtrans(F(0), d) if vertical else mtrans(d * th, F(0)), tm)
        return {"Tm": tm, "Tlm": txt["Tlm"]}


PROLOGUE = [("g", "rg", "k"), ("G", "RG", "K"), ("Tc",), ("Tw",), ("Tz",), ("TL",), ("Tf",), ("Tr",), ("Ts",)]


def has_prologue(prog) -> bool:
    if len(prog) < len(PROLOGUE):
        return False
    for (op, args), allowed in zip(prog, PROLOGUE):
        if op not in allowed:
            return False
        sig = SIG[op]
        if len(args) != len(sig) or any(a[0] != t for a, t in zip(args, sig)):
            return False
    return True


def py_spec(case: dict):
    try:
        return ("ok", SpecMachine(case).run())
    except Out as e:
        return ("out", str(e))


# ------------------------------------------------------------------------------------------ comparison

def close(a: F, b: F) -> bool:
    d = abs(a - b)
    return d <= TOL * max(1, abs(a), abs(b))


def glyph_diff(impl: dict, exp: dict) -> Optional[str]:
    for i in range(6):
        if not close(impl["m"][i], exp["m"][i]):
            return "matrix[%d]" % i
    if not close(impl["adv"], exp["adv"]):
        return "adv"
    if impl["font"] != exp["font"]:
        return "font"
    ic, ec = impl["col"], exp["col"]
    if (ic is None) != (ec is None) or (ic is not None and (len(ic) != len(ec) or any(not close(x, y) for x, y in zip(ic, ec)))):
        return "colour"
    for i in range(4):
        if not close(impl["bbox"][i], exp["bbox"][i]):
            return "bbox[%d]" % i
    if not close(impl["size"], exp["size"]):
        return "size"
    if impl.get("upright") != exp.get("upright"):
        return "upright"
    return None


def seq_diff(impl: List[dict], exp: List[dict]) -> Optional[Tuple[int, str]]:
    for i, (a, b) in enumerate(zip(impl, exp)):
        d = glyph_diff(a, b)
        if d:
            return (i, d)
    if len(impl) != len(exp):
        return (min(len(impl), len(exp)), "count %d vs %d" % (len(impl), len(exp)))
    return None


def show_glyph(g: Optional[dict]) -> Any:
    if g is None:
        return None
    return {"m": [fs(x) for x in g["m"]], "adv": fs(g["adv"]), "bbox": [fs(x) for x in g["bbox"]], "size": fs(g["size"]),
            "font": g["font"], "col": None if g["col"] is None else [fs(x) for x in g["col"]], "upright": g.get("upright")}


# ------------------------------------------------------------------------------------------ driver protocol

def enc_operand(o) -> List[str]:
    k = o[0]
    if k == "n":
        return ["n" + fs(F(o[1]))]
    if k == "s":
        return ["s" + (o[1] or "-")]
    if k == "/":
        return ["/" + o[1].encode("latin-1").hex()]
    if k == "a":
        out = ["["]
        for e in o[1]:
            out += enc_operand(e) if e[0] != "a" else ["z"]
        return out + ["]"]
    if k == "b":
        return ["b%d" % (1 if o[1] else 0)]
    return ["z"]


def enc_prog(prog, trail=()) -> str:
    out: List[str] = []
    for op, args in prog:
        for a in args:
            out += enc_operand(a)
        out.append("o" + op.encode("latin-1").hex())
    for a in trail:
        out += enc_operand(a)
    return " ".join(out)


def enc_res(res) -> str:
    if res is None:
        return "inherit"
    f = ",".join("%s=%d" % (k.encode("latin-1").hex(), v) for k, v in res["fonts"].items()) or "-"
    x = ",".join("%s=%d" % (k.encode("latin-1").hex(), v) for k, v in res["xobjs"].items()) or "-"
    c = ",".join("%s=%s:%d" % (k.encode("latin-1").hex(), v[0].encode("latin-1").hex(), v[1])
                 for k, v in (res.get("cspaces") or {}).items()) or "-"
    return f"res {f} {x} {c}"


def enc_case(case: dict, mode: str) -> str:
    """One request line.  Streams are sent separately (the model folds over them)."""
    parts = [f"c05 {mode} " + " ".join(fs(x) for x in page_ctm(case["mediabox"], case.get("rotate", 0)))]
    for f in case["fonts"]:
        kind = f.get("kind", "simple")
        if kind == "type3":
            k = "t3:" + ",".join(fs(F(x)) for x in f["fm"])
        elif kind == "cidv":
            k = "cidv:%d:%s" % (f["dvy"], ";".join("%d,%d" % (vx, vy) for vx, vy in f["disps"]) or "-")
        else:
            k = {"simple": "s", "cidh": "cidh"}[kind]
        parts.append("font %s %d %d %d %s %s" % (f["name"].encode("latin-1").hex(), f["first"], f["mw"], f["descent"], k,
                                                   " ".join(str(w) for w in f["widths"]) or "-"))
    for fm in case["forms"]:
        m = " ".join(fs(F(x)) for x in fm["matrix"]) if fm["matrix"] is not None else "nomatrix"
        parts.append(f"form {m} ; {enc_res(fm['res'])} ; {enc_prog(fm['prog'])}")
    parts.append(f"page {enc_res(case['res'])}")
    if mode == "modelb":
        for b in byte_streams(case):
            parts.append("bstream " + (b.hex() or "-"))
    else:
        for s in split_token_streams(case):
            parts.append("stream " + s)
    for pg in case.get("more_pages", []):
        parts.append(f"page {enc_res(pg['res'])}")
        if mode == "modelb":
            parts.append("bstream " + (serialise(pg["prog"], [], case.get("style", 0), [], [])[0].hex() or "-"))
        else:
            parts.append("stream " + (enc_prog(pg["prog"]) or "-"))
    return " | ".join(parts)


def split_token_streams(case) -> List[str]:
    """The program as the token lists of its content streams (split where the byte streams are split)."""
    words: List[str] = enc_prog(case["prog"], case.get("trail", ())).split(" ") if (case["prog"] or case.get("trail")) else []
    # lexical tokens and protocol words correspond 1:1
    cuts = []
    for c in case.get("splits", []):
        if 0 < c < len(words):
            # the byte streams may be cut inside an array (the parser's state survives a stream boundary);
            # at token level the whole array then belongs to the later stream
            opened = None
            for j in range(c):
                if words[j] == "[":
                    opened = j
                elif words[j] == "]":
                    opened = None
            c = opened if opened is not None else c
            if c > 0 and c not in cuts:
                cuts.append(c)
    out, prev = [], 0
    for c in cuts + [len(words)]:
        out.append(" ".join(words[prev:c]) or "-")
        prev = c
    return out


def parse_reply(line: str):
    if line.startswith("OUT"):
        return ("out", line[4:])
    if line.startswith("ERR") or line == "bad-op":
        return ("err", line)
    gl = []
    if line != "-":
        for part in line.split(";"):
            w = part.split(" ")
            nums = [F(x) for x in w[:12]]
            col = None if w[13] == "-" else [F(x) for x in w[13].split(",")]
            gl.append({"m": nums[:6], "adv": nums[6], "bbox": nums[7:11], "size": nums[11],
                       "font": bytes.fromhex(w[12]).decode("latin-1") if w[12] != "-" else "", "col": col,
                       "upright": w[14] == "u1"})
    return ("ok", gl)


# ------------------------------------------------------------------------------------------ evaluation of one case

def case_features(case) -> List[str]:
    ops = set()

    def scan(prog):
        for op, args in prog:
            ops.add(op)
    scan(case["prog"])
    for fm in case["forms"]:
        scan(fm["prog"])
    return sorted(ops)


def tags_for(case, idx: int, field: str, impl, exp) -> Dict[str, Any]:
    progs = [case["prog"]] + [fm["prog"] for fm in case["forms"]]
    ops = [op for p in progs for op, _ in p]
    ill = []
    for p in progs:
        for op, args in p:
            sig = SIG.get(op)
            if sig is not None and (len(args) != len(sig) or any(a[0] != t for a, t in zip(args, sig))):
                ill.append(op)
            if op in DYN:
                ill.append("dyn:" + op)
    return {"field": field, "glyph": idx, "ops": sorted(set(ops)), "illtyped_ops": sorted(set(ill)),
            "has_form": "Do" in ops, "has_dquote": '"' in ops, "nstreams": len(case.get("splits", [])) + 1}


def evaluate(case: dict, lean_spec=None):
    """Property on the implementation.  Returns (status, detail): status in ok|out|fail."""
    sp = lean_spec if lean_spec is not None else py_spec(case)
    if sp[0] != "ok":
        if case.get("more_pages"):
            im = run_impl(case)
            if im[0] == "ok" and im[2] is not None:
                return ("fail", ("page-dependence", im[2][0], None, None), im)
        return ("out", sp[1], None)
    im = run_impl(case)
    if im[0] == "exc":
        return ("fail", ("exception", im[1], None, None), im)
    d = seq_diff(im[1], sp[1])
    if d is None:
        if im[2] is not None:
            return ("fail", ("page-dependence", im[2][0], None, None), im)
        return ("ok", None, im)
    i, field = d
    return ("fail", (field, i, im[1][i] if i < len(im[1]) else None, sp[1][i] if i < len(sp[1]) else None), im)


def still_fails_like(case, sig_field) -> bool:
    st, det, _ = evaluate(case)
    if st != "fail":
        return False
    return classify_field(det[0]) == classify_field(sig_field)


def classify_field(field: str) -> str:
    if field == "exception":
        return "exception"
    if field == "page-dependence":
        return "page-dependence"
    if field.startswith("count"):
        return "count"
    if field.startswith("matrix") or field.startswith("bbox") or field == "size":
        return "position"
    return field


def shrink(case: dict, field: str) -> dict:
    """Delta-debug the page program, then the form bodies, then drop splits / forms / rotation."""
    import copy
    best = copy.deepcopy(case)

    def attempt(c):
        try:
            return still_fails_like(c, field)
        except Exception:  # noqa: BLE001
            return False

    def with_prog(p):
        c = copy.deepcopy(best)
        c["prog"] = p
        c["splits"], c["splitmode"] = [], []
        return c
    if attempt(with_prog(best["prog"])):
        best = with_prog(best["prog"])
    else:
        def with_prog2(p):
            c = copy.deepcopy(best)
            c["prog"] = p
            n = len(lex_tokens(p, c.get("trail", []), c.get("style", 0)))
            c["splits"] = sorted({min(max(1, s), max(1, n - 1)) for s in c["splits"]}) if n > 2 else []
            c["splitmode"] = c["splitmode"][:len(c["splits"])]
            return c
        with_prog = with_prog2   # noqa: F811
    best["prog"] = C.ddmin(best["prog"], lambda p: attempt(with_prog(p)), 150) if len(best["prog"]) > 1 else best["prog"]
    best = with_prog(best["prog"]) if attempt(with_prog(best["prog"])) else best
    for i in range(len(best["forms"])):
        def with_form(p, i=i):
            c = copy.deepcopy(best)
            c["forms"][i]["prog"] = p
            return c
        keep = 9 if has_prologue(best["forms"][i]["prog"]) else 0
        pro, rest = best["forms"][i]["prog"][:keep], best["forms"][i]["prog"][keep:]
        if len(rest) > 1:
            rest = C.ddmin(rest, lambda p: attempt(with_form(pro + p)), 80)
            if attempt(with_form(pro + rest)):
                best = with_form(pro + rest)
    for key, val in (("more_pages", []), ("rotate", 0), ("style", 0), ("mediabox", [0, 0, 612, 792])):
        c = copy.deepcopy(best)
        c[key] = val
        if attempt(c):
            best = c
    return best


def check_case(ctx: C.Ctx, case: dict, in_domain_wanted: bool, batch: list, origin: str = "gen") -> None:
    """Run the implementation now; queue the Lean requests (answers are compared in `flush`)."""
    im = run_impl(case)
    HISTORY.append(case)
    batch.append((case, im, in_domain_wanted, origin, len(HISTORY) - 1))


def flush(ctx: C.Ctx, batch: list) -> None:
    if not batch:
        return
    model_out = spec_out = None
    if ctx.driver is not None:
        lines = []
        for case, _, _, _, _ in batch:
            lines.append(enc_case(case, "model"))
            lines.append(enc_case(case, "spec"))
            lines.append(enc_case(case, "modelb"))
        rep = ctx.driver.ask(lines)
        model_out = [parse_reply(r) for r in rep[0::3]]
        spec_out = [parse_reply(r) for r in rep[1::3]]
        modelb_out = [parse_reply(r) for r in rep[2::3]]
    for k, (case, im, wanted, origin, hidx) in enumerate(batch):
        psp = py_spec(case)
        lsp = spec_out[k] if spec_out is not None else None
        feats = case_features(case)
        nglyph = len(im[1]) if im[0] == "ok" else 0
        nontriv = nglyph >= 2 and any(o in feats for o in ("Td", "TD", "T*", "'", '"', "Tc", "Tw", "Tz", "TJ", "Tm"))
        ctx.case(json.dumps(case, sort_keys=True), nontriv,
                 sample={"prog": enc_prog(case["prog"])[:300], "nforms": len(case["forms"]),
                         "streams": len(case.get("splits", [])) + 1, "glyphs": nglyph},
                 branch=("domain" if psp[0] == "ok" else "outside-domain") + ":" + origin)
        for o in feats:
            ctx.branch("op:" + o)
        ctx.branch("streams:%d" % (len(case.get("splits", [])) + 1))
        if case.get("bytecuts"):
            ctx.branch("bytecuts")
        ctx.branch("pages:%d" % (1 + len(case.get("more_pages", []))))
        for r in [case["res"]] + [pg["res"] for pg in case.get("more_pages", [])] + [fm["res"] for fm in case["forms"] if fm["res"]]:
            for ent in (r.get("cspaces") or {}).values():
                ctx.branch("cspace:" + ent[0])
        ctx.branch("forms:%d" % len(case["forms"]))
        for f in case["fonts"]:
            ctx.branch("font:" + f.get("kind", "simple"))
        if psp[0] == "out":
            ctx.branch("out:" + psp[1])
        for t in tags_for(case, 0, "", None, None)["illtyped_ops"]:
            ctx.branch("ill:" + t)
        if im[0] == "ok":
            # which kinds of glyph matrices the bbox comparison met (C05_glyph_bbox: every matrix)
            for gl in im[1]:
                a, b, c, d = gl["m"][:4]
                if a * d - b * c == 0:
                    kind = "singular"
                elif b == 0 and c == 0:
                    kind = "axis:" + ("+" if a > 0 else "-") + ("+" if d > 0 else "-")
                elif a == 0 and d == 0:
                    kind = "quarter-turn"
                else:
                    kind = "general"
                ctx.branch("glyph-matrix:" + kind)
                ctx.branch("upright:%s" % gl.get("upright"))
        # (0) the two spec implementations agree (Lean spec is the reference; the twin is the fallback oracle)
        twin_differs = False
        if lsp is not None:
            if lsp[0] == "err" or (lsp[0] == "ok") != (psp[0] == "ok") or (lsp[0] == "ok" and seq_diff(lsp[1], psp[1])):
                twin_differs = True
                ctx.disagree("spec-twin", {"case": case}, "python twin: %s %s" % (psp[0], psp[1] if psp[0] != "ok" else len(psp[1])),
                             "lean spec: %s %s" % (lsp[0], lsp[1] if lsp[0] != "ok" else len(lsp[1])))
        # (a) tie: model == implementation
        if model_out is not None:
            mo = model_out[k]
            if mo[0] != "ok":
                if not (im[0] == "exc"):
                    ctx.disagree("c05.model", {"case": case}, "glyphs=%d" % nglyph, mo[1])
            elif im[0] == "exc":
                ctx.disagree("c05.model", {"case": case}, im[1], "glyphs=%d" % len(mo[1]))
            else:
                d = seq_diff(im[1], mo[1])
                if d is not None:
                    i, field = d
                    ctx.disagree("c05.model", {"case": case, "glyph": i, "field": field},
                                 show_glyph(im[1][i]) if i < len(im[1]) else None,
                                 show_glyph(mo[1][i]) if i < len(mo[1]) else None)
            # (a') the same through the byte-level front end: lexer model + assembler on the very bytes pdfminer reads
            mb = modelb_out[k]
            ctx.branch("bytes:" + mb[0])
            if mb[0] == "ok" and im[0] == "ok":
                d = seq_diff(im[1], mb[1])
                if d is not None:
                    ctx.disagree("c05.model-bytes", {"case": case, "glyph": d[0], "field": d[1]},
                                 show_glyph(im[1][d[0]]) if d[0] < len(im[1]) else None,
                                 show_glyph(mb[1][d[0]]) if d[0] < len(mb[1]) else None)
            elif mb[0] == "ok" and im[0] == "exc":
                ctx.disagree("c05.model-bytes", {"case": case}, im[1], "glyphs=%d" % len(mb[1]))
            elif mb[0] == "err" and "fuel" in mb[1] and im[0] == "ok":
                ctx.disagree("c05.model-bytes", {"case": case}, "glyphs=%d" % nglyph, mb[1])
        # (b) property: implementation == spec on the domain
        # The Lean spec uses the matrix helpers regenerated from utils.py; when it and the twin (which shares no
        # code with the repo) differ, the twin is the oracle so that the edit is still reported with a replay.
        sp = lsp if (lsp is not None and lsp[0] != "err" and not twin_differs) else psp
        dep = im[2] if im[0] == "ok" else None
        fail = None
        if sp[0] == "ok":
            if im[0] == "exc":
                fail = ("exception", im[1], None, None)
            else:
                d = seq_diff(im[1], sp[1])
                if d is not None:
                    i, field = d
                    fail = (field, i, im[1][i] if i < len(im[1]) else None, sp[1][i] if i < len(sp[1]) else None)
        if fail is None and dep is not None:
            # what is reported for a page must not depend on the pages interpreted before it - whether or not the
            # text model gives the pages a meaning
            fail = ("page-dependence", dep[0], None, None)
        if fail is None:
            continue
        cls = classify_field(fail[0])
        seen = ctx.extra.setdefault("failures_by_class", {})
        seen[cls] = seen.get(cls, 0) + 1
        if seen[cls] > 3:
            continue                     # enough minimised witnesses of this kind; the count is in the evidence
        # A witness must fail in a process that has seen nothing else (that is what `--replay` gives): the
        # implementation may carry state from one document to the next (caches, module-level tables).
        history: List[dict] = []
        alone = hermetic([], case)
        if alone is not None and alone[0] == "fail" and classify_field(alone[1]) == cls:
            small = shrink(case, fail[0])
            st, det, _ = evaluate(small)
            h2 = hermetic([], small) if st == "fail" else None
            if not (st == "fail" and h2 is not None and h2[0] == "fail" and classify_field(h2[1]) == cls):
                small, det = case, fail
        else:
            small, det = case, fail
            prior = HISTORY[:hidx]
            k, found = 1, None
            while prior and found is None:
                cand = prior[-k:]
                r = hermetic(cand, case)
                if r is not None and r[0] == "fail" and classify_field(r[1]) == cls:
                    found = cand
                elif k >= len(prior):
                    break
                k = min(len(prior), k * 2)
            if found is not None:
                def hist_fails(hs):
                    r = hermetic(hs, case)
                    return r is not None and r[0] == "fail" and classify_field(r[1]) == cls
                history = C.ddmin(found, hist_fails, 24) if len(found) > 1 else found
                ctx.branch("failure-depends-on-earlier-documents")
            else:
                ctx.notes.append("a failure was not reproducible in a fresh process, neither alone nor after the "
                                 "documents interpreted before it")
        field = det[0]
        what = {"exception": "interpreting a program of the text-model domain raises",
                "count": "number of glyphs reported differs from the text model",
                "position": "glyph matrix / box differs from the position the PDF text model assigns",
                "adv": "glyph advance differs from the PDF text model",
                "font": "glyph font differs from the PDF text model",
                "upright": "glyph reported upright although rotated / mirrored (or the reverse)",
                "colour": "glyph fill colour differs from the PDF text model",
                "page-dependence": "the glyphs reported for a page depend on the pages interpreted before it"}[classify_field(field)]
        tags = tags_for(small, det[1] if isinstance(det[1], int) else -1, field, det[2], det[3])
        tags["min_ops"] = [op for op, _ in small["prog"]]
        if history:
            # documents interpreted earlier in the same process; the replay runs them first
            small = dict(small, history=history)
            tags["needs_history"] = len(history)
            what += " (only after other documents were interpreted in the same process)"
        if field == "exception":
            tags["exception"] = det[1]
        if field == "page-dependence":
            ctx.fail(C.Failure(what, small, "page %s reported as when interpreted on its own" % det[1],
                               "differs after the pages before it", tags))
        else:
            ctx.fail(C.Failure(what, small, show_glyph(det[3]) if field != "exception" else "no exception",
                               show_glyph(det[2]) if field != "exception" else det[1], tags))
    batch.clear()


CLASSIFIERS: Dict[str, Any] = {}

HISTORY: List[dict] = []      # every case the implementation has interpreted in this process, in order


def hermetic(history: List[dict], case: dict, timeout: int = 120):
    """Evaluate the property on `case` in a fresh interpreter process that first interprets `history`.
    Returns (status, field) with status in ok|out|fail, or None when the helper could not run."""
    import subprocess
    import sys
    code = ("import sys, json; sys.path.insert(0, %r); from harness.props import c05; c05._hermetic_main()"
            % os.path.join(C.VERIF, "tools"))
    try:
        p = subprocess.run([sys.executable, "-c", code], input=json.dumps({"history": history, "case": case}).encode(),
                           stdout=subprocess.PIPE, stderr=subprocess.PIPE, timeout=timeout,
                           env=dict(os.environ, VERIF_REPO=C.REPO))
        out = json.loads(p.stdout.decode().strip().splitlines()[-1])
        return (out["status"], out.get("field"))
    except Exception:  # noqa: BLE001
        return None


def _hermetic_main() -> None:
    import sys
    doc = json.loads(sys.stdin.read())
    for h in doc["history"]:
        run_impl(h)
    st, det, _ = evaluate(doc["case"])
    print(json.dumps({"status": st, "field": det[0] if st == "fail" else None}))


# ------------------------------------------------------------------------------------------ entry points

def run_corpus(ctx: C.Ctx) -> None:
    batch: list = []
    for path in sorted(glob.glob(os.path.join(C.VERIF, "corpus", "C05", "*.json"))):
        with open(path) as fp:
            doc = json.load(fp)
        inp = dict(doc["input"])
        for h in inp.pop("history", []):
            run_impl(h)
            HISTORY.append(h)
        check_case(ctx, inp, True, batch, "corpus")
    flush(ctx, batch)


def replay(ctx: C.Ctx, doc) -> None:
    batch: list = []
    inp = doc.get("input")
    if isinstance(inp, dict) and "case" in inp:
        inp = inp["case"]
    if isinstance(inp, dict) and "prog" in inp:
        inp = dict(inp)
        for h in inp.pop("history", []):      # documents that have to be interpreted first in this process
            run_impl(h)
            HISTORY.append(h)
        check_case(ctx, inp, True, batch, "replay")
    flush(ctx, batch)


def directed_cases() -> List[dict]:
    """Hand-written programs for every positioning / spacing rule (always run, before sampling)."""
    font = {"name": "VfD0", "first": 32, "widths": [250] + [500 + 4 * i for i in range(94)], "mw": 300, "descent": -200}
    base = {"mediabox": [0, 0, 612, 792], "rotate": 0, "fonts": [font], "forms": [],
            "res": {"fonts": {"F1": 0}, "xobjs": {}}, "trail": [], "splits": [], "splitmode": [], "style": 0}
    S = lambda t: ["s", t.encode().hex()]   # noqa: E731
    N = num
    head = [["BT", []], ["Tf", [["/", "F1"], N(10)]], ["Tm", [N(1), N(0), N(0), N(1), N(100), N(700)]]]
    progs = {
        "dquote": head + [["TL", [N(12)]], ["Tj", [S("A")]], ['"', [N(1), N(2), S("B C")]], ["Tj", [S("D")]], ["ET", []]],
        "quote": head + [["TL", [N(12)]], ["Tj", [S("A")]], ["'", [S("B")]], ["ET", []]],
        "tc-across-tj": head + [["Tc", [N(2)]], ["Tj", [S("AB")]], ["Tj", [S("C")]], ["ET", []]],
        "tc-leading-tj-number": head + [["Tc", [N(2)]], ["TJ", [["a", [N(-100), S("A"), N(50), S("B")]]]], ["ET", []]],
        "tw-tz": head + [["Tw", [N(3)]], ["Tz", [N(50)]], ["Tc", [N(1)]], ["Tj", [S("A B")]], ["Tj", [S("C")]], ["ET", []]],
        "td-TD-Tstar": head + [["Td", [N(5), N(-7)]], ["Tj", [S("A")]], ["TD", [N(3), N(-9)]], ["Tj", [S("B")]],
                               ["T*", []], ["Tj", [S("C")]], ["ET", []]],
        "rise": head + [["Ts", [N(3)]], ["Tj", [S("AB")]], ["ET", []]],
        "q-Q-cm": [["q", []], ["cm", [N(2), N(0), N(0), N(2), N(10), N(20)]], ["rg", [N(1), N(0), N(0)]]] + head +
                  [["Tj", [S("A")]], ["ET", []], ["Q", []]] + head + [["Tj", [S("B")]], ["ET", []]],
        "cs-sc": [["cs", [["/", "DeviceRGB"]]], ["sc", [N(1), N(0), N(F(1, 2))]]] + head + [["Tj", [S("A")]], ["ET", []]],
        "cs-resets-colour": [["rg", [N(1), N(0), N(0)]], ["cs", [["/", "DeviceGray"]]]] + head + [["Tj", [S("A")]], ["ET", []]],
        "Q-restores-colourspace": [["q", []], ["cs", [["/", "DeviceRGB"]]], ["Q", []], ["sc", [N(F(1, 2))]]] + head +
                                  [["Tj", [S("A")]], ["ET", []]],
        "missing-sc": [["sc", []]] + head + [["Tj", [S("A")]], ["ET", []]],
        "illtyped-Td": head + [["Tj", [S("A")]], ["Td", [["/", "x"], N(5)]], ["Tj", [S("B")]], ["ET", []]],
        "illtyped-Tj-number": head + [["Tj", [N(500)]], ["Tj", [S("B")]], ["ET", []]],
        "illtyped-TJ-string": head + [["TJ", [S("A")]], ["Tj", [S("B")]], ["ET", []]],
        "illtyped-TJ-name": head + [["TJ", [["/", "x"]]], ["Tj", [S("B")]], ["ET", []]],
        "illtyped-Tf": head + [["Tf", [["/", "F1"], ["/", "x"]]], ["Tj", [S("B")]], ["ET", []]],
    }
    out = []
    for name, p in progs.items():
        c = json.loads(json.dumps(base))
        c["prog"] = json.loads(json.dumps(p, default=str))
        c["name"] = name
        out.append(c)
    # form with a Matrix, then text in the caller
    form_prog = [["g", [N(F(1, 2))]], ["G", [N(0)]], ["Tc", [N(0)]], ["Tw", [N(0)]], ["Tz", [N(100)]], ["TL", [N(0)]],
                 ["Tf", [["/", "F1"], N(8)]], ["Tr", [N(0)]], ["Ts", [N(0)]], ["BT", []], ["Td", [N(1), N(2)]],
                 ["Tj", [S("x")]], ["ET", []]]
    c = json.loads(json.dumps(base))
    c["forms"] = [{"matrix": ["2", "0", "0", "2", "50", "60"], "bbox": [0, 0, 100, 100],
                   "res": {"fonts": {"F1": 0}, "xobjs": {}}, "prog": json.loads(json.dumps(form_prog))}]
    c["res"]["xobjs"] = {"X0": 0}
    c["prog"] = json.loads(json.dumps([["Do", [["/", "X0"]]]] + head + [["Tj", [S("A")]], ["ET", []]]))
    c["name"] = "form-then-caller-text"
    out.append(c)
    # a form that relies on the font, size, spacing and fill colour it inherits from its caller
    c = json.loads(json.dumps(base))
    c["forms"] = [{"matrix": ["1", "0", "0", "1", "30", "40"], "bbox": [0, 0, 100, 100], "res": None,
                   "prog": json.loads(json.dumps([["BT", []], ["Td", [N(1), N(2)]], ["Tj", [S("xy")]], ["ET", []]]))}]
    c["res"]["xobjs"] = {"X0": 0}
    c["prog"] = json.loads(json.dumps([["Tf", [["/", "F1"], N(9)]], ["rg", [N(1), N(0), N(F(1, 2))]], ["Tc", [N(3)]],
                                       ["Do", [["/", "X0"]]]]))
    c["name"] = "form-inherits-state"
    out.append(c)
    # vertical writing under 50 Tz with Tc and a TJ adjustment: ty is not scaled by Th
    c = json.loads(json.dumps(base))
    c["fonts"].append({"name": "VfV1", "first": 1, "widths": [-1000, -880], "mw": -900, "descent": -120, "kind": "cidv",
                       "disps": [[500, 880], [440, 800]], "dvy": 880})
    c["res"]["fonts"]["V1"] = 1
    c["prog"] = json.loads(json.dumps([["BT", []], ["Tf", [["/", "V1"], N(10)]], ["Tm", [N(1), N(0), N(0), N(1), N(300), N(700)]],
                                       ["Tz", [N(50)]], ["Tc", [N(2)]], ["Tj", [["s", "00010003"]]],
                                       ["TJ", [["a", [N(100), ["s", "0002"]]]]], ["ET", []]]))
    c["name"] = "vertical-Tz"
    out.append(c)
    # Type 3 font with a skewed FontMatrix: the horizontal scale is its a entry
    c = json.loads(json.dumps(base))
    c["fonts"].append({"name": "VfT1", "first": 65, "widths": [512, 1024, 300], "mw": 0, "descent": -128, "kind": "type3",
                       "fm": ["1/512", "0", "1/1024", "1/1024", "0", "0"]})
    c["res"]["fonts"]["T3"] = 1
    c["prog"] = json.loads(json.dumps([["BT", []], ["Tf", [["/", "T3"], N(8)]], ["Tm", [N(1), N(0), N(0), N(1), N(50), N(600)]],
                                       ["Tc", [N(1)]], ["Tj", [S("ABC")]], ["ET", []]]))
    c["name"] = "type3-fontmatrix"
    out.append(c)
    # colour-space resources: a name is looked up in the resources of the content being interpreted
    show = [["BT", []], ["Tf", [["/", "F1"], N(10)]], ["Tj", [S("A")]], ["ET", []]]
    c = json.loads(json.dumps(base))
    c["res"]["cspaces"] = {"CS1": ["DeviceCMYK", 4, "alias"], "Sp": ["Separation", 1, "sep"], "Cs2": ["ICCBased", 3, "icc"]}
    c["forms"] = [{"matrix": None, "bbox": [0, 0, 100, 100], "res": {"fonts": {"F1": 0}, "xobjs": {}, "cspaces": {}},
                   "prog": json.loads(json.dumps([["cs", [["/", "CS1"]]]] + show))}]
    c["res"]["xobjs"] = {"X0": 0}
    c["prog"] = json.loads(json.dumps([["g", [N(F(1, 2))]], ["Do", [["/", "X0"]]], ["cs", [["/", "CS1"]]]] + show +
                                      [["cs", [["/", "Sp"]]]] + show + [["cs", [["/", "Cs2"]]], ["sc", [N(1), N(0), N(F(1, 4))]]] + show +
                                      [["cs", [["/", "Nope"]]]] + show))
    c["more_pages"] = [{"res": {"fonts": {"F1": 0}, "xobjs": {}, "cspaces": {"Sp": ["DeviceRGB", 3, "alias"]}},
                        "prog": json.loads(json.dumps([["Tc", []], ["cs", [["/", "CS1"]]]] + show + [["cs", [["/", "Sp"]]]] + show))}]
    c["trail"] = [N(7)]
    c["name"] = "colourspace-resources-per-content"
    out.append(c)
    # colour spaces with 2 and with 5 components: sc takes that many operands, too few are ignored
    c = json.loads(json.dumps(base))
    c["res"]["cspaces"] = {"CS0": ["DeviceN", 2, "devn"], "CS1": ["ICCBased", 2, "icc"], "Cs2": ["DeviceN", 5, "devn"]}
    c["prog"] = json.loads(json.dumps(
        [["cs", [["/", "CS0"]]]] + show + [["sc", [N(F(1, 4)), N(F(3, 4))]]] + show + [["sc", [N(F(1, 2))]]] + show +
        [["Tc", []], ["cs", [["/", "CS1"]]], ["scn", [N(1), N(0)]]] + show +
        [["cs", [["/", "Cs2"]]]] + show + [["scn", [N(0), N(F(1, 8)), N(F(1, 4)), N(F(1, 2)), N(1)]]] + show +
        [["CS", [["/", "CS0"]]], ["SCN", [N(F(1, 2)), N(F(3, 4))]], ["Tw", []]] + show))
    c["name"] = "n-component-colour-spaces"
    out.append(c)
    # every piece of interpreter state a page can leave dirty, and a next page that would see it
    c = json.loads(json.dumps(base))
    c["prog"] = json.loads(json.dumps(
        [["Tf", [["/", "F1"], N(12)]], ["cm", [N(2), N(0), N(0), N(2), N(30), N(40)]], ["rg", [N(1), N(0), N(0)]],
         ["Tc", [N(3)]], ["Tw", [N(2)]], ["Tz", [N(50)]], ["TL", [N(14)]], ["Ts", [N(2)]], ["q", []],
         ["cm", [N(1), N(0), N(0), N(1), N(100), N(100)]], ["k", [N(0), N(1), N(0), N(0)]], ["q", []], ["BT", []],
         ["Tm", [N(1), N(0), N(0), N(1), N(10), N(500)]], ["Tj", [S("A B")]], ["ET", []]]))
    c["trail"] = [N(9), N(8)]
    c["more_pages"] = [{"res": {"fonts": {"F1": 0}, "xobjs": {}, "cspaces": {}},
                        "prog": json.loads(json.dumps([["Q", []], ["Tc", []], ["TL", []], ["sc", [N(F(1, 4))]], ["Tf", [["/", "F1"], N(10)]],
                                                       ["BT", []], ["T*", []], ["Tj", [S("C D")]], ["ET", []], ["Q", []], ["BT", []],
                                                       ["Tj", [S("E")]], ["ET", []]]))}]
    c["name"] = "page-starts-from-a-fresh-state"
    out.append(c)
    # text between vector graphics, clipping, marked content and general graphics state operators, some of them
    # with missing / ill-typed operands: none of them moves, recolours or drops a glyph (C05_unlisted_*)
    c = json.loads(json.dumps(base))
    Nm = lambda t: ["/", t]   # noqa: E731
    c["prog"] = json.loads(json.dumps(
        [["Tf", [Nm("F1"), N(10)]], ["Tc", [N(1)]], ["q", []], ["re", [N(0), N(0), N(300), N(300)]], ["W", []], ["n", []],
         ["BMC", [Nm("Span")]], ["w", [N(2)]], ["d", [["a", [N(3), N(1)]], N(0)]], ["J", [N(1)]], ["j", [N(2)]], ["M", [N(4)]],
         ["ri", [Nm("Perceptual")]], ["i", [N(1)]], ["gs", [Nm("GS0")]],
         ["BT", []], ["BDC", [Nm("P"), Nm("MC0")]], ["Tm", [N(1), N(0), N(0), N(1), N(20), N(500)]], ["w", [N(7)]],
         ["Tj", [S("AB")]], ["MP", [Nm("Pt")]], ["DP", [Nm("Pt"), Nm("Pr")]], ["d", [N(1)]], ["Tj", [S("C")]], ["EMC", []],
         ["BX", []], ["EX", []], ["w", [Nm("x")]], ["ET", []], ["EMC", []],
         ["m", [N(0), N(0)]], ["l", [N(50), N(50)]], ["c", [N(1), N(2), N(3), N(4), N(5), N(6)]], ["v", [N(1), N(2), N(3), N(4)]],
         ["y", [N(1), N(2), N(3), N(4)]], ["h", []], ["S", []], ["re", [N(5), N(5)]], ["re", [N(1), N(1), N(-4), N(9)]], ["f*", []],
         ["m", [N(1), Nm("x")]], ["l", [N(3), N(3)]], ["B", []], ["re", [N(0), N(0), N(1), N(1)]], ["b*", []],
         ["m", [N(2), N(2)]], ["l", [N(4), N(2)]], ["s", []], ["m", [N(2), N(2)]], ["f", []], ["m", [N(2), N(2)]], ["F", []],
         ["m", [N(2), N(2)]], ["B*", []], ["m", [N(2), N(2)]], ["l", [N(4), N(8)]], ["b", []], ["W*", []], ["n", []],
         ["sh", [Nm("Sh0")]], ["l", [["z"], N(2)]], ["Q", []],
         ["BT", []], ["Td", [N(5), N(6)]], ["Tj", [S("D")]], ["ET", []]]))
    c["name"] = "text-among-unlisted-operators"
    out.append(c)
    return out


def run(ctx: C.Ctx) -> None:
    run_corpus(ctx)
    batch: list = []
    for c in directed_cases():
        c = dict(c)
        c.pop("name", None)
        check_case(ctx, c, True, batch, "directed")
    flush(ctx, batch)
    n = ctx.n(1200, 40000)
    import time
    # thorough: the whole command (Lean build + audit + leanchecker, corpus, generation, hermetic re-evaluation of
    # failures) has to fit into 25 minutes: stop generating after 18 minutes of harness time
    stop_at = time.time() + (18 * 60 if ctx.tier == "thorough" else 10 ** 9)
    for i in range(n):
        if not ctx.time_left() or time.time() > stop_at:
            ctx.notes.append("time budget reached after %d generated cases" % i)
            break
        wild = (i % 5 == 4)
        nops = ctx.rng.choice([6, 12, 25, 40, 60]) if ctx.tier == "quick" else ctx.rng.choice([6, 12, 25, 60, 150, 400])
        g = Gen(ctx.rng, wild, nops, ill_rate=0.0 if i % 3 == 0 else 0.07)
        case = g.case()
        check_case(ctx, case, not wild, batch)
        if len(batch) >= 64:
            flush(ctx, batch)
    flush(ctx, batch)
