"""C13 worker: runs damaged documents through the extraction entry points under a deterministic
work budget, in a process of its own (the parent kills it on a hard hang).

usage: python c13_worker.py <jobs.jsonl> <results.jsonl>
job:    {"id": str, "pdf": hex, "entries": ["text"|"pages"|"xml"|"text_nc"|"pages_nc"|"xml_nc", ...], "budget": int, "wall": float}
result: {"id", "entry", "cls", "exc", "where", "events", "msg"}   (one line per entry, flushed;
        a line {"id","entry","cls":"start"} is written before each run so a kill is attributable)

cls: ok | family | assertion | internal | budget | recursion | wall
The budget counts sys.monitoring LINE events of code objects that live in $VERIF_REPO/pdfminer.
"""

from __future__ import annotations

import io
import json
import logging
import os
import resource
import signal
import sys
import types

REPO = os.environ.get("VERIF_REPO", "/repo")
if REPO not in sys.path:
    sys.path.insert(0, REPO)


class BudgetExceeded(BaseException):
    pass


class WallClock(BaseException):
    pass


def load_pdfminer():
    import importlib
    import pkgutil
    import pdfminer
    assert os.path.realpath(pdfminer.__file__).startswith(os.path.realpath(REPO)), pdfminer.__file__
    for m in pkgutil.iter_modules(pdfminer.__path__):
        try:
            importlib.import_module("pdfminer." + m.name)
        except Exception:  # noqa: BLE001  (optional deps of tools we never call)
            pass
    logging.getLogger("pdfminer").setLevel(logging.CRITICAL)
    return pdfminer


def code_objects(root: str):
    """All code objects defined by loaded modules under `root`."""
    seen = set()
    out = []

    def walk(co: types.CodeType) -> None:
        if co in seen:
            return
        seen.add(co)
        out.append(co)
        for c in co.co_consts:
            if isinstance(c, types.CodeType):
                walk(c)

    def visit(obj, depth=0) -> None:
        if isinstance(obj, types.FunctionType):
            walk(obj.__code__)
        elif isinstance(obj, (staticmethod, classmethod)):
            visit(obj.__func__, depth)
        elif isinstance(obj, property):
            for f in (obj.fget, obj.fset, obj.fdel):
                if f is not None:
                    visit(f, depth)
        elif isinstance(obj, type) and depth < 4:
            for v in list(vars(obj).values()):
                visit(v, depth + 1)

    root = os.path.realpath(root)
    for name, mod in list(sys.modules.items()):
        f = getattr(mod, "__file__", None)
        if not f or not os.path.realpath(f).startswith(root):
            continue
        for v in list(vars(mod).values()):
            if getattr(v, "__module__", None) == name or isinstance(v, types.FunctionType):
                visit(v)
    return [c for c in out if os.path.realpath(c.co_filename).startswith(root)]


class Meter:
    """LINE-event counter over pdfminer's code objects with a raise-on-exceed limit."""

    def __init__(self) -> None:
        self.mon = sys.monitoring
        self.tool = self.mon.PROFILER_ID
        self.count = 0
        self.limit = 1 << 62
        self.mon.use_tool_id(self.tool, "c13-budget")
        ev = self.mon.events.LINE
        for co in code_objects(os.path.join(REPO, "pdfminer")):
            self.mon.set_local_events(self.tool, co, ev)
        self.mon.register_callback(self.tool, ev, self.on_line)

    def on_line(self, code, line):  # noqa: ANN001
        self.count += 1
        if self.count > self.limit:
            raise BudgetExceeded()

    def start(self, limit: int) -> None:
        self.count = 0
        self.limit = limit

    def stop(self) -> int:
        self.limit = 1 << 62
        return self.count


def run_entry(entry: str, data: bytes) -> None:
    from pdfminer import high_level as H
    # "<entry>_nc": the same entry point with the document / resource caches switched off (caching=False,
    # disable_caching=True): every resolution then yields fresh objects, so state keyed by identity never matches
    caching = not entry.endswith("_nc")
    base = entry[:-3] if entry.endswith("_nc") else entry
    if base in ("text_la", "html", "tag", "xml_img"):
        # rarely used options of the same entry points
        from pdfminer.layout import LAParams
        if base == "text_la":
            H.extract_text(io.BytesIO(data), laparams=LAParams(detect_vertical=True, all_texts=True, boxes_flow=None),
                           maxpages=3, page_numbers=[0, 1, 2, 5], password="x")
        elif base == "xml_img":
            import shutil
            import tempfile
            d = tempfile.mkdtemp(prefix="c13img-")
            try:
                H.extract_text_to_fp(io.BytesIO(data), io.BytesIO(), output_type="xml", codec="utf-8", output_dir=d,
                                     laparams=LAParams(), strip_control=True, rotation=90)
            finally:
                shutil.rmtree(d, ignore_errors=True)
        else:
            H.extract_text_to_fp(io.BytesIO(data), io.BytesIO(), output_type=base, codec="utf-8", laparams=LAParams(),
                                 scale=2.0, layoutmode="exact")
        return
    if base == "text":
        H.extract_text(io.BytesIO(data), caching=caching)
    elif base == "pages":
        for _ in H.extract_pages(io.BytesIO(data), caching=caching):
            pass
    elif base == "xml":
        H.extract_text_to_fp(io.BytesIO(data), io.BytesIO(), output_type="xml", codec="utf-8",
                             disable_caching=not caching)
    else:
        raise ValueError(entry)


def innermost(e: BaseException) -> str:
    tb = e.__traceback__
    where = "<outside pdfminer>"
    root = os.path.realpath(os.path.join(REPO, "pdfminer"))
    while tb is not None:
        co = tb.tb_frame.f_code
        if os.path.realpath(co.co_filename).startswith(root):
            mod = os.path.splitext(os.path.basename(co.co_filename))[0]
            where = mod + "." + getattr(co, "co_qualname", co.co_name).replace("<locals>.", "")
        tb = tb.tb_next
    return where


def recursive_function(e: BaseException) -> str:
    """For a RecursionError the innermost frame is accidental; name the pdfminer function that occurs
    most often on the stack (the one that recurses)."""
    import collections
    tb = e.__traceback__
    root = os.path.realpath(os.path.join(REPO, "pdfminer"))
    cnt: "collections.Counter[str]" = collections.Counter()
    cache = {}
    while tb is not None:
        co = tb.tb_frame.f_code
        name = cache.get(co)
        if name is None:
            if os.path.realpath(co.co_filename).startswith(root):
                mod = os.path.splitext(os.path.basename(co.co_filename))[0]
                name = mod + "." + getattr(co, "co_qualname", co.co_name).replace("<locals>.", "")
            else:
                name = ""
            cache[co] = name
        if name:
            cnt[name] += 1
        tb = tb.tb_next
    if not cnt:
        return "<outside pdfminer>"
    top = max(cnt.values())
    return sorted(n for n, c in cnt.items() if c == top)[0]


def classify(meter: Meter, entry: str, data: bytes, budget: int, wall: float):
    from pdfminer.psexceptions import PSException

    def on_alarm(signum, frame):  # noqa: ANN001
        raise WallClock()

    signal.signal(signal.SIGALRM, on_alarm)
    signal.setitimer(signal.ITIMER_REAL, wall)
    meter.start(budget)
    cls, exc, where, msg = "ok", "", "", ""
    try:
        try:
            run_entry(entry, data)
        finally:
            events = meter.stop()
            signal.setitimer(signal.ITIMER_REAL, 0)
    except BudgetExceeded as e:
        cls, exc, where = "budget", "BudgetExceeded", innermost(e)
    except WallClock as e:
        cls, exc, where = "wall", "WallClock", innermost(e)
    except RecursionError as e:
        cls, exc, where = "recursion", "RecursionError", recursive_function(e)
    except PSException as e:
        cls, exc, where = "family", type(e).__name__, innermost(e)
    except AssertionError as e:
        cls, exc, where = "assertion", "AssertionError", innermost(e)
    except MemoryError as e:
        cls, exc, where = "internal", "MemoryError", innermost(e)
    except Exception as e:  # noqa: BLE001
        name = type(e).__name__
        if type(e).__module__ != "builtins":
            name = type(e).__module__.split(".")[0] + "." + name
        cls, exc, where = "internal", name, innermost(e)
        msg = str(e)[:120]
    return {"cls": cls, "exc": exc, "where": where, "events": events, "msg": msg}


def main() -> int:
    jobs_path, out_path = sys.argv[1], sys.argv[2]
    # keep a runaway allocation from hurting the shared machine
    try:
        resource.setrlimit(resource.RLIMIT_AS, (3 << 30, 3 << 30))
    except Exception:  # noqa: BLE001
        pass
    load_pdfminer()
    meter = Meter()
    with open(jobs_path) as fp, open(out_path, "a") as out:
        for line in fp:
            if not line.strip():
                continue
            job = json.loads(line)
            data = bytes.fromhex(job["pdf"])
            for entry in job["entries"]:
                out.write(json.dumps({"id": job["id"], "entry": entry, "cls": "start"}) + "\n")
                out.flush()
                r = classify(meter, entry, data, int(job.get("budget", 1 << 60)), float(job.get("wall", 20)))
                r.update(id=job["id"], entry=entry)
                out.write(json.dumps(r) + "\n")
                out.flush()
    return 0


if __name__ == "__main__":
    sys.exit(main())
