"""C13 - the reviewed list of OPEN findings (leaks that are not fixed in the repo) and the
statement status table.  One entry per (exception type, innermost pdfminer function, fault kind):
a leak with any other signature is reported as a VIOLATION.

Kept in a module of its own so that the list can be reviewed without reading the harness;
known_findings.d/C13.json is generated from OPEN by `python -m harness.props.c13_known`.
"""

from __future__ import annotations

import json
import os
import re
from typing import Any, Callable, Dict, List, Tuple

STATEMENT_STATUS: Dict[str, str] = {}

# (class, exception, innermost function, fault kind, note)
OPEN: List[Tuple[str, str, str, str, str]] = [
]


def finding_id(cls: str, exc: str, where: str, kind: str) -> str:
    base = "-".join(x for x in (cls if cls != "internal" else "", exc, where, kind) if x)
    return re.sub(r"[^A-Za-z0-9_.-]+", "_", base)


def classifier_name(cls: str, exc: str, where: str, kind: str) -> str:
    return "c13_" + re.sub(r"[^A-Za-z0-9_]+", "_", finding_id(cls, exc, where, kind))


def _pred(cls: str, exc: str, where: str, kind: str) -> Callable[[Any], bool]:
    def p(f: Any) -> bool:
        t = f.tags
        return (t.get("cls") == cls and t.get("exc", "") == exc and t.get("where", "") == where
                and t.get("kind") == kind)
    return p


def make_classifiers() -> Dict[str, Callable[[Any], bool]]:
    return {classifier_name(c, e, w, k): _pred(c, e, w, k) for (c, e, w, k, _) in OPEN}


def fragment() -> Dict[str, Any]:
    findings = []
    for (c, e, w, k, note) in OPEN:
        if c == "internal":
            what = f"{e} escapes from {w} on a '{k}' fault" + (f" ({note})" if note else "")
        else:
            what = f"{c} {e} in {w} on a '{k}' fault".replace("  ", " ") + (f" ({note})" if note else "")
        findings.append({"property": "C13", "id": finding_id(c, e, w, k), "status": "open", "what": what,
                         "classifier": classifier_name(c, e, w, k),
                         "replay": "corpus/C13/" + finding_id(c, e, w, k) + ".json"})
    return {"findings": findings, "fixed": FIXED}


FIXED: List[str] = []

if __name__ == "__main__":
    here = os.path.dirname(os.path.dirname(os.path.dirname(os.path.dirname(os.path.abspath(__file__)))))
    with open(os.path.join(here, "known_findings.d", "C13.json"), "w") as fp:
        json.dump(fragment(), fp, indent=1)
        fp.write("\n")
    print("wrote", len(OPEN), "open findings,", len(FIXED), "fixed")
