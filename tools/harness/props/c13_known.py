"""C13 - the reviewed list of OPEN findings (leaks that are not fixed in the repo) and the
statement status table.  One entry per (exception type, innermost pdfminer function, fault kind):
a leak with any other signature is reported as a VIOLATION.

Kept in a module of its own so that the list can be reviewed without reading the harness;
known_findings.d/C13.json is generated from OPEN by `python -m harness.props.c13_known`.
"""

from __future__ import annotations

import json
import os
import re
from typing import Any, Callable, Dict, List, Tuple

STATEMENT_STATUS: Dict[str, str] = {
    "C13_family_classes": "proved (class table regenerated from pdfminer/*.py)",
    "C13_internal_not_family": "proved",
    "C13_guards_present": "proved (flags regenerated from the sources: resolve1, resolve_all, create_pages, read_xref_from)",
    "C13_fuel_resolve1": "proved: fuel = number of objects + 1 suffices for every object graph",
    "C13_family_resolve1": "proved", "C13_total_resolve1": "proved (non-STRICT: always a value)",
    "C13_family_int_value": "proved", "C13_family_float_value": "proved", "C13_family_num_value": "proved",
    "C13_family_str_value": "proved", "C13_family_list_value": "proved", "C13_family_dict_value": "proved",
    "C13_family_stream_value": "proved", "C13_family_uint_value": "proved",
    "C13_family_safe_int": "proved (uses the regenerated except clause)", "C13_family_safe_float": "proved",
    "C13_family_safe_rect_list": "proved for every value (round 1: counter-example on stream values; fixed in the repo, except clause regenerated)",
    "C13_fuel_xref_chain": "proved: recursion depth <= number of sections + 1, incl. Prev/XRefStm cycles",
    "C13_family_xref_chain": "proved",
    "C13_fuel_pagetree": "proved: recursion depth <= number of objects + 2 for every graph (Kids cycles, direct nodes, ints)",
    "C13_family_pagetree": "proved",
    "C13_family_get_widths": "proved",
    "C13_fuel_get_widths": "proved: work <= 65536 per element of the W array + lengths of the copied arrays (MAX_CID regenerated; round 1: proved counter-example, fixed in the repo)",
    "C13_fuel_resolve_all": "proved: recursion depth <= (objects + 1) * (deepest nesting + 2) + nesting of the value + 2 for every graph",
    "C13_family_resolve_all": "proved",
    "C13_calls_resolve1": "proved (round 6): getobj calls of resolve1 <= distinct object numbers + 1; the calls of the implementation are counted and compared",
    "C13_work_xref_chain": "proved (round 6): sections loaded by read_xref_from <= sections of the file (each at most once)",
    "C13_bound_rldecode": "proved (round 6): every payload - output <= 128 * input bytes; errors RuntimeError/StopIteration are in the regenerated _DECODE_ERRORS",
    "C13_bound_asciihexdecode": "proved (round 6): every payload - 2 * output <= input + 1; only binascii.Error",
    "C13_bound_ascii85decode": "proved (round 6): every payload - output <= 4 * input + 16; only ValueError",
    "C13_bound_lzwdecode": "proved (round 6): every payload - output <= (8n+1)(8n+2); only IndexError",
    "C13_resolve_all_calls_cex": "proved counter-example (round 6): total getobj calls of resolve_all are not bounded by the input size - 2047 calls on 10 objects k: [k+1 0 R k+1 0 R], 4095 on 11 (measured alike on the implementation); only the depth bound C13_fuel_resolve_all holds; outside the single-fault domain, recorded as an observation",
    "C13_family_numtree_partial": "partial (round 6c): for every graph, start value, fuel and STRICT setting the NumberTree._parse walk yields the items, a family error or the out-of-fuel outcome (no builtin error); missing: proof that the depth fuel resolveAllBudget always suffices (checked by the harness on every generated tree)",
    "C13_numtree_visits_once": "proved (round 6c): the visited set returned by the walk is duplicate free - every indirect node and indirect Kids array is entered at most once, for every graph and fuel",
    "C13_numtree_guard_present": "proved (round 6), presence only: NumberTree._parse tests/grows/hands on its visited set incl. the indirect /Kids array (regenerated); the walk itself is not modelled",
    "C13_bound_predictors": "proved (round 6): PNG and TIFF predictors on arbitrary Colors/Columns/BitsPerComponent and data - output <= input",
    "C13_family_stream_decode": "proved (round 6): PDFStream.decode (model of C03, whole chain with predictors) returns data or raises a PDFException; CCITTFax is out of that model",
    "PS/PDF parser, object streams, fonts/CMaps/Type1, content interpreter, layout, converters, security handlers, CCITT/Flate internals":
        "not modelled here: fault enumeration only (search, not proof)",
}

# (class, exception, innermost function, fault kind, note)
OPEN: List[Tuple[str, str, str, str, str]] = [
]

# open findings that are specific to one entry-point variant: the classifier also requires that entry
OPEN_ENTRY: Dict[Tuple[str, str, str, str], Tuple[str, ...]] = {
}

# round 3: `budget-extreme` (utils.Plane.add enumerated every grid cell of text scaled to astronomic coordinates) was
# closed by /repo main aa4d991 "Plane bounds the grid work per operation" (C20 builder); not a classifier any more.
CLOSED_ROUND3: List[Tuple[str, str, str, str, str]] = [
    ("budget", "", "", "extreme", "closed by aa4d991 (utils.Plane overflow list, MAXCELLS)"),
]

# Findings of round 1 that no longer occur (full enumeration on the integrated tree + round-2 fixes);
# kept for the record only - they are NOT classifiers any more: a recurrence is a VIOLATION.
CLOSED_ROUND2: List[Tuple[str, str, str, str, str]] = [
    ('budget', '', '', 'replace', "e.g. seed 'fonts', replace at obj 6 W/1 -> int; 12 cases in the full enumeration"),
    ('internal', 'AttributeError', 'pdffont.PDFCIDFont.__init__', 'replace', "e.g. seed 'fonts', replace at obj 21 CIDSystemInfo/Ordering -> int: 'int' object has no attribute 'decode'; 396 cases in the full enumeration"),
    ('internal', 'AttributeError', 'utils.enc', 'replace', "e.g. seed 'fonts', replace at obj 10 FontName -> int: 'int' object has no attribute 'replace'; 76 cases in the full enumeration"),
    ('internal', 'IndexError', 'pdfdocument.PDFStandardSecurityHandler.compute_encryption_key', 'replace', "e.g. seed 'encrypted', replace at trailer None ID -> string: list index out of range; 63 cases in the full enumeration"),
    ('internal', 'KeyError', 'pdfdocument.PDFStandardSecurityHandler.init_params', 'remove', "e.g. seed 'encrypted', remove at encrypt None O: 'O'; 12 cases in the full enumeration"),
    ('internal', 'KeyError', 'pdfdocument.PDFStandardSecurityHandler.init_params', 'replace', "e.g. seed 'encrypted', replace at encrypt None O -> null: 'O'; 12 cases in the full enumeration"),
    ('internal', 'KeyError', 'pdffont.PDFCIDFont.__init__', 'remove', "e.g. seed 'fonts', remove at obj 19 Encoding: 'Encoding'; 3 cases in the full enumeration"),
    ('internal', 'KeyError', 'pdffont.PDFCIDFont.__init__', 'replace', "e.g. seed 'fonts', replace at obj 19 Encoding -> null: 'Encoding'; 3 cases in the full enumeration"),
    ('internal', 'KeyError', 'pdffont.PDFType3Font.__init__', 'remove', "e.g. seed 'fonts', remove at obj 11 FontBBox: 'FontBBox'; 3 cases in the full enumeration"),
    ('internal', 'KeyError', 'pdffont.PDFType3Font.__init__', 'replace', "e.g. seed 'fonts', replace at obj 11 FontBBox -> null: 'FontBBox'; 3 cases in the full enumeration"),
    ('internal', 'KeyError', 'pdfinterp.PDFResourceManager.get_font', 'remove', "e.g. seed 'fonts', remove at obj 17 DescendantFonts: 'DescendantFonts'; 9 cases in the full enumeration"),
    ('internal', 'KeyError', 'pdfinterp.PDFResourceManager.get_font', 'replace', "e.g. seed 'filters', replace at obj 25 Resources/Font/F1 -> dict: 'DescendantFonts'; 105 cases in the full enumeration"),
    ('internal', 'KeyError', 'pdftypes.PDFStream.__getitem__', 'ref', "e.g. seed 'fonts', ref at obj 15 FontFile (container): 'Length1'; 24 cases in the full enumeration"),
    ('internal', 'KeyError', 'pdftypes.PDFStream.__getitem__', 'remove', "e.g. seed 'xrefstm', remove at xref None W: 'W'; 12 cases in the full enumeration"),
    ('internal', 'KeyError', 'pdftypes.PDFStream.__getitem__', 'replace', "e.g. seed 'basic', replace at obj 14  -> name: 'N'; 309 cases in the full enumeration"),
    ('internal', 'TypeError', 'layout.LTChar.__init__', 'replace', "e.g. seed 'fonts', replace at obj 18 W2/1/1 -> dict: unsupported operand type(s) for *: 'dict' and 'float'; 141 cases in the full enumeration"),
    ('internal', 'TypeError', 'layout.LTFigure.__init__', 'replace', "e.g. seed 'nested', replace at obj 9 <dict>/BBox/0 -> string: can't concat int to bytes; 576 cases in the full enumeration"),
    ('internal', 'TypeError', 'pdfdocument.PDFDocument._getobj_objstm', 'replace', "e.g. seed 'xrefstm', replace at objstm None N -> dict: unsupported operand type(s) for *: 'dict' and 'int'; 54 cases in the full enumeration"),
    ('internal', 'TypeError', 'pdfdocument.PDFStandardSecurityHandler.compute_encryption_key', 'replace', "e.g. seed 'encrypted', replace at trailer None ID/0 -> array: object supporting the buffer API required; 69 cases in the full enumeration"),
    ('internal', 'TypeError', 'pdfdocument.PDFXRefStream.get_objids', 'replace', "e.g. seed 'xrefstm', replace at xref None Index/1 -> real: 'float' object cannot be interpreted as an integer; 9 cases in the full enumeration"),
    ('internal', 'TypeError', 'pdfdocument.PDFXRefStream.get_pos', 'replace', "e.g. seed 'xrefstm', replace at xref None Index/0 -> array: '<=' not supported between instances of 'list' and 'int'; 135 cases in the full enumeration"),
    ('internal', 'TypeError', 'pdfdocument.PDFXRefStream.load', 'replace', "e.g. seed 'xrefstm', replace at xref None Index -> bool: object of type 'bool' has no len(); 225 cases in the full enumeration"),
    ('internal', 'TypeError', 'pdffont.PDFCIDFont.__init__', 'replace', "e.g. seed 'fonts', replace at obj 18 DW2 -> real: cannot unpack non-iterable float object; 39 cases in the full enumeration"),
    ('internal', 'TypeError', 'pdffont.PDFCIDFont._get_cmap_name', 'ref', "e.g. seed 'fonts', ref at obj 19 Encoding (missing): 'NoneType' object is not subscriptable; 9 cases in the full enumeration"),
    ('internal', 'TypeError', 'pdffont.PDFCIDFont._get_cmap_name', 'replace', "e.g. seed 'fonts', replace at obj 5 Encoding -> int: 'int' object is not subscriptable; 207 cases in the full enumeration"),
    ('internal', 'TypeError', 'pdffont.PDFFont.char_width', 'replace', "e.g. seed 'fonts', replace at obj 18 DW2 -> ref: can't multiply sequence by non-int of type 'float'; 51 cases in the full enumeration"),
    ('internal', 'TypeError', 'pdffont.get_widths2', 'replace', "e.g. seed 'fonts', replace at obj 18 W2/2 -> real: 'float' object cannot be interpreted as an integer; 27 cases in the full enumeration"),
    ('internal', 'TypeError', 'utils.apply_matrix_norm', 'replace', "e.g. seed 'fonts', replace at obj 11 FontMatrix/0 -> dict: unsupported operand type(s) for *: 'dict' and 'int'; 192 cases in the full enumeration"),
    ('internal', 'TypeError', 'utils.mult_matrix', 'replace', "e.g. seed 'basic', replace at obj 12 <dict>/Matrix/2 -> dict: unsupported operand type(s) for *: 'int' and 'dict'; 288 cases in the full enumeration"),
    ('internal', 'ValueError', 'cmapdb.CMapParser.do_keyword', 'payload', "e.g. seed 'basic', payload at obj 11  (drop): not enough values to unpack (expected 2, got 1); 87 cases in the full enumeration"),
    ('internal', 'ValueError', 'layout.LTFigure.__init__', 'replace', "e.g. seed 'nested', replace at obj 10 <dict>/BBox -> real: not enough values to unpack (expected 4, got 0); 189 cases in the full enumeration"),
    ('internal', 'ValueError', 'pdfdocument.PDFXRefStream.load', 'replace', "e.g. seed 'xrefstm', replace at xref None W -> string: not enough values to unpack (expected 3, got 0); 15 cases in the full enumeration"),
    ('internal', 'ValueError', 'pdffont.PDFCIDFont.__init__', 'replace', "e.g. seed 'fonts', replace at obj 18 DW2 -> ref: too many values to unpack (expected 2); 18 cases in the full enumeration"),
    ('internal', 'ValueError', 'pdffont.Type1FontHeaderParser.do_keyword', 'payload', "e.g. seed 'fonts', payload at obj 16  (drop): not enough values to unpack (expected 2, got 1); 12 cases in the full enumeration"),
    ('internal', 'ValueError', 'pdfparser.PDFStreamParser.do_keyword', 'ref', "e.g. seed 'xrefstm', ref at obj 3 Parent (self): not enough values to unpack (expected 2, got 0); 150 cases in the full enumeration"),
    ('internal', 'ValueError', 'pdfparser.PDFStreamParser.do_keyword', 'replace', "e.g. seed 'xrefstm', replace at obj 11  -> ref: not enough values to unpack (expected 2, got 0); 78 cases in the full enumeration"),
    ('internal', 'ValueError', 'utils.apply_matrix_norm', 'remove', "e.g. seed 'fonts', remove at obj 11 FontMatrix: not enough values to unpack (expected 6, got 0); 3 cases in the full enumeration"),
    ('internal', 'ValueError', 'utils.apply_matrix_norm', 'replace', "e.g. seed 'fonts', replace at obj 11 FontMatrix -> bool: not enough values to unpack (expected 6, got 0); 66 cases in the full enumeration"),
    ('internal', 'ValueError', 'utils.mult_matrix', 'replace', "e.g. seed 'basic', replace at obj 12 <dict>/Matrix -> dict: not enough values to unpack (expected 6, got 0); 63 cases in the full enumeration"),
    ('internal', 'struct.error', 'pdfdocument.PDFStandardSecurityHandler.compute_encryption_key', 'replace', "e.g. seed 'encrypted', replace at encrypt None P -> name: 'L' format requires 0 <= number <= 4294967295; 57 cases in the full enumeration"),
    ('recursion', 'RecursionError', 'pdfdocument.PDFDocument.getobj', 'remove', "e.g. seed 'xrefstm', remove at xref None DecodeParms; 6 cases in the full enumeration"),
    ('recursion', 'RecursionError', 'pdfdocument.PDFDocument.getobj', 'replace', "e.g. seed 'xrefstm', replace at xref None Index/0 -> bool; 30 cases in the full enumeration"),
    ('recursion', 'RecursionError', 'pdfinterp.PDFPageInterpreter.execute', 'ref', "e.g. seed 'basic', ref at obj 12 <dict>/Resources/XObject/Im1 (container); 3 cases in the full enumeration"),
    ('recursion', 'RecursionError', 'pdfinterp.PDFPageInterpreter.render_contents', 'ref', "e.g. seed 'nested', ref at obj 9 <dict>/Resources/XObject/Fm2 (container); 3 cases in the full enumeration"),
    ('recursion', 'RecursionError', 'pdfinterp.PDFResourceManager.get_font', 'ref', "e.g. seed 'fonts', ref at obj 5 DescendantFonts/0 (container); 9 cases in the full enumeration"),
    ('recursion', 'RecursionError', 'pdftypes.resolve_all', 'replace', "e.g. seed 'basic', replace at obj 9 Widths/4 -> ref; 18 cases in the full enumeration"),
    ('internal', 'KeyError', 'model:safe_rect_list', 'graph', "casting.safe_rect_list on a PDFStream value (e.g. /FontBBox pointing at a stream): itertools.islice goes through PDFStream.__getitem__(0); proved counter-example C13_safe_rect_list_cex"),
]


def finding_id(cls: str, exc: str, where: str, kind: str) -> str:
    base = "-".join(x for x in (cls if cls != "internal" else "", exc, where, kind) if x)
    return re.sub(r"[^A-Za-z0-9_.-]+", "_", base)


def classifier_name(cls: str, exc: str, where: str, kind: str) -> str:
    return "c13_" + re.sub(r"[^A-Za-z0-9_]+", "_", finding_id(cls, exc, where, kind))


def _pred(cls: str, exc: str, where: str, kind: str) -> Callable[[Any], bool]:
    entries = OPEN_ENTRY.get((cls, exc, where, kind))

    def p(f: Any) -> bool:
        t = f.tags
        return (t.get("cls") == cls and t.get("exc", "") == exc and t.get("where", "") == where
                and t.get("kind") == kind and (entries is None or t.get("entry") in entries))
    return p


def make_classifiers() -> Dict[str, Callable[[Any], bool]]:
    return {classifier_name(c, e, w, k): _pred(c, e, w, k) for (c, e, w, k, _) in OPEN}


def fragment() -> Dict[str, Any]:
    findings = []
    for (c, e, w, k, note) in OPEN:
        if c == "internal":
            what = f"{e} escapes from {w} on a '{k}' fault" + (f" ({note})" if note else "")
        else:
            what = f"{c} {e} in {w} on a '{k}' fault".replace("  ", " ") + (f" ({note})" if note else "")
        findings.append({"property": "C13", "id": finding_id(c, e, w, k), "status": "open", "what": what,
                         "classifier": classifier_name(c, e, w, k),
                         "replay": "corpus/C13/" + finding_id(c, e, w, k) + ".json"})
    return {"findings": findings, "fixed": FIXED}


FIXED: List[str] = [
    "fixed: property=C13 aa4d991 work budget: utils.Plane.add enumerated every grid cell of text scaled to astronomic coordinates (form /Matrix 1e30 with all_texts, or a huge cm in a content stream); Plane now bounds the grid work per operation (fix by the Plane/C20 owner)",
    "fixed: property=C13 0e01a8b number tree (PageLabels) whose directly written intermediate node names the indirect /Kids array it sits in as its own /Kids: RecursionError in NumberTree._parse (the cycle passes through no node reference)",
    "fixed: property=C13 b008bbf stream whose /Length refers to the stream itself: RecursionError in getobj",
    "fixed: property=C13 9e1c212 negative or oversized /Length: wrong data / OverflowError",
    "fixed: property=C13 be941ec inline image with /F that is neither name nor non-empty array: TypeError/IndexError/KeyError",
    "fixed: property=C13 4a2cf3a number tree (PageLabels) with cyclic /Kids: RecursionError",
    "fixed: property=C13 8b1ab59 /Prev or /XRefStm beyond the largest file offset: OverflowError from seek",
    "fixed: property=C13 7cdbd5f colour space with absurd /N: MemoryError/OverflowError in _initial_color",
    "fixed: property=C13 a2c64ac absurd predictor /Columns: MemoryError from PDFStream.decode",
    "fixed: property=C13 79a7e11 CCITTFaxDecode with non-dictionary DecodeParms: AttributeError",
    "fixed: property=C13 fb38caf image export with implausible Width/Height/BitsPerComponent: TypeError/struct.error in ImageWriter",
    "fixed: property=C13 be736a1 resolve1 looped forever on a circular chain of indirect references (6 0 obj 6 0 R, 2-cycles)",
    "fixed: property=C13 0293c3a resolve_all recursed without end on circular references",
    "fixed: property=C13 46a54ec PDFStream.decode leaked decoder-internal errors (binascii.Error, ValueError, IndexError, RuntimeError/StopIteration, TypeError) on damaged LZW/ASCII85/ASCIIHex/RunLength data, predictors and DecodeParms",
    "fixed: property=C13 cd9cde1 SC/SCN/sc/scn with too few operands raised IndexError / TypeError",
    "fixed: property=C13 1c6bc91 ill-typed MediaBox/CropBox leaked TypeError (parse_rect, _parse_mediabox, _parse_cropbox)",
    "fixed: property=C13 57dff9f page-tree node that is not an indirect reference raised AttributeError in create_pages",
    "fixed: property=C13 cab1b11 circular /Prev or /XRefStm chain exhausted the recursion limit in read_xref_from",
    "fixed: property=C13 f7b1457 negative /Prev or /XRefStm offset leaked ValueError from seek",
    "fixed: property=C13 797bef9 ill-typed /W, /Index, /Size of a cross-reference stream leaked TypeError/ValueError/KeyError (PDFXRefStream.load/get_pos/get_objids); /Index beyond the data",
    "fixed: property=C13 ddcfb4c R keyword with fewer than two operands raised ValueError (PDFStreamParser.do_keyword)",
    "fixed: property=C13 395e0b9 object stream with ill-typed /N raised TypeError (_getobj_objstm)",
    "fixed: property=C13 3f7c362 object stream placed inside itself by damaged xref entries: RecursionError in getobj",
    "fixed: property=C13 4cf1737 form XObject with ill-typed BBox/Matrix raised TypeError/ValueError (LTFigure, mult_matrix)",
    "fixed: property=C13 ada9f4a form XObject invoking itself: RecursionError",
    "fixed: property=C13 ab04902 Type0 font without DescendantFonts (KeyError/AssertionError) or with a Type0 descendant (RecursionError)",
    "fixed: property=C13 a89708e Type3 font without FontBBox / ill-typed FontMatrix raised KeyError/TypeError/ValueError",
    "fixed: property=C13 30f5af0 W/W2 ranges beyond the CID range cost unbounded work; ill-typed W2 entries raised TypeError (get_widths2, LTChar)",
    "fixed: property=C13 40304a7 ill-typed CIDSystemInfo/Encoding/DW/DW2 of a CID font raised AttributeError/KeyError/TypeError/ValueError",
    "fixed: property=C13 22734f2 def/usecmap/put with too few operands raised ValueError (CMapParser, Type1FontHeaderParser)",
    "fixed: property=C13 2a6bae3 Type1 font program without Length1 raised KeyError",
    "fixed: property=C13 964d82d FontName that is not a name leaked AttributeError from utils.enc (XML converter)",
    "fixed: property=C13 1ebe933 encryption dictionary lacking R/P/O/U, out-of-range P, ill-typed ID leaked KeyError/struct.error/TypeError/IndexError",
    "fixed: property=C13 31c56c2 safe_rect_list raised KeyError for a stream value",
    "fixed: property=C13 03ebcc6 ICCBased colour space without N raised KeyError",
    "fixed: property=C13 6c31e54 resolve_all rewrote cached dictionaries in place (cyclic structures -> RecursionError)",
]

if __name__ == "__main__":
    here = os.path.dirname(os.path.dirname(os.path.dirname(os.path.dirname(os.path.abspath(__file__)))))
    with open(os.path.join(here, "known_findings.d", "C13.json"), "w") as fp:
        json.dump(fragment(), fp, indent=1)
        fp.write("\n")
    print("wrote", len(OPEN), "open findings,", len(FIXED), "fixed")
