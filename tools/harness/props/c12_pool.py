"""C12 - pool of generated documents that deliberately collide in everything a cache could be
keyed by: object numbers, font resource names (/F1 means a different font in every document and
inside form XObjects), base encodings with different /Differences, predefined CMap names,
ToUnicode maps, inherited vs own resources, object streams, RC4-encrypted and plain members.

Every document comes with an abstract description (`spec`) of what the implementation is expected
to read and to put into which cache; that description is what the Lean model of the process
(lean/PdfVerif/Model/Process.lean) is run on.

Geometry: text lines sit at irregular gaps and x offsets; rotated pages analysed with tight
margins still produce stacked one-glyph boxes at exactly equal distances - the situation in which
LTLayoutContainer.group_textboxes used to break ties by id() (fixed, see docs/C12.md).
"""

from __future__ import annotations

import hashlib
import re
import struct
import zlib
from typing import Any, Dict, List, Optional, Tuple

from harness import pdfwriter as W
from harness.pdfwriter import Ref, Stream, Name

# ----------------------------------------------------------------------------- fixed numbering
CATALOG, PAGES, SHARED_RES, SHARED_CONTENT = 1, 2, 9, 8
FONT_BASE = 3            # fonts F1..F4 are objects 3..6 in every document
PAGE_BASE = 10           # page i: contents 10+3i (and 11+3i), page object 12+3i
AUX_BASE = 40            # font k aux objects 40+10k ..
FORM_BASE = 100          # form XObjects 100, 101, ...
DAMAGED = 149            # a Flate stream cut short (tolerated: what can be inflated is used)
DANG_A, DANG_B = 150, 151  # references that resolve to nothing: no xref entry / compressed entry past the stream's /N

BASE_ENCODINGS = ["StandardEncoding", "MacRomanEncoding", "WinAnsiEncoding", "PDFDocEncoding"]
# unknown base name: EncodingDB falls back to std2unicode
BASE_ENC_MENU = BASE_ENCODINGS + ["FooEncoding"]
GLYPHS = ["Aacute", "bullet", "Euro", "fi", "zcaron", "germandbls", "A", "Z", "space", "eacute",
          "quotedblleft", "endash", "g123", "one", "ampersand", "ydieresis"]
STD14 = ["Helvetica", "Times-Roman", "Courier", "Helvetica-Bold"]
# every name FontMetricsDB knows a built-in table for: the 14 standard fonts ...
STD14_ALL = ["Courier", "Courier-Bold", "Courier-Oblique", "Courier-BoldOblique", "Helvetica", "Helvetica-Bold",
             "Helvetica-Oblique", "Helvetica-BoldOblique", "Times-Roman", "Times-Bold", "Times-Italic",
             "Times-BoldItalic", "Symbol", "ZapfDingbats"]
# ... and alias spellings that share the table OBJECT of a standard name (own widths under one, built-in under the other)
STD14_ALIAS = [("Arial", "Helvetica"), ("CourierNew,Bold", "Courier-Bold"), ("TimesNewRoman", "Times-Roman")]
STD14_OWN = ["own", "own+mw", "own-indirect", "own"]

# predefined CMaps (name, CIDSystemInfo ordering, sample byte strings); None ordering -> Identity
CMAPS = [
    ("90ms-RKSJ-H", "Japan1", [b"AB", b"\x82\xa0\x82\xa2", b"a\x82\xa9z"]),
    ("H", "Japan1", [b"\x30\x21\x30\x22", b"\x24\x22"]),
    ("KSC-EUC-H", "Korea1", [b"\xb0\xa1\xb0\xa2", b"Hi\xb0\xa3"]),
    ("GB-EUC-H", "GB1", [b"\xb0\xa1\xb0\xa2", b"ok\xb0\xa4"]),
    ("CNS1-H", "CNS1", [b"\x44\x21\x44\x22"]),
    ("NoSuchCMap-H", "Japan1", [b"AB\x82\xa0"]),       # CMapNotFound -> empty CMap
    ("90ms-RKSJ-H", "Foo1", [b"AB", b"\x82\xa0"]),     # unknown ordering -> no unicode map
    ("90ms-RKSJ-V", "Japan1", [b"AB\x82\xa0"]),        # vertical writing
]


def _load_cmap_data(name: str):
    import gzip
    import os
    import pickle
    path = os.path.join(os.environ.get("VERIF_REPO", "/repo"), "pdfminer", "cmap", name + ".pickle.gz")
    if not os.path.exists(path):
        return None
    with gzip.open(path) as fp:
        return pickle.loads(fp.read())          # the package's own data files, read as data


def _decode(code2cid, s: bytes) -> List[int]:
    out, d = [], code2cid
    for b in s:
        if b in d:
            x = d[b]
            if isinstance(x, int):
                out.append(x)
                d = code2cid
            else:
                d = x
        else:
            d = code2cid
    return out


def _two_byte_codes(code2cid) -> List[bytes]:
    res = []
    for a, x in code2cid.items():
        if isinstance(x, dict):
            for b, y in x.items():
                if isinstance(y, int):
                    res.append(bytes([a, b]))
    return res


def writing_mode_pairs() -> List[Tuple[str, str, List[bytes]]]:
    """Same character collection in horizontal and vertical writing: (name-H, name-V) pairs whose
    sample strings contain codes whose unicode value DIFFERS between the two tables of the collection
    (arrows, brackets, punctuation), mixed with codes that do not."""
    out: List[Tuple[str, str, List[bytes]]] = []
    for stem, ordering in [("Identity", "Japan1"), ("Identity", "Korea1"), ("Identity", "GB1"), ("Identity", "CNS1"),
                           ("90ms-RKSJ", "Japan1"), ("KSC-EUC", "Korea1"), ("GB-EUC", "GB1"), ("B5pc", "CNS1")]:
        um = _load_cmap_data("to-unicode-Adobe-" + ordering)
        if um is None:
            continue
        H, V = um["CID2UNICHR_H"], um["CID2UNICHR_V"]
        differ = sorted(k for k in set(H) | set(V) if H.get(k) != V.get(k))
        same = sorted(k for k in H if H.get(k) == V.get(k))[40:44]
        if not differ:
            continue
        if stem == "Identity":
            cids = differ[:3] + same[:2] + differ[-2:]
            samples = [b"".join(struct.pack(">H", c) for c in cids[:4]), b"".join(struct.pack(">H", c) for c in cids[3:])]
        else:
            cms = [_load_cmap_data(stem + sfx) for sfx in ("-H", "-V")]
            if cms[0] is None or cms[1] is None:
                continue
            dset = set(differ)
            hot: List[bytes] = []
            cold: List[bytes] = []
            for cm in cms:
                for c in _two_byte_codes(cm["CODE2CID"]):
                    (hot if any(k in dset for k in _decode(cm["CODE2CID"], c)) else cold).append(c)
            hot = sorted(set(hot))
            cold = sorted(set(cold) - set(hot))
            if not hot:
                continue
            samples = [b"".join(hot[:3] + cold[:1]), b"".join(cold[1:2] + hot[-2:])]
        out.append((stem + "-H", ordering, samples))
        out.append((stem + "-V", ordering, samples))
    return out


_PAIRS: Optional[List[Tuple[str, str, List[bytes]]]] = None


def all_cmaps() -> List[Tuple[str, str, List[bytes]]]:
    """CMAPS (hand-picked, incl. missing CMap / unknown ordering) followed by the writing-mode pairs,
    -H and -V of one collection adjacent."""
    global _PAIRS
    if _PAIRS is None:
        _PAIRS = writing_mode_pairs()
    return CMAPS + _PAIRS


SIMPLE_BYTES = list(range(65, 91)) + list(range(97, 123)) + [32, 32, 33, 39, 45, 96, 0x80, 0x85, 0x8A, 0xA4,
                                                           0xA7, 0xC9, 0xD0, 0xE9, 0xF1, 0xFC, 40, 41, 92]


def rc4(key: bytes, data: bytes) -> bytes:
    s = list(range(256))
    j = 0
    for i in range(256):
        j = (j + s[i] + key[i % len(key)]) & 255
        s[i], s[j] = s[j], s[i]
    i = j = 0
    out = bytearray()
    for c in data:
        i = (i + 1) & 255
        j = (j + s[i]) & 255
        s[i], s[j] = s[j], s[i]
        out.append(c ^ s[(s[i] + s[j]) & 255])
    return bytes(out)


PAD = bytes.fromhex("28bf4e5e4e758a4164004e56fffa01082e2e00b6d0683e802f0ca9fe6453697a")


def rc4_encrypt_setup(user: str, owner: str, docid: bytes, perms: int = -4) -> Tuple[bytes, Dict[str, Any]]:
    """ISO 32000-1 algorithms 2, 3, 4 for V=1 R=2 (40-bit RC4)."""
    up = (user.encode("latin-1") + PAD)[:32]
    op = (owner.encode("latin-1") + PAD)[:32]
    okey = hashlib.md5(op).digest()[:5]
    o = rc4(okey, up)
    p = struct.pack("<i", perms)
    key = hashlib.md5(up + o + p + docid).digest()[:5]
    u = rc4(key, PAD)
    return key, {"Filter": "Standard", "V": 1, "R": 2, "O": W.HexStr(o), "U": W.HexStr(u), "P": perms}


def obj_key(key: bytes, n: int, gen: int = 0) -> bytes:
    return hashlib.md5(key + struct.pack("<I", n)[:3] + struct.pack("<I", gen)[:2]).digest()[:min(len(key) + 5, 16)]


def encrypt_tree(o: Any, k: bytes) -> Any:
    if isinstance(o, bytes):
        return W.HexStr(rc4(k, o))
    if isinstance(o, W.HexStr):
        return W.HexStr(rc4(k, o.b))
    if isinstance(o, (list, tuple)):
        return [encrypt_tree(x, k) for x in o]
    if isinstance(o, dict):
        return {kk: encrypt_tree(v, k) for kk, v in o.items()}
    if isinstance(o, Stream):
        return Stream(encrypt_tree(o.d, k), rc4(k, o.data))
    return o


def build_objstm_pdf(objs: Dict[int, Any], root: int, in_stream: List[int], dangling: List[int] = ()) -> bytes:
    """One revision; `in_stream` objects live in one object stream; cross-reference stream.
    `dangling` object numbers get a compressed (type 2) entry whose index the stream does not have."""
    import io
    out = io.BytesIO()
    out.write(b"%PDF-1.7\n")
    sid = max(list(objs) + list(dangling)) + 1
    xid = sid + 1
    bodies = []
    head = []
    off = 0
    for n in in_stream:
        b = W.ser(objs[n]) + b"\n"
        head.append(b"%d %d" % (n, off))
        bodies.append(b)
        off += len(b)
    first = b" ".join(head) + b"\n"
    sdata = first + b"".join(bodies)
    sobj = Stream({"Type": "ObjStm", "N": len(in_stream), "First": len(first)}, sdata)
    offs: Dict[int, int] = {}
    for n, o in sorted(objs.items()):
        if n in in_stream:
            continue
        offs[n] = out.tell()
        out.write(W.ser_indirect(n, o))
    offs[sid] = out.tell()
    out.write(W.ser_indirect(sid, sobj))
    xpos = out.tell()
    rows = bytearray()
    for n in range(xid + 1):
        if n == xid:
            rows += struct.pack(">BIH", 1, xpos, 0)
        elif n in offs:
            rows += struct.pack(">BIH", 1, offs[n], 0)
        elif n in in_stream:
            rows += struct.pack(">BIH", 2, sid, in_stream.index(n))
        elif n in dangling:
            rows += struct.pack(">BIH", 2, sid, len(in_stream) + 3 + list(dangling).index(n))
        else:
            rows += struct.pack(">BIH", 0, 0, 65535)
    xobj = Stream({"Type": "XRef", "Size": xid + 1, "W": [1, 4, 2], "Root": Ref(root)}, bytes(rows))
    out.write(W.ser_indirect(xid, xobj))
    out.write(b"startxref\n%d\n%%%%EOF\n" % xpos)
    return out.getvalue()


# ----------------------------------------------------------------------------- fonts

def tounicode_stream(pairs: List[Tuple[bytes, str]], usecmap: Optional[str] = None, nbytes: int = 1) -> Stream:
    lo, hi = b"00" * nbytes, b"ff" * nbytes
    body = b"/CIDInit /ProcSet findresource begin\n12 dict begin\nbegincmap\n"
    if usecmap:
        body += b"/" + usecmap.encode() + b" usecmap\n"
    body += b"/CMapName /Adobe-Identity-UCS def\n/CMapType 2 def\n1 begincodespacerange\n<" + lo + b"> <" + hi + \
        b">\nendcodespacerange\n"
    body += b"%d beginbfchar\n" % len(pairs)
    for code, text in pairs:
        body += b"<" + code.hex().encode() + b"> <" + text.encode("utf-16-be").hex().encode() + b">\n"
    body += b"endbfchar\nendcmap\nCMapName currentdict /CMap defineresource pop\nend\nend\n"
    return Stream({}, body)


class FontDesc:
    """What the generator knows about one font object."""

    def __init__(self) -> None:
        self.kind = ""                  # std14 | type1 | truetype | type3 | cid-identity | cid-predef
        self.obj: Dict[str, Any] = {}
        self.aux: Dict[int, Any] = {}   # further indirect objects
        self.reads: List[int] = []      # aux objects the implementation reads when it builds the font
        self.base = 0                   # index into BASE_ENC_MENU (simple fonts)
        self.diffs: List[Tuple[int, str]] = []
        self.tounicode: List[Tuple[int, str]] = []
        self.cmap: Optional[str] = None  # predefined CMap name looked up in CMapDB (None: identity / simple)
        self.umap: Optional[str] = None  # unicode map name looked up in CMapDB
        self.usecmap: Optional[str] = None  # `usecmap` inside the ToUnicode stream: looked up in CMapDB, then ignored
        self.multibyte = False
        self.vertical = False
        self.identity = False           # composite font with Identity-H/V and a predefined collection
        self.samples: List[bytes] = []


class Plan:
    """Systematic part of a pool: every base-encoding spelling (the four known names, an unknown
    name, none) occurs WITH non-empty /Differences, as a plain name and absent, every simple font
    type and every predefined CMap is used, before anything is sampled freely."""

    def __init__(self, rng) -> None:
        n = len(BASE_ENC_MENU)
        order = list(range(n))
        rng.shuffle(order)
        self.enc: List[Tuple[str, Optional[int]]] = []
        for b in order:
            self.enc.append(("dict", b))
        self.enc.insert(rng.randrange(len(self.enc) + 1), ("dict", None))
        self.enc.insert(rng.randrange(len(self.enc) + 1), ("none", None))
        for b in order:
            self.enc.append(("name", b))
        self.simple = ["std14", "type1", "truetype", "type3"]
        rng.shuffle(self.simple)
        self.simple_i = 0
        # standard-14 fonts in PAIRS over the same built-in table: once with the font dictionary's own
        # /FirstChar /Widths (/MissingWidth), once relying on the built-in metrics — in both orders, through all
        # names (rotating start); consecutive entries go to consecutive documents
        pairs14 = [(a, a) for a in STD14_ALL] + list(STD14_ALIAS)
        k14 = rng.randrange(len(pairs14))
        pairs14 = pairs14[k14:] + pairs14[:k14]
        self.std14: List[Tuple[str, str]] = []
        for i, (a, b) in enumerate(pairs14):
            own = STD14_OWN[i % len(STD14_OWN)]
            self.std14 += [(a, own), (b, "builtin")] if i % 2 == 0 else [(b, "builtin"), (a, own)]
        self.std14_i = 0
        self.wtab_i = rng.randrange(8)
        # predefined CMaps: the writing-mode pairs first (a rotating start, -H and -V adjacent so that both
        # land in the same pool), then the hand-picked ones
        n0, allc = len(CMAPS), all_cmaps()
        pairs = [[i, i + 1] for i in range(n0, len(allc) - 1, 2)]
        if pairs:
            k = rng.randrange(len(pairs))
            pairs = pairs[k:] + pairs[:k]
            for pr in pairs:
                rng.shuffle(pr)
        rest = list(range(n0))
        rng.shuffle(rest)
        self.cmaps = [i for pr in pairs[:3] for i in pr] + rest + [i for pr in pairs[3:] for i in pr]
        self.cmap_i = 0
        self.other_i = 0
        self.seen: List[str] = []

    def next_enc(self):
        return self.enc.pop(0) if self.enc else None

    def next_std14(self) -> Tuple[str, str]:
        self.std14_i += 1
        return self.std14[(self.std14_i - 1) % len(self.std14)]

    def next_simple(self) -> str:
        self.simple_i += 1
        return self.simple[self.simple_i % len(self.simple)]

    def next_other(self):
        """alternates Identity-H and the predefined CMaps"""
        self.other_i += 1
        if self.other_i % 3 == 0:               # after every complete -H/-V pair
            return ("cid-identity", None)
        self.cmap_i += 1
        return ("cid-predef", self.cmaps[(self.cmap_i - 1) % len(self.cmaps)])


def gen_encoding(rng, fd: FontDesc, alloc, plan: Optional[Plan] = None) -> Any:
    forced = plan.next_enc() if plan is not None else None
    mode = rng.random()
    fd.base = 0
    if forced is not None:
        mode = {"none": 0.0, "name": 0.2, "dict": 0.9}[forced[0]]
    if mode < 0.15:
        if plan is not None:
            plan.seen.append("enc:absent")
        return None                      # no /Encoding: StandardEncoding
    if mode < 0.4:
        fd.base = rng.randrange(len(BASE_ENC_MENU)) if forced is None else forced[1]
        if plan is not None:
            plan.seen.append("enc:name:" + BASE_ENC_MENU[fd.base])
        return BASE_ENC_MENU[fd.base]
    enc: Dict[str, Any] = {"Type": "Encoding"}
    if (rng.random() < 0.8 and forced is None) or (forced is not None and forced[1] is not None):
        fd.base = rng.randrange(len(BASE_ENC_MENU)) if forced is None else forced[1]
        enc["BaseEncoding"] = BASE_ENC_MENU[fd.base]
    nd = rng.choice([0, 1, 2, 3, 5]) if forced is None else rng.choice([2, 3, 5])
    if plan is not None:
        plan.seen.append("enc:dict:%s:%s" % (enc.get("BaseEncoding", "nobase"), "diffs" if nd else "nodiffs"))
    diff: List[Any] = []
    code = None
    for _ in range(nd):
        if code is None or rng.random() < 0.6:
            code = rng.choice([65, 66, 97, 0x80, 0xE9, 32, 90, rng.randrange(33, 250)])
            diff.append(code)
        g = rng.choice(GLYPHS)
        diff.append(g)
        fd.diffs.append((code, g))
        code += 1
    if nd or rng.random() < 0.5:
        enc["Differences"] = diff
    if rng.random() < 0.5:
        n = alloc()
        fd.aux[n] = enc
        fd.reads.append(n)
        return Ref(n)
    return enc


def gen_simple_tounicode(rng, fd: FontDesc, alloc) -> None:
    pairs = []
    for code in rng.sample([65, 66, 67, 97, 98, 0xE9, 32, 120], rng.randint(1, 4)):
        t = rng.choice(["X", "ä", "ffi", "中", "q", "\U0001d11e"])
        pairs.append((bytes([code]), t))
        fd.tounicode.append((code, t))
    n = alloc()
    fd.usecmap = rng.choice([None, None, "90ms-RKSJ-H", "NoSuchCMap-H"])
    fd.aux[n] = tounicode_stream(pairs, usecmap=fd.usecmap)
    fd.reads.append(n)
    fd.obj["ToUnicode"] = Ref(n)


def gen_font(rng, alloc, plan: Optional[Plan] = None, force: Optional[str] = None) -> FontDesc:
    """force: 'simple' (next simple type + next planned encoding) | 'other' (next composite font)"""
    fd = FontDesc()
    r = rng.random()
    forced_cmap = None
    if force == "simple" and plan is not None:
        r = {"std14": 0.1, "type1": 0.3, "truetype": 0.3, "type3": 0.6}[plan.next_simple()]
    elif force == "other" and plan is not None:
        k, forced_cmap = plan.next_other()
        r = 0.7 if k == "cid-identity" else 0.9
    if force == "std14" and plan is not None:
        r = 0.1
    if r < 0.25:
        fd.kind = "std14"
        if force == "std14" and plan is not None:
            bname, variant = plan.next_std14()
        else:
            bname = rng.choice(STD14_ALL + [a for a, _ in STD14_ALIAS])
            variant = rng.choice(["builtin", "builtin", "own", "own+mw", "own-indirect", "mw"])
        fd.obj = {"Type": "Font", "Subtype": "Type1", "BaseFont": bname}
        fd.std14_variant = variant      # type: ignore[attr-defined]
        if variant.startswith("own"):
            # the font dictionary's own widths take precedence over the built-in metrics — for THIS font only
            wi = plan.wtab_i if plan is not None else rng.randrange(8)
            if plan is not None:
                plan.wtab_i += 1
            first = [32, 0, 32, 65][wi % 4]
            n = 256 - first
            table = [[2000] * n, [rng.choice([250, 333, 500, 556, 722, 1000]) for _ in range(n)],
                     [120] * n, [300 + 7 * (j % 97) for j in range(n)]][(wi // 2) % 4]
            fd.obj["FirstChar"] = first
            fd.obj["LastChar"] = 255
            if variant == "own-indirect":
                wn = alloc()
                fd.aux[wn] = table
                fd.reads.append(wn)
                fd.obj["Widths"] = Ref(wn)
            else:
                fd.obj["Widths"] = table
        if variant in ("own+mw", "mw"):
            fd.obj["FontDescriptor"] = {"Type": "FontDescriptor", "FontName": bname, "Flags": 32,
                                        "FontBBox": [-100, -210, 1000, 900], "MissingWidth": rng.choice([0, 500, 1500])}
        enc = gen_encoding(rng, fd, alloc, plan)
        if enc is not None:
            fd.obj["Encoding"] = enc
        if rng.random() < 0.25:
            gen_simple_tounicode(rng, fd, alloc)
    elif r < 0.55:
        fd.kind = rng.choice(["type1", "truetype"]) if force != "simple" else plan.simple[plan.simple_i % 4] \
            if plan.simple[plan.simple_i % 4] in ("type1", "truetype") else "type1"
        first = rng.choice([0, 32])
        widths = [rng.choice([250, 333, 500, 556, 722, 1000]) for _ in range(256 - first)]
        desc = {"Type": "FontDescriptor", "FontName": "ABCDEF+Gen%d" % rng.randrange(4), "Flags": 32,
                "FontBBox": [-100, -210, 1000, 900], "Ascent": rng.choice([700, 750, 905]),
                "Descent": rng.choice([-200, -212, 210]), "MissingWidth": rng.choice([0, 500]),
                "ItalicAngle": 0, "StemV": 80, "CapHeight": 700}
        fd.obj = {"Type": "Font", "Subtype": "Type1" if fd.kind == "type1" else "TrueType",
                  "BaseFont": desc["FontName"], "FirstChar": first, "LastChar": 255}
        if rng.random() < 0.5:
            n = alloc()
            fd.aux[n] = desc
            fd.reads.append(n)
            fd.obj["FontDescriptor"] = Ref(n)
        else:
            fd.obj["FontDescriptor"] = desc
        if rng.random() < 0.3:
            n = alloc()
            fd.aux[n] = widths
            fd.reads.append(n)
            fd.obj["Widths"] = Ref(n)
        else:
            fd.obj["Widths"] = widths
        enc = gen_encoding(rng, fd, alloc, plan)
        if enc is None:
            enc = "StandardEncoding"     # keep /Encoding present: no FontFile recovery path
        fd.obj["Encoding"] = enc
        if rng.random() < 0.35:
            gen_simple_tounicode(rng, fd, alloc)
    elif r < 0.65:
        fd.kind = "type3"
        fd.obj = {"Type": "Font", "Subtype": "Type3", "FontBBox": [0, -200, 1000, 800],
                  "FontMatrix": [0.001, 0, 0, 0.001, 0, 0], "CharProcs": {}, "FirstChar": 0, "LastChar": 255,
                  "Widths": [rng.choice([400, 600, 800])] * 256}
        fd.diffs = []
        enc = gen_encoding(rng, fd, alloc, plan)
        if enc is not None:
            fd.obj["Encoding"] = enc
    elif r < 0.8:
        fd.kind = "cid-identity"
        fd.multibyte = True
        dn = alloc()
        dfont = {"Type": "Font", "Subtype": "CIDFontType2", "BaseFont": "GenCID",
                 "CIDSystemInfo": {"Registry": b"Adobe", "Ordering": b"Identity", "Supplement": 0},
                 "DW": rng.choice([1000, 500]), "W": [65, [600, 700, 800], 100, 110, 450],
                 "FontDescriptor": {"Type": "FontDescriptor", "FontName": "GenCID", "Flags": 4,
                                    "FontBBox": [0, -200, 1000, 900], "Ascent": 880, "Descent": -120}}
        fd.aux[dn] = dfont
        fd.reads.append(dn)
        fd.obj = {"Type": "Font", "Subtype": "Type0", "BaseFont": "GenCID", "Encoding": "Identity-H",
                  "DescendantFonts": [Ref(dn)]}
        pairs = []
        for code in rng.sample([65, 66, 67, 68, 100, 0x3042], rng.randint(2, 5)):
            t = rng.choice(["A", "ß", "あ", "st", "€"])
            pairs.append((struct.pack(">H", code), t))
            fd.tounicode.append((code, t))
        if rng.random() < 0.85:
            tn = alloc()
            fd.aux[tn] = tounicode_stream(pairs, nbytes=2)
            fd.reads.append(tn)
            fd.obj["ToUnicode"] = Ref(tn)
        fd.samples = [b"\x00A\x00B", b"\x00C\x00D\x00d", b"\x30\x42\x00A", b"\x00\x45\x00\x46"]
    else:
        fd.kind = "cid-predef"
        fd.multibyte = True
        name, ordering, samples = rng.choice(all_cmaps()) if forced_cmap is None else all_cmaps()[forced_cmap]
        fd.vertical = name.endswith("-V")
        fd.identity = name.startswith("Identity-")
        dn = alloc()
        dfont = {"Type": "Font", "Subtype": "CIDFontType0", "BaseFont": "GenCJK",
                 "CIDSystemInfo": {"Registry": b"Adobe", "Ordering": ordering.encode(), "Supplement": 2},
                 "DW": 1000, "W": [1, 95, 500],
                 "FontDescriptor": {"Type": "FontDescriptor", "FontName": "GenCJK", "Flags": 4,
                                    "FontBBox": [0, -120, 1000, 880], "Ascent": 880, "Descent": -120}}
        if name.endswith("-V") and rng.random() < 0.5:
            dfont["DW2"] = [880, -1000]
            dfont["W2"] = [1, 10, -900, 500, 880]
        fd.aux[dn] = dfont
        fd.reads.append(dn)
        fd.obj = {"Type": "Font", "Subtype": "Type0", "BaseFont": "GenCJK-" + name, "Encoding": name,
                  "DescendantFonts": [Ref(dn)]}
        fd.cmap = None if fd.identity else name        # Identity-H/V never reach CMapDB
        fd.umap = "Adobe-" + ordering
        if plan is not None:
            plan.seen.append("cmap:%s:%s" % (name, ordering))
        fd.samples = samples
    return fd


def font_string(rng, fd: FontDesc) -> bytes:
    if fd.multibyte:
        return rng.choice(fd.samples)
    pool = SIMPLE_BYTES + [c for c, _ in fd.diffs] * 3 + [c for c, _ in fd.tounicode] * 2
    return bytes(rng.choice(pool) for _ in range(rng.randint(2, 9)))


# ----------------------------------------------------------------------------- documents

XS = [36 + 7 * i + (i * i % 5) / 8 for i in range(40)]        # distinct, irregular x offsets
GAPS = [31, 47, 58.5, 73, 89.25, 101, 118.75, 133, 151.5, 167]   # distinct, irregular line gaps


class Doc:
    def __init__(self) -> None:
        self.idx = 0
        self.data = b""
        self.user = ""
        self.owner = ""
        self.encrypted = False
        self.objstm: List[int] = []            # objects living in the object stream
        self.objstm_id = 0
        self.npages = 0
        self.fonts: Dict[int, FontDesc] = {}   # objnum -> desc (indirect fonts)
        self.open_reads: List[int] = []
        self.walk_reads: List[List[int]] = []  # per page: objects read to reach/construct the page
        self.proc_reads: List[List[int]] = []  # per page: objects read while interpreting it
        self.page_fontids: List[List[int]] = []  # per page: font object ids handed to get_font (0: direct)
        self.page_fonts: List[List[Tuple[str, int, FontDesc]]] = []   # (scope/resname, objid, desc)
        self.page_gops: List[List[Tuple[int, int]]] = []
        self.page_shows: List[List[Tuple[FontDesc, bytes]]] = []   # in paint order, forms included
        self.names: List[str] = []
        self.all_objnums: List[int] = []
        self.features: List[str] = []
        self.plan_seen: List[str] = []
        self.bulk = False
        self.dangling_in_stream: List[int] = []


def content_names(b: bytes) -> List[str]:
    return [m.decode("latin-1") for m in re.findall(rb"/([A-Za-z0-9+\-_.,]+)", b)]


GOP_CODE = {"re": 0, "m": 1, "l": 2, "h": 3, "paint": 4, "n": 5, "q": 6, "Q": 7, "w": 8, "operand": 9}


def gen_gops(rng, page_index: int, doc_index: int):
    """Graphics operators around the text of a page: (prefix bytes, prefix ops, suffix bytes, suffix ops).
    Page 0 of every document ENDS with path segments that are never painted, usually an unbalanced q, a
    changed line width and dangling operands; later pages BEGIN with a stray Q and painted shapes.
    None of this may reach the next page (init_state)."""
    def shape(painted: bool, ox: float):
        k = rng.choice(["re", "ml", "mllh"])
        x, y = ox + rng.randint(0, 40), 20 + rng.randint(0, 30) + 0.5
        if k == "re":
            b, ops = b"%s %s %d %d re\n" % (W.ser_real(x), W.ser_real(y), rng.randint(20, 60), rng.randint(10, 30)), [("re", 0)]
        elif k == "ml":
            b, ops = b"%s %s m %s %s l\n" % (W.ser_real(x), W.ser_real(y), W.ser_real(x + 33), W.ser_real(y + 7)), \
                [("m", 0), ("l", 0)]
        else:
            b = b"%s %s m %s %s l %s %s l h\n" % (W.ser_real(x), W.ser_real(y), W.ser_real(x + 30), W.ser_real(y),
                                                  W.ser_real(x + 11), W.ser_real(y + 19))
            ops = [("m", 0), ("l", 0), ("l", 0), ("h", 0)]
        if painted:
            b += rng.choice([b"S\n", b"f\n", b"B\n", b"f*\n"])
            ops.append(("paint", 0))
        return b, ops

    pre_b, pre, suf_b, suf = b"", [], b"", []
    if page_index >= 1 or rng.random() < 0.3:
        if rng.random() < 0.6:
            pre_b += b"Q\n"
            pre.append(("Q", 0))
        if rng.random() < 0.4:
            v = rng.choice([2, 3, 5])
            pre_b += b"%d w\n" % v
            pre.append(("w", v))
        for _ in range(rng.randint(1, 2)):
            b, ops = shape(True, 300)
            pre_b += b
            pre += ops
        if rng.random() < 0.3:
            b, ops = shape(False, 420)
            pre_b += b + b"n\n"
            pre += ops + [("n", 0)]
    if page_index == 0 or rng.random() < 0.4:
        if rng.random() < 0.6:
            suf_b += b"q\n"
            suf.append(("q", 0))
        if rng.random() < 0.6:
            v = rng.choice([4, 7, 9])
            suf_b += b"%d w 0.3 G\n" % v
            suf.append(("w", v))
        b, ops = shape(False, 480)
        suf_b += b
        suf += ops
        if rng.random() < 0.5:
            v = rng.randint(1, 9)
            suf_b += b"%d %d\n" % (v, v + 1)
            suf += [("operand", v), ("operand", v + 1)]
    return pre_b, pre, suf_b, suf


def gen_doc(rng, idx: int, plan: Optional[Plan] = None) -> Doc:
    d = Doc()
    d.idx = idx
    d.npages = rng.choice([1, 2, 2, 3, 3, 4])
    objs: Dict[int, Any] = {}
    nfonts = rng.randint(2, 4)
    counters = {}

    def mk_alloc(k):
        counters[k] = AUX_BASE + 10 * k

        def alloc():
            counters[k] += 1
            return counters[k] - 1
        return alloc

    fonts: List[FontDesc] = []
    for k in range(nfonts):
        # font 0: simple font with the next planned encoding; font 1: next planned composite font
        # every other document: font 0 (shown on every page) is the next standard-14 font of the planned pairs
        fd = gen_font(rng, mk_alloc(k), plan, ("std14" if k == 0 and idx % 2 == 0 and plan is not None else "simple")
                      if k in (0, 2) else "other")
        if getattr(fd, "std14_variant", None) is not None:
            d.features.append("std14:" + fd.std14_variant)      # type: ignore[attr-defined]
            if k == 0 and idx % 2 == 0 and plan is not None:
                plan.seen.append("std14-pair:" + ("own-widths" if fd.std14_variant.startswith("own") else "builtin"))  # type: ignore[attr-defined]
        fonts.append(fd)
        objs[FONT_BASE + k] = fd.obj
        objs.update(fd.aux)
        d.fonts[FONT_BASE + k] = fd
    # a direct (no object id) font, used under the resource name F9 on some pages
    direct_fd = gen_font(rng, mk_alloc(5), plan, "simple")
    objs.update(direct_fd.aux)

    # physical form first: it decides which kinds of dangling references exist
    form = rng.choice(["plain", "plain", "objstm", "objstm", "rc4"])
    # the font the interpreter falls back to for a name the page does not define / a reference to nothing
    undef_fd = FontDesc()
    undef_fd.kind = "type1"
    d.fonts[DANG_A] = undef_fd
    d.fonts[DANG_B] = undef_fd

    def font_resources(choice: List[int], with_direct: bool) -> Tuple[Dict[str, Any], List[Tuple[str, int, FontDesc]]]:
        # resource names are F1.. in *shuffled* assignment: /F1 is a different font per page/document
        res: Dict[str, Any] = {}
        table = []
        for j, k in enumerate(choice):
            res["F%d" % (j + 1)] = Ref(FONT_BASE + k)
            table.append(("F%d" % (j + 1), FONT_BASE + k, fonts[k]))
        if with_direct:
            res["F9"] = direct_fd.obj
            table.append(("F9", 0, direct_fd))
        # font entries that refer to nothing (get_font builds the fallback font under that object id)
        res["Fd"] = Ref(DANG_A)
        table.append(("Fd", DANG_A, undef_fd))
        if form == "objstm":
            res["Fe"] = Ref(DANG_B)
            table.append(("Fe", DANG_B, undef_fd))
        return res, table

    res_mode = rng.choice(["own", "own", "shared", "inherited"])
    d.features.append("res:" + res_mode)
    common_choice = [0] + rng.sample(range(1, nfonts), rng.randint(0, nfonts - 1))
    rng.shuffle(common_choice)
    common_res, common_table = font_resources(common_choice, rng.random() < 0.4)

    # forms: own resources where /F1 is (usually) another font than the page's /F1
    nforms = rng.choice([0, 0, 1, 2])
    forms = []
    for f in range(nforms):
        ch = rng.sample(range(nfonts), rng.randint(1, min(2, nfonts)))
        fres, ftable = font_resources(ch, False)
        own = rng.random() < 0.8
        body = bytearray()
        fshows: List[Tuple[str, bytes]] = []
        yy = 0.0
        for nm, oid, fd in (ftable if own else common_table[:1] if res_mode != "own" else []):
            s = font_string(rng, fd)
            body += b"BT /%s 11 Tf 3.5 %s Td %s Tj ET\n" % (nm.encode(), W.ser_real(yy), W.ser_string(s))
            fshows.append((nm, s))
            yy -= 17.25
        fd_ = {"Type": "XObject", "Subtype": "Form", "BBox": [0, -60, 300, 20], "Matrix": [1, 0, 0, 1, 0, 0]}
        if own:
            fd_["Resources"] = {"Font": fres}
        objs[FORM_BASE + f] = Stream(fd_, bytes(body))
        forms.append((FORM_BASE + f, fres, ftable, own, fshows))
    if nforms:
        d.features.append("forms:%d" % nforms)

    # colour space resource /CS0: a different space per document, or none although the content names it
    cs_name = rng.choice([None, "DeviceRGB", "DeviceCMYK", "DeviceGray"])
    cs_ops = {None: b"/CS0 cs 0.5 scn\n", "DeviceRGB": b"/CS0 cs 0.1 0.2 0.3 scn\n",
              "DeviceCMYK": b"/CS0 cs 0.1 0.2 0.3 0.4 scn\n", "DeviceGray": b"/CS0 cs 0.25 scn\n"}[cs_name]
    d.features.append("cs:" + str(cs_name))
    CS_UNDEF = b"/CS0 cs 0.5 scn\n"
    # content streams: optionally Flate-compressed; optionally one stream object shared by all pages
    flate = rng.random() < 0.5
    shared_prefix = rng.random() < 0.5
    raw_names: set = set()
    if shared_prefix:
        import zlib as _z
        pdata = rng.choice([b"0.2 g\n", b"0.9 0.1 0.1 rg\n", b"0.4 G\n"])
        objs[SHARED_CONTENT] = Stream({"Filter": "FlateDecode"}, _z.compress(pdata)) if flate else Stream({}, pdata)
    d.features.append("content:%s%s" % ("flate" if flate else "plain", "+shared" if shared_prefix else ""))
    kids = []
    line_no = 0
    used_form_nested = False
    prev_font_names: List[str] = []
    prev_xobj_names: List[str] = []
    for i in range(d.npages):
        cnum = PAGE_BASE + 3 * i
        pnum = cnum + 2
        if res_mode == "own":
            ch = [0] + rng.sample(range(1, nfonts), rng.randint(0, nfonts - 1))
            rng.shuffle(ch)
            res, table = font_resources(ch, rng.random() < 0.4)
        else:
            res, table = common_res, common_table
        page_reads: List[int] = []
        walk: List[int] = [PAGES] if i == 0 else []
        walk.append(pnum)
        fontids: List[int] = []
        pfonts: List[Tuple[str, int, FontDesc]] = []
        shows: List[Tuple[FontDesc, bytes]] = []

        def use_fonts(table_, scope):
            for nm, oid, fd in table_:
                pfonts.append((scope + nm, oid, fd))
                fontids.append(oid)
                if oid:
                    page_reads.append(oid)
                page_reads.extend(fd.reads)

        use_fonts(table, "")
        # content
        y = 760.0 - rng.choice([0, 3.5, 9.25])
        parts: List[bytes] = []
        pre_b, pre_ops, suf_b, suf_ops = gen_gops(rng, i, idx)
        # with own resources only every other page defines /CS0 (csmap is per page)
        cs_here = cs_name if (res_mode != "own" or i % 2 == 0) else None
        cur = bytearray((cs_ops if cs_here else CS_UNDEF) + pre_b)
        if rng.random() < 0.5:
            cur += b"BT 40 31.5 Td (leak) Tj ET\n"      # no Tf on this page yet: shows nothing
        nlines = rng.randint(2, 4)
        xobjs: Dict[str, Any] = {}
        for ln in range(nlines):
            nm, oid, fd = rng.choice(table)
            if ln == 0:
                nm, oid, fd = next(e for e in table if e[2] is fonts[0])     # the planned font is always shown
            s = font_string(rng, fd)
            size = rng.choice([9, 10, 12, 14.5])
            x = XS[(line_no * 7 + idx * 3) % len(XS)]
            y -= GAPS[(line_no + idx) % len(GAPS)] * 0.5 + 12
            line_no += 1
            op = W.ser_string(s) if rng.random() < 0.6 else b"<" + s.hex().encode() + b">"
            # text-state parameters are set and NOT reset: they must not survive into the next page
            ts = rng.choice([b"", b"", b"1.5 Tc ", b"2.25 Tw ", b"90 Tz ", b"3 Ts ", b"14 TL ", b"0.5 Tc 110 Tz "])
            cur += b"BT /%s %s Tf %s%s %s Td %s Tj ET\n" % (nm.encode(), W.ser_real(size), ts, W.ser_real(x),
                                                            W.ser_real(y), op)
            shows.append((fd, s))
            if forms and rng.random() < 0.4:
                fnum, fres, ftable, own, fshows = rng.choice(forms)
                fname = "Fm%d" % (fnum - FORM_BASE + 1)
                xobjs[fname] = Ref(fnum)
                y -= 40
                cur += b"q 1 0 0 1 %s %s cm /%s Do Q\n" % (W.ser_real(XS[(line_no * 3) % len(XS)]), W.ser_real(y),
                                                          fname.encode())
                page_reads.append(fnum)
                if own:
                    use_fonts(ftable, fname + ":")
                else:
                    use_fonts(table, fname + ":")   # form without /Resources uses the caller's
                ftab = dict((nm_, fd_x) for nm_, _, fd_x in (ftable if own else table))
                for nm_, s_ in fshows:
                    shows.append((ftab[nm_], s_))
                line_no += 1
            if ln == 0 and nlines > 2 and rng.random() < 0.3:
                parts.append(bytes(cur))
                cur = bytearray()
        # names that only the PREVIOUS page defines: fontmap / xobjmap / csmap are per page
        here = [nm_ for nm_, _, _ in table]
        for nm_ in prev_font_names:
            if nm_ not in here and nm_ not in ("F9", "Fd", "Fe"):
                s_ = bytes(rng.choice(range(65, 91)) for _ in range(3))
                cur += b"BT /%s 10 Tf 300.5 %s Td %s Tj ET\n" % (nm_.encode(), W.ser_real(775.25 - 3 * i), W.ser_string(s_))
                pfonts.append(("undef:" + nm_, 0, undef_fd))
                fontids.append(0)
                shows.append((undef_fd, s_))
                d.features.append("probe:font-of-previous-page")
                break
        if not xobjs and prev_xobj_names:
            cur += b"q 1 0 0 1 200 400 cm /%s Do Q\n" % prev_xobj_names[0].encode()
            d.features.append("probe:xobject-of-previous-page")
        if rng.random() < 0.3:
            xobjs["Fm8"] = Ref(DANG_B if form == "objstm" and rng.random() < 0.5 else DANG_A)
            cur += b"/Fm8 Do\n"
            page_reads.append(xobjs["Fm8"].n)
            d.features.append("dangling:xobject")
        prev_font_names, prev_xobj_names = here, sorted(xobjs)
        cur += suf_b
        parts.append(bytes(cur))
        d.page_gops.append([(GOP_CODE[k], v) for k, v in pre_ops + suf_ops])
        raw_names.update(content_names(b"".join(parts)))
        page: Dict[str, Any] = {"Type": "Page", "Parent": Ref(PAGES), "MediaBox": [0, 0, 612, 792]}
        if rng.random() < (0.5 if i == 0 else 0.2):      # a rotated FIRST page: later pages must not inherit it
            page["Rotate"] = rng.choice([90, 180, 270])
        elif rng.random() < 0.3:
            page["Rotate"] = Ref(DANG_B if form == "objstm" else DANG_A)     # resolves to nothing: 0
            walk.append(page["Rotate"].n)
            d.features.append("dangling:rotate")
        def cstream(data: bytes) -> Stream:
            if flate:
                return Stream({"Filter": "FlateDecode"}, zlib.compress(data))
            return Stream({}, data)
        if len(parts) == 1 and not shared_prefix:
            objs[cnum] = cstream(parts[0])
            page["Contents"] = Ref(cnum)
            walk.append(cnum)             # PDFPage.__init__ resolves a single /Contents reference
        else:
            refs = [Ref(SHARED_CONTENT)] if shared_prefix else []
            if rng.random() < 0.5:
                refs.insert(0, Ref(DANG_A))         # a /Contents element that refers to nothing
                d.features.append("dangling:contents")
            if rng.random() < 0.5:
                # a damaged (truncated Flate) content stream shared by the pages: decoded on the first
                # use (error path), the cached stream object is used again by later pages
                if DAMAGED not in objs:
                    z = zlib.compress(b"% damaged stream\n0.7 g\n" * 30)
                    objs[DAMAGED] = Stream({"Filter": "FlateDecode"}, z[:len(z) - 7])
                refs.insert(0, Ref(DAMAGED))
                d.features.append("damaged:contents")
            for j, part in enumerate(parts):
                objs[cnum + j] = cstream(part)
                refs.append(Ref(cnum + j))
            page["Contents"] = refs
            page_reads.extend(r.n for r in refs)
        full_res = {"Font": res, "ProcSet": ["PDF", "Text"]}
        if cs_here:
            full_res["ColorSpace"] = {"CS0": cs_here}
        if xobjs:
            full_res["XObject"] = xobjs
        if res_mode == "own" or xobjs:
            page["Resources"] = full_res
        elif res_mode == "shared":
            page["Resources"] = Ref(SHARED_RES)
            objs[SHARED_RES] = full_res
            walk.append(SHARED_RES)
        else:
            objs.setdefault(PAGES, {})["Resources"] = full_res      # inherited from the Pages node
        objs[pnum] = page
        kids.append(Ref(pnum))
        d.walk_reads.append(walk)
        d.proc_reads.append(page_reads)
        d.page_fontids.append(fontids)
        d.page_fonts.append(pfonts)
        d.page_shows.append(shows)
    pages_obj = objs.get(PAGES, {})
    pages_obj.update({"Type": "Pages", "Kids": kids, "Count": len(kids)})
    objs[PAGES] = pages_obj
    objs[CATALOG] = {"Type": "Catalog", "Pages": Ref(PAGES)}
    d.open_reads = [CATALOG]
    d.all_objnums = sorted(objs)

    # physical form
    d.features.append("phys:" + form)
    if form == "objstm":
        cand = [n for n, o in objs.items() if not isinstance(o, Stream)]
        d.objstm = sorted(rng.sample(cand, max(1, len(cand) * 2 // 3)))
        d.dangling_in_stream = [DANG_B]
        d.objstm_id = max(list(objs) + d.dangling_in_stream) + 1
        d.data = build_objstm_pdf(objs, CATALOG, d.objstm, d.dangling_in_stream)
    elif form == "rc4":
        d.encrypted = True
        d.user = rng.choice(["", "", "u%d" % idx])
        d.owner = "owner%d" % idx
        docid = hashlib.md5(b"doc%d" % idx).digest()
        key, encdict = rc4_encrypt_setup(d.user, d.owner, docid)
        eobjs = {n: encrypt_tree(o, obj_key(key, n)) for n, o in objs.items()}
        d.data = W.build_pdf(eobjs, CATALOG, trailer_extra={"Encrypt": encdict,
                                                            "ID": [W.HexStr(docid), W.HexStr(docid)]})
    else:
        d.data = W.build_pdf(objs, CATALOG, eol=rng.choice([b"\n", b"\r\n"]))
    names = set()
    for n, o in objs.items():
        names.update(content_names(W.ser(o.d) + o.data if isinstance(o, Stream) else W.ser(o)))
    names.update(raw_names)
    names.update(content_names(d.data))      # trailer, /Length, xref-stream and /Encrypt keys
    d.names = sorted(names)
    for fd in list(d.fonts.values()) + [direct_fd]:
        d.features.append("font:" + fd.kind)
        if fd.diffs:
            d.features.append("enc:differences")
        if fd.tounicode:
            d.features.append("tounicode")
    return d


BULK = 70000      # more distinct names / keywords than any power-of-two table limit up to 2**16


def gen_bulk_doc(rng, idx: int) -> Doc:
    """An unusual but valid document that makes the PROCESS-WIDE tables grow a lot: page 0 carries
    BULK distinct marked-content tags (/Tnnnnn MP -> interned names) and BULK distinct unknown operators
    (-> interned keywords) spread over many Flate-compressed content streams (-> many cached objects);
    page 1 is an ordinary page.  Whatever is extracted after it in the same process must not change."""
    d = Doc()
    d.idx = idx
    d.npages = 2
    fd = FontDesc()
    fd.kind = "std14"
    fd.obj = {"Type": "Font", "Subtype": "Type1", "BaseFont": "Helvetica"}
    objs: Dict[int, Any] = {CATALOG: {"Type": "Catalog", "Pages": Ref(PAGES)}, FONT_BASE: fd.obj}
    d.fonts[FONT_BASE] = fd
    # many font objects (font cache growth): clones with every base-encoding spelling
    nfonts = 150
    many: List[Tuple[str, int, FontDesc]] = []
    for j in range(nfonts):
        f = FontDesc()
        f.kind = "std14"
        f.base = j % len(BASE_ENC_MENU)
        f.obj = {"Type": "Font", "Subtype": "Type1", "BaseFont": STD14[j % len(STD14)], "Encoding": BASE_ENC_MENU[f.base]}
        objs[1000 + j] = f.obj
        d.fonts[1000 + j] = f
        many.append(("G%d" % j, 1000 + j, f))
    nstreams = 400          # many content streams (object cache growth)
    tag0 = rng.randrange(10) * 100000
    chunks = []
    per = BULK // nstreams + 1
    for j in range(nstreams):
        lo, hi = j * per, min(BULK, (j + 1) * per)
        body = b"".join(b"/T%06d MP\n" % (tag0 + i) for i in range(lo, hi)) + \
            b"".join(b"zq%06d\n" % (tag0 + i) for i in range(lo, hi))
        chunks.append(body)
    first = b"BT /F1 12 Tf 72.5 700 Td (bulk AZ) Tj ET\n"
    refs = []
    base = 200
    for j, body in enumerate([first] + chunks):
        objs[base + j] = Stream({"Filter": "FlateDecode"}, zlib.compress(body))
        refs.append(Ref(base + j))
    res = {"Font": {"F1": Ref(FONT_BASE)}}
    res0 = {"Font": dict({"F1": Ref(FONT_BASE)}, **{nm: Ref(n) for nm, n, _ in many})}
    objs[12] = {"Type": "Page", "Parent": Ref(PAGES), "MediaBox": [0, 0, 612, 792], "Resources": res0, "Contents": refs}
    objs[10] = Stream({}, b"BT /F1 11 Tf 80.25 650 Td (after the bulk page) Tj ET\n")
    objs[15] = {"Type": "Page", "Parent": Ref(PAGES), "MediaBox": [0, 0, 612, 792], "Resources": res, "Contents": Ref(10)}
    objs[PAGES] = {"Type": "Pages", "Kids": [Ref(12), Ref(15)], "Count": 2}
    d.data = W.build_pdf(objs, CATALOG)
    d.open_reads = [CATALOG]
    d.all_objnums = sorted(objs)
    d.walk_reads = [[PAGES, 12], [15, 10]]
    d.proc_reads = [[FONT_BASE] + [n for _, n, _ in many] + [r.n for r in refs], [FONT_BASE]]
    d.page_fontids = [[FONT_BASE] + [n for _, n, _ in many], [FONT_BASE]]
    d.page_fonts = [[("F1", FONT_BASE, fd)] + many, [("F1", FONT_BASE, fd)]]
    d.page_shows = [[(fd, b"bulk AZ")], [(fd, b"after the bulk page")]]
    d.page_gops = [[], []]
    names = set(content_names(d.data)) | {"F1"}
    names.update("T%06d" % (tag0 + i) for i in range(BULK))
    d.names = sorted(names)
    d.features = ["bulk:names=%d" % BULK, "bulk:keywords=%d" % BULK, "bulk:content-streams=%d" % (nstreams + 1),
                  "bulk:fonts=%d" % (nfonts + 1)]
    d.bulk = True
    return d


def gen_pool(rng, size: int) -> List[Doc]:
    plan = Plan(rng)
    docs = [gen_doc(rng, i, plan) for i in range(size)]
    for d in docs:
        d.plan_seen = plan.seen
    return docs
