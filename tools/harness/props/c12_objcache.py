"""C12 — tie of Model/ProcObjCache.lean (getobj + object cache over mutable containers) to the code.

On a real `PDFDocument` of a generated pool document a random sequence of caller actions is run:
  get n      `doc.getobj(n)`, look at it
  mut n v    change the returned dictionary / array IN PLACE (a marker entry)
  cpmut n v  copy it, change the copy (the discipline of pdfminer's own callers)
After every action the model and the implementation must agree on: the marker entries visible in the value
that getobj returned, whether that value equals a fresh cache-less parse, whether the very same Python object
was returned as last time, and the key set of `_cached_objs` restricted to the objects used.

Property on the implementation (C12_getobj_refines_parse / C12_getobj_nocache_pure): in a history without
in-place changes — and in EVERY history with caching off — each getobj equals the fresh parse.  That getobj
hands out the cached container itself (getobj_alias_cex) is recorded as agreement with the model, not as a
failure: a caller mutating it is outside the extraction calls the property quantifies over.
"""
from __future__ import annotations

import io
from typing import Any, Dict, List, Optional, Tuple

from harness import common as C

MARK = "Zz"


def open_doc(data: bytes, pw: str, caching: bool):
    from pdfminer.pdfdocument import PDFDocument
    from pdfminer.pdfparser import PDFParser
    return PDFDocument(PDFParser(io.BytesIO(data)), password=pw, caching=caching)


def marks_of(obj, orig_len: int) -> List[int]:
    if isinstance(obj, dict):
        return [v for k, v in obj.items() if isinstance(k, str) and k.startswith(MARK)]
    return list(obj[orig_len:])


def container_ids(data: bytes, pw: str, candidates: List[int], canon) -> Dict[int, Tuple[Any, int]]:
    """objid -> (canonical fresh value, original length) for the objects that parse to a dict / list"""
    from pdfminer.pdftypes import PDFObjectNotFound
    doc = open_doc(data, pw, False)
    out: Dict[int, Tuple[Any, int]] = {}
    for n in candidates:
        try:
            o = doc.getobj(n)
        except PDFObjectNotFound:
            continue
        except Exception:  # noqa: BLE001
            continue
        if isinstance(o, (dict, list)):
            out[n] = (canon(o), len(o))
    return out


def run_doc(ctx: C.Ctx, data: bytes, pw: str, candidates: List[int], canon, caching: bool, ops: List[List[int]],
            fresh: Dict[int, Tuple[Any, int]], record: bool = True) -> Optional[Tuple[str, Any, Any]]:
    from pdfminer.pdftypes import PDFObjectNotFound
    doc = open_doc(data, pw, caching)
    opened = set(doc._cached_objs)         # what opening the document read (catalog, ...): not the callers' doing
    asked: set = set()
    ids = sorted(fresh)
    lines = ["oworld %d %d %s" % (1 if caching else 0, len(ids), " ".join(map(str, ids)))]
    want: List[str] = []
    last: Dict[int, Any] = {}
    keep: List[Any] = []           # keep every object alive: `is` must not be fooled by a reused address
    mutated = False
    failure: Optional[Tuple[str, Any, Any]] = None
    for kind, n, v in ops:
        try:
            obj = doc.getobj(n)
        except PDFObjectNotFound:
            obj = None
        keep.append(obj)
        if obj is None or n not in fresh:
            val, is_fresh, same = "none", n not in fresh, False
        else:
            marks = marks_of(obj, fresh[n][1])
            val = ",".join(map(str, [n] + marks))
            same = last.get(n) is obj
            last[n] = obj
            stripped = ({k: x for k, x in obj.items() if not (isinstance(k, str) and k.startswith(MARK))}
                        if isinstance(obj, dict) else list(obj[:fresh[n][1]]))
            is_fresh = (not marks) and canon(stripped) == fresh[n][0]
            if canon(stripped) != fresh[n][0] and failure is None:
                failure = ("getobj returned a value that differs from a fresh parse in more than the caller's own markers",
                           repr(fresh[n][0])[:300], repr(canon(stripped))[:300])
            if (not mutated or not caching) and not is_fresh and failure is None:
                failure = ("getobj differs from a fresh cache-less parse although no caller changed a returned "
                           "container in place" if not mutated else
                           "getobj with caching off differs from a fresh parse", repr(fresh[n][0])[:300], val)
            if kind == 1:
                mutated = True
                if isinstance(obj, dict):
                    obj[MARK + str(v)] = v
                else:
                    obj.append(v)
            elif kind == 2:
                cp = obj.copy()
                keep.append(cp)
                if isinstance(cp, dict):
                    cp[MARK + str(v)] = v
                else:
                    cp.append(v)
        asked.add(n)
        cached = sorted(k for k in doc._cached_objs if k in fresh and (k not in opened or k in asked))
        want.append("val %s fresh=%d same=%d cached=%s" % (val, 1 if is_fresh else 0, 1 if same else 0,
                                                            ",".join(map(str, cached))))
        lines.append(["oget %d" % n, "omut %d %d" % (n, v), "ocpmut %d %d" % (n, v)][kind])
    if not record or ctx.driver is None:
        return failure
    replies = ctx.driver.ask(lines)
    if replies is None or len(replies) != len(lines):
        ctx.disagree("c12.objcache.driver", {"lines": lines[:3]}, "driver gave no answer", None)
        return failure
    for i, (w, r) in enumerate(zip(want, replies[1:])):
        kind, n, v = ops[i]
        ctx.case(("objcache", caching, tuple(map(tuple, ops[:i + 1]))), True,
                 branch="objcache:%s-%s" % (["get", "mut", "cpmut"][kind], "caching" if caching else "nocache"))
        if w != r:
            ctx.disagree("c12.objcache", {"caching": caching, "ops": ops[:i + 1]}, w, r)
            break
        if "same=1" in w:
            ctx.branch("objcache:same-object-returned")
        if "fresh=0" in w:
            ctx.branch("objcache:alias-visible")
    return failure


def run_objcache(ctx: C.Ctx, docs, canon, n: int) -> None:
    rng = ctx.rng
    for k in range(n):
        d = docs[k % len(docs)]
        cand = sorted(set(getattr(d, "all_objnums", []) or range(1, 60)))
        fresh = container_ids(d.data, d.user, cand, canon)
        if not fresh:
            continue
        ids = sorted(fresh)
        pick = rng.sample(ids, min(len(ids), 4)) + [max(cand) + 7]      # and an object that does not exist
        for caching in (True, False):
            for pure in (True, False):
                ops = []
                for _ in range(rng.randint(5, 12)):
                    kind = rng.choice([0, 0, 2] if pure else [0, 0, 1, 2])
                    ops.append([kind, rng.choice(pick), rng.randint(1, 99)])
                f = run_doc(ctx, d.data, d.user, cand, canon, caching, ops, fresh)
                if f is not None:
                    what = f[0]

                    def still(sub):
                        r = run_doc(ctx, d.data, d.user, cand, canon, caching, sub, fresh, record=False)
                        return r is not None and r[0] == what
                    small = C.ddmin(ops, still, max_tests=25)
                    if not small or not still(small):
                        small = ops
                    ctx.fail(C.Failure(what, {"objcache": {"doc_hex": d.data.hex(), "pw": d.user, "cand": cand,
                                                           "caching": caching, "ops": small}},
                                       f[1], f[2], {"op": "objcache"}))
                    return


def replay_objcache(ctx: C.Ctx, inp: Dict[str, Any], canon) -> None:
    o = inp["objcache"]
    data = bytes.fromhex(o["doc_hex"])
    fresh = container_ids(data, o["pw"], o["cand"], canon)
    f = run_doc(ctx, data, o["pw"], o["cand"], canon, o["caching"], o["ops"], fresh)
    if f is not None:
        ctx.fail(C.Failure(f[0], inp, f[1], f[2], {"op": "objcache"}))
